//! Kani proof harnesses over the real varpulis-runtime crate (path dependency on /repo).
//! Every harness bounds are stated in its attribute/comment and mirrored in /verif/props/*.py.
#![allow(dead_code, unused_imports, clippy::all)]

#[cfg(kani)]
mod clock;
#[cfg(kani)]
mod c08;
#[cfg(kani)]
mod c45;
