//! Virtual monotone clock: `Instant::now` is stubbed with an Instant built from two symbolic words.
use std::time::Instant;

pub static mut NOW_S: u64 = 0;
pub static mut NOW_N: u32 = 0;

#[repr(C)]
struct Ts { s: i64, n: u32 }

/// stub for std::time::Instant::now (no division: seconds and nanoseconds are separate words)
pub fn stub_now() -> Instant {
    unsafe { std::mem::transmute::<Ts, Instant>(Ts { s: NOW_S as i64 + 1000, n: NOW_N }) }
}

/// advance the clock by an arbitrary amount (0 ..= max_step seconds, any nanosecond part), never backwards
pub fn advance(max_step: u64) {
    let ds: u64 = kani::any();
    let n: u32 = kani::any();
    kani::assume(ds <= max_step && n < 1_000_000_000);
    unsafe {
        let s = NOW_S + ds;
        kani::assume(s > NOW_S || n >= NOW_N);
        NOW_S = s;
        NOW_N = n;
    }
}

