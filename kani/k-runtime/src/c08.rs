//! C08: `eval_binary_op` (the pattern-expression evaluator) on every Int/Float operand mix, against the
//! mathematical order.  One harness per (operator, operand class) so findings are keyed by class.
use std::cmp::Ordering;
use varpulis_core::ast::BinOp;
use varpulis_core::Value;
use varpulis_runtime::engine::evaluator::eval_binary_op;

/// exact mathematical comparison of an i64 with an f64 (None for NaN); no precision loss anywhere
fn cmp_int_float(i: i64, f: f64) -> Option<Ordering> {
    if f.is_nan() { return None; }
    if f >= 9223372036854775808.0 { return Some(Ordering::Less); }
    if f < -9223372036854775808.0 { return Some(Ordering::Greater); }
    let t = f.trunc();
    let ti = t as i64; // exact: |t| < 2^63 and integral
    if i < ti { return Some(Ordering::Less); }
    if i > ti { return Some(Ordering::Greater); }
    // same integer part: decided by the fractional part of f
    if f > t { Some(Ordering::Less) } else if f < t { Some(Ordering::Greater) } else { Some(Ordering::Equal) }
}

fn math_cmp(l: &Value, r: &Value) -> Option<Ordering> {
    match (l, r) {
        (Value::Int(a), Value::Int(b)) => Some(a.cmp(b)),
        (Value::Float(a), Value::Float(b)) => a.partial_cmp(b),
        (Value::Int(a), Value::Float(b)) => cmp_int_float(*a, *b),
        (Value::Float(a), Value::Int(b)) => cmp_int_float(*b, *a).map(|o| o.reverse()),
        _ => None,
    }
}

fn expect(op: &BinOp, o: Option<Ordering>) -> bool {
    match (op, o) {
        (_, None) => false, // NaN: every ordered comparison is false
        (BinOp::Lt, Some(o)) => o == Ordering::Less,
        (BinOp::Le, Some(o)) => o != Ordering::Greater,
        (BinOp::Gt, Some(o)) => o == Ordering::Greater,
        (BinOp::Ge, Some(o)) => o != Ordering::Less,
        _ => false,
    }
}

fn check(op: BinOp, l: Value, r: Value) {
    let got = eval_binary_op(&op, &l, &r);
    let want = expect(&op, math_cmp(&l, &r));
    let some_bool = matches!(got, Some(Value::Bool(_)));
    let ok = matches!(got, Some(Value::Bool(b)) if b == want);
    kani::cover!(want, "comparison can be true");
    kani::cover!(!want, "comparison can be false");
    std::mem::forget(got);
    std::mem::forget(l);
    std::mem::forget(r);
    assert!(some_bool, "no value for a numeric comparison");
    assert!(!some_bool || ok, "comparison result differs from the mathematical order");
}

macro_rules! cmp_harness {
    ($name:ident, $op:expr, $l:ident, $r:ident) => {
        #[kani::proof]
        #[kani::unwind(3)]
        fn $name() {
            check($op, Value::$l(kani::any()), Value::$r(kani::any()));
        }
    };
}

cmp_harness!(c08_lt_int_int, BinOp::Lt, Int, Int);
cmp_harness!(c08_lt_float_float, BinOp::Lt, Float, Float);
cmp_harness!(c08_lt_int_float, BinOp::Lt, Int, Float);
cmp_harness!(c08_lt_float_int, BinOp::Lt, Float, Int);
cmp_harness!(c08_le_int_int, BinOp::Le, Int, Int);
cmp_harness!(c08_le_float_float, BinOp::Le, Float, Float);
cmp_harness!(c08_le_int_float, BinOp::Le, Int, Float);
cmp_harness!(c08_le_float_int, BinOp::Le, Float, Int);
cmp_harness!(c08_gt_int_int, BinOp::Gt, Int, Int);
cmp_harness!(c08_gt_float_float, BinOp::Gt, Float, Float);
cmp_harness!(c08_gt_int_float, BinOp::Gt, Int, Float);
cmp_harness!(c08_gt_float_int, BinOp::Gt, Float, Int);
cmp_harness!(c08_ge_int_int, BinOp::Ge, Int, Int);
cmp_harness!(c08_ge_float_float, BinOp::Ge, Float, Float);
cmp_harness!(c08_ge_int_float, BinOp::Ge, Int, Float);
cmp_harness!(c08_ge_float_int, BinOp::Ge, Float, Int);

/// vacuity twin (thorough): must FAIL
#[kani::proof]
#[kani::unwind(3)]
fn c08_twin_must_fail() {
    let l = Value::Int(kani::any());
    let r = Value::Float(kani::any());
    let got = eval_binary_op(&BinOp::Lt, &l, &r);
    std::mem::forget(got);
    std::mem::forget(l);
    std::mem::forget(r);
    assert!(false, "twin: reachable end of harness");
}
