//! C45 (breaker part): CircuitBreaker contract over every history of <= K calls on a virtual clock.
//! Each public method holds the mutex for its whole body, so any interleaving of concurrent senders is a
//! sequential history of these calls: "a second allow_request before the first probe's record_*" is exactly
//! two concurrent senders.
use crate::clock::{advance, stub_now, NOW_N, NOW_S};
use std::time::Duration;
use varpulis_runtime::circuit_breaker::{CircuitBreaker, CircuitBreakerConfig, State};

fn history(k: usize, max_threshold: u32) {
    let thr: u32 = kani::any();
    kani::assume(thr >= 1 && thr <= max_threshold);
    let timeout_s: u64 = kani::any();
    kani::assume(timeout_s >= 1 && timeout_s <= 60);
    let cb = CircuitBreaker::new(CircuitBreakerConfig { failure_threshold: thr, reset_timeout: Duration::from_secs(timeout_s) });
    // reference monitor
    let mut m_state = State::Closed;
    let mut m_fail: u32 = 0;           // consecutive failures while closed
    let mut m_last_s: u64 = 0;         // virtual time (seconds, nanos) of the last recorded failure
    let mut m_last_n: u32 = 0;
    let mut m_probe = false;           // a half-open probe is outstanding
    let mut i = 0;
    while i < k {
        advance(100);
        let (now_s, now_n) = unsafe { (NOW_S, NOW_N) };
        let choice: u8 = kani::any();
        kani::assume(choice < 3);
        if choice == 0 {
            let a = cb.allow_request();
            match m_state {
                State::Closed => assert!(a, "closed breaker must admit"),
                State::Open => {
                    // elapsed >= timeout, compared on (seconds, nanoseconds) without any multiplication
                    let ds = now_s - m_last_s;
                    let expired = if now_n >= m_last_n { ds >= timeout_s } else { ds >= timeout_s + 1 };
                    if expired {
                        assert!(a, "first request after the reset timeout is the probe");
                        m_state = State::HalfOpen;
                        m_probe = true;
                        kani::cover!(true, "open -> half-open probe admitted");
                    } else {
                        assert!(!a, "open breaker must reject before the reset timeout");
                        kani::cover!(true, "rejected while open");
                    }
                }
                State::HalfOpen => {
                    if m_probe {
                        kani::cover!(true, "second caller while the probe is outstanding");
                        assert!(!a, "half-open: only one probe until it completes");
                    } else {
                        assert!(a);
                        m_probe = true;
                    }
                }
            }
        } else if choice == 1 {
            cb.record_success();
            m_fail = 0;
            if m_state == State::HalfOpen { m_state = State::Closed; m_probe = false; kani::cover!(true, "probe success closes"); }
        } else {
            cb.record_failure();
            m_last_s = now_s;
            m_last_n = now_n;
            match m_state {
                State::Closed => { m_fail += 1; if m_fail >= thr { m_state = State::Open; kani::cover!(true, "opens at the threshold"); } }
                State::HalfOpen => { m_state = State::Open; m_probe = false; kani::cover!(true, "probe failure reopens"); }
                State::Open => {}
            }
        }
        assert!(cb.state() == m_state, "breaker state differs from the contract");
        i += 1;
    }
}

#[kani::proof]
#[kani::unwind(7)]
#[kani::stub(std::time::Instant::now, stub_now)]
fn c45_breaker_k6_thr2() { history(6, 2); }

#[kani::proof]
#[kani::unwind(9)]
#[kani::stub(std::time::Instant::now, stub_now)]
fn c45_breaker_k8_thr4() { history(8, 4); }

#[kani::proof]
#[kani::unwind(7)]
#[kani::stub(std::time::Instant::now, stub_now)]
fn c45_twin_must_fail() { history(6, 2); assert!(false, "twin: reachable end of harness"); }
