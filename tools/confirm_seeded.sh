#!/bin/bash
# usage: confirm_seeded.sh <seeded-dir> <crate>   — confirms in a scratch worktree (outside /repo and /verif) that the seeded change
# compiles, passes the crate's existing tests, and that the demonstration fails with it and passes without it.  Writes <seeded-dir>/confirm.log
set -u
D=$(realpath "$1"); CRATE=$2
WT=/tmp/wt/confirm-$(basename "$D")
export CARGO_TARGET_DIR=/tmp/wt/target-confirm CARGO_NET_OFFLINE=true
LOG=$D/confirm.log; : > "$LOG"
git -C /repo worktree add -q --detach "$WT" HEAD || exit 2
cd "$WT"
git apply "$D/patch.diff" || { echo "PATCH DOES NOT APPLY" >> "$LOG"; git -C /repo worktree remove --force "$WT"; exit 2; }
mkdir -p crates/$CRATE/tests; cp "$D/seeded_demo.rs" crates/$CRATE/tests/seeded_demo.rs
echo "== with the change: cargo test -p $CRATE (all targets)" >> "$LOG"
cargo test -p $CRATE --offline --no-fail-fast 2>&1 | grep -E "^test result|^test .* FAILED|Running|error(\[|:)|could not compile" >> "$LOG"
git apply -R "$D/patch.diff"
echo "== without the change: cargo test -p $CRATE --test seeded_demo" >> "$LOG"
cargo test -p $CRATE --offline --test seeded_demo 2>&1 | grep -E "^test result|^test .* FAILED|error(\[|:)" >> "$LOG"
cd /; git -C /repo worktree remove --force "$WT"
echo "== done $(date -u)" >> "$LOG"
