#!/usr/bin/env python3
"""Regenerates /verif/MANIFEST.json from the table below (kept in one place so the manifest stays valid)."""
import json, os
ROOT = os.path.dirname(os.path.dirname(os.path.abspath(__file__)))

BASELINE = "cd /repo && (cargo nextest run --workspace --no-fail-fast --tool-config-file pb:/w/lib/nextest.toml --profile pb --test-threads 8 --offline || cargo test --workspace --no-fail-fast --offline)"

# id -> (engine, technique, level text, level note, design ref)
CLAIMED = {
 'C06': ('M', 'symbolic execution of the rustc MIR of every ZDD operation into Z3; one inductive step per operation over all families of a bounded universe (bit-vector set algebra as oracle); native replay of counterexamples',
         'Bounded solver-decided inductive step: for every arena and standalone operation (union, intersection, difference, product, product_with_optional, count, remap) the MIR of the recursive function is executed symbolically with both operands ranging over ALL families over n variables (n=4 quick, n=5 thorough); recursive calls are replaced by their contract with a strictly decreasing measure, caches by their invariant. Z3 proves result = set-algebra spec on every path, which by induction covers operation sequences of any length within the universe bound.',
         'Trusted: rustc MIR dump, vlib MIR parser/executor, the unique-table abstraction (get_node = decomposition, get_or_create = lo|addvar(hi,v) + ordering obligation; justified by C07), Z3. Outside: >5 variables, usize overflow of count, SharedArena locking.', 'DESIGN.md §4 C06'),
 'C08': ('M+K', 'symbolic execution of the MIR of eval_binary_op and of the Expr::Binary arm of eval_expr_with_functions into Z3 (bit-vector + IEEE-754 theories, exact oracle) plus Kani/CBMC harnesses on the compiled eval_binary_op; native replay',
         'Solver-decided for ALL i64 and ALL f64 bit patterns (no value bound, no loops): for each of <,<=,>,>= and each operand class (Int/Int, Float/Float, Int/Float, Float/Int) the result of both evaluators equals the mathematical order (NaN: false). Two independent encodings (MIR->Z3 and compiled crate->CBMC) must agree.',
         'Trusted: MIR dump + executor, Kani/CBMC, the exact comparison oracle (range split + round-toward-zero, written twice: z3 and Rust). Assumes the two recursive operand evaluations of the Binary arm can return any Some(Int|Float). Outside: non-numeric operands, engine plumbing around the evaluators.', 'DESIGN.md §4 C08'),
 'C45': ('K', 'Kani/CBMC bounded model checking of the real CircuitBreaker over symbolic call histories and a symbolic monotone clock (Instant::now stubbed), reference monitor as assertion; native replay under an interposed virtual clock',
         'Solver-decided for every history of <= 6 (quick) / <= 8 (thorough) calls chosen from {allow_request, record_success, record_failure} at arbitrary non-decreasing instants, thresholds 1-2 / 1-4, reset timeouts 1-60 s: opens after exactly threshold consecutive failures, rejects until the timeout has passed, admits exactly one half-open probe, closes on success, reopens on failure. Each method holds the mutex for its whole body, so these sequential histories are exactly the interleavings of concurrent senders.',
         'Only the breaker sentences of C45 are claimed. ResilientSink::send/send_batch and dead-letter-queue completeness (async + file I/O) are outside this technique. Trusted: Kani/CBMC, the clock stub, the monitor in kani/k-runtime/src/c45.rs.', 'DESIGN.md §4 C45'),
 'C11': ('M', 'symbolic execution of the MIR of the Expr::Binary / Expr::Unary arms and of the variant dispatch of eval_expr_with_functions into Z3, in both build profiles (overflow-checks on and off); every MIR assert terminator, diverging call and modelled std panic is a solver obligation; termination obligation on the catch-all arm; native replay',
         'Solver-decided panic-freedom for every binary operator (24) and unary operator (3) on operands of EVERY value variant with fully symbolic i64/f64/bool payloads, in the dev and the release profile, plus: no expression variant makes the evaluator re-enter itself with the same expression (the stack-overflow defect).',
         'Trusted: MIR dump + executor; std string/collection comparisons and powi/powf assumed panic-free (opaque models). Recursive operand evaluations return any Some(Value). Outside: arms of Array/Map/Index/Slice/Range/Coalesce/Member/Call/If/Ident (std iterator and formatting code), built-in functions, user functions, range sizes.', 'DESIGN.md §4 C11'),
 'C30': ('M', 'symbolic execution of the MIR of the private TokenBucket (new, try_consume+refill, reset_after, remaining) into Z3 (IEEE-754 theory) from an arbitrary valid bucket state under a symbolic monotone clock; one inductive step per method; native replay through RateLimiter::check under an interposed virtual clock',
         'Solver-decided one-step obligations for every burst 0..20, rate 0..50, every bucket state satisfying the invariant and every later instant: no panic, invariant 0<=tokens<=burst preserved, last_update=now, tokens\' = min(tokens+elapsed*rate, burst) minus one exactly when admitted, admitted iff a whole token is available; reset_after/remaining never panic and return a finite Duration (rate 0 included). The interval bound admitted <= burst + rate*T follows by the induction stated in props/c30.py.',
         'Claimed for one client\'s bucket ("while that client is tracked"). Outside: the per-IP map, eviction and the async RateLimiter::check wrapper (tokio RwLock + std HashMap), interleaved clients. Trusted: MIR dump + executor, models of Instant/Duration (listed in evidence), Z3 FP theory; the multi-step bound is an induction over the discharged step obligations, up to one rounding per operation.', 'DESIGN.md §4 C30'),
 'C07': ('M', 'symbolic execution of the MIR of UniqueTable::get_or_create, ZddArena::gc / remap_to_new_table and both ZDD iterators on a bounded concrete unique table with symbolic contents (Vec + hash-index models) into Z3, plus bounded model-side lemmas (canonicity, decomposition) linking the table to the family abstraction of C06; native probes for replay',
         'Solver-decided on every table of <= 3-4 symbolic nodes satisfying the representation invariant: get_or_create zero-suppresses, returns the existing id for an existing triple, otherwise appends exactly one indexed node and preserves the invariant; gc remap rebuilds a reduced, ordered, duplicate-free and fully indexed table whose refs denote the same families, gc empties every cache and installs the new table; both iterators, driven to exhaustion from any root, emit strictly ascending vectors, no set twice, and exactly the denoted family. Lemmas (<= 6 nodes, 4-5 variables): distinct ids denote distinct non-terminal families (same family => same root) and (var, lo, hi) is the decomposition at the smallest variable.',
         'Trusted: MIR dump + executor, container models, the hash-index model (get finds an id iff that id stores the triple; inserts are recorded and checked against the stored nodes), Z3. Outside: SharedArena locking, tables above the bounds (the C06 step obligations hold for all families over <= 5-6 variables given this invariant).', 'DESIGN.md §4 C07'),
 'C10': ('M', 'symbolic execution of the MIR of fold_binary / fold_unary (varpulis-parser) on symbolic operands, followed by symbolic execution of the real evaluator (eval_expr_with_functions, varpulis-runtime) on both the original and the folded expression against the same symbolic event; Z3 decides agreement on every pair of paths; native replay through fold_program + eval_filter_expr',
         'Solver-decided for every operator, operands each an integer literal (any i64), a float literal (any f64) or a field reference, and an event where the field is missing or holds a value of any type: the folded expression evaluates to the same value (Value::eq) or the same absence of a value, and folding does not panic. Disagreements are keyed by (operator, operand kinds, type class of the field); the identity rewrites pinned by the optimizer tests are recorded as known findings.',
         'Depth 1 (one operator over literal/field operands); Pow exponents bounded to 0..6 with exact models of wrapping_pow and of compiler-rt __powidf2; strings/arrays/maps opaque. Outside: deeper nesting (fold_expr recursion), fold_program traversal of statements/stream ops. Trusted: MIR dumps, executor, models listed in evidence.', 'DESIGN.md §4 C10'),
 'C14': ('M', 'symbolic execution of the MIR of the simd.rs kernels (sum/min/max: scalar 4-way unrolled, AVX2, and the dispatchers with symbolic feature detection) into Z3, one obligation set per concrete slice length with symbolic contents; AVX2 intrinsics as 4-lane IEEE operations, raw pointers as (slice, offset) with in-bounds obligations; native replay through the public kernels and, via cfg(varpulis_verif) hooks, the scalar kernels',
         'Solver-decided for every slice length 0..6 (quick) / 0..9 (thorough) — every residue of the 4-lane split on both sides of a full chunk: sum returns exactly the sum on the exact domain (integer-valued inputs |x| <= 2^20: a dropped, duplicated or mis-indexed element changes it), min/max return an element that bounds all elements for all non-NaN doubles, empty input gives no value, scalar and AVX2 targets agree, no out-of-bounds access and no arithmetic panic.',
         'PARTIAL claim: the numeric kernels under sum/avg/min/max only. Outside: floating-point rounding of general sums, the Aggregator apply / apply_refs / apply_columnar wrappers over events and the columnar buffer, avg/stddev/ema/first/last/count_distinct, NaN/missing handling of the callers. Sum kernels are checked on the exact integer domain (IEEE + = integer + below 2^53). Trusted: intrinsic models listed in evidence.', 'DESIGN.md §4 C14'),
 'C09': ('M', 'differential symbolic execution of the MIR of expr_to_sase_predicate (translation), eval_expr_with_functions (stream `.where`) and sase::eval_predicate / compare_values / values_equal / values_compare (sequence-step filter) into Z3 on the same symbolic event; every disagreement replayed natively through eval_filter_expr and a two-step SaseEngine',
         'Solver-decided for the programs `x OP lit` and `not (x OP lit)`, OP in {==, !=, <, <=, >, >=}, lit an Int (|v| <= 2^53 and beyond, as separate classes), Float (all bit patterns), Str or Bool literal with symbolic payload, against an event whose field x is missing, Null, Int, Float, Str or Bool with symbolic payload: no event is accepted by the stream only, and none by the step only (two obligations per path pair, keyed by operator, operand classes and direction).  158 of the 840 classes are genuine disagreements and are listed as known findings (KNOWN-FINDING lines); the other classes are proved.',
         'PARTIAL claim. Outside: and/or over comparisons (both sides compositional), filters that translate to Predicate::CompareRef / Predicate::Expr (cross-alias references, calls, arithmetic), string ordering beyond "one total order shared by both sides", 2-3 field expressions. Trusted: MIR dump + executor, Event::get modelled as returning the symbolic field on both sides.', 'DESIGN.md §4 C09'),
 'C34': ('M', 'symbolic execution of the MIR of event_type_matches, find_target_pipeline and ReplicaGroup::select_replica (varpulis-cluster) into Z3 with event types, patterns and pipeline names as terms of the string theory (unbounded length); native probe replay',
         'Solver-decided: event_type_matches equals its specification for ALL strings; find_target_pipeline returns the target of the first route in declaration order with a matching pattern, else the first pipeline, else None, for every table of <= 2 (thorough 3) routes x <= 2 patterns with symbolic strings; round-robin select_replica picks replica (counter mod n) and advances the counter by one from any counter value (so loads over any run differ by at most one until the counter wraps), and returns the pipeline name when there are no replicas.',
         'PARTIAL claim. Outside: key-hash stickiness and single-vs-batch key rendering (serde_json formatting + SipHash), coordinator resolve_inject_target / inject_batch wrappers, counter wrap at 2^64. Trusted: string-operation models (==, strip_suffix(char), starts_with), atomic fetch_add as read-then-add.', 'DESIGN.md §4 C34'),
 'C40': ('M', 'symbolic execution of the MIR of <Value as PartialEq>::eq, float_eq and <Value as Hash>::hash (varpulis-core) into Z3 on symbolic values of every scalar variant, short arrays and maps in both insertion orders, with hashing observed through a recording hasher (exact write sequence); native probe replay',
         'Solver-decided: equality is reflexive, symmetric and transitive (three symbolic values) and eq(a, b) implies identical hasher write sequences (hence equal hashes for every Hasher), for all scalar variants with fully symbolic payloads (all f64 bit patterns incl. NaN/-0.0, all i64/u64, booleans, strings as identity tokens), arrays of <= 2 scalars and maps of <= 2 entries with distinct keys in either insertion order.',
         'Trusted: MIR dump + executor; IndexMap equality modelled by its documented semantics (order-independent), iteration in insertion order; nested hashers modelled as uninterpreted folds of their write sequence. Outside: containers nested deeper than one level or longer than 2.', 'DESIGN.md §4 C40'),
 'C12': ('M', 'symbolic execution of the MIR of CountWindow / TumblingWindow / SessionWindow add_shared, advance_watermark and flush_shared (ColumnarBuffer inlined, VecDeque/Vec/iterator models with closures executed from MIR) into Z3; one inductive step from an arbitrary valid window state with the buffer length enumerated; bounded differential native replay',
         'Solver-decided step obligations for every buffer of 0..3 (quick) / 0..5 (thorough) symbolic events, every count 1..K+1, every duration/gap/timestamp in range: emitted ++ buffer == old buffer ++ [event] in arrival order (nothing lost or duplicated), a count window closes with exactly its size, tumbling windows hold only events earlier than first event + duration (ties at exactly start+duration close), session gaps within `gap` (gap exactly equal stays), watermark closes exactly at the documented condition; window invariants are preserved, so the step covers histories of any length.',
         'Trusted: MIR dumps (both printers), executor, container models (vlib/containers.py), chrono time arithmetic as 64-bit nanoseconds. Outside: Partitioned* wrappers, checkpoint/restore, flush_columnar, zero-length tumbling windows, engine/pipeline plumbing; time conditions are claimed for in-order arrivals (with ties), partition obligations for any order.', 'DESIGN.md §4 C12/C13'),
 'C13': ('M', 'symbolic execution of the MIR of SlidingCountWindow::add_shared and SlidingWindow::{add_shared, advance_watermark} (position/drain/map/collect pipelines and bool::then closures executed from MIR) into Z3; one step from an arbitrary valid window state with the buffer length enumerated; bounded differential native replay',
         'Solver-decided step obligations for every buffer of 0..3 / 0..5 symbolic in-order events with ties, every (size, slide): a count-sliding emission holds exactly the last N events and happens exactly when the window is full and the slide count has elapsed (counter restarts); a time-sliding emission holds exactly the events with timestamp >= trigger - size in arrival order and happens exactly when trigger >= last emission + slide; last_emit bookkeeping exact.',
         'Trusted as for C12. Outside: PartitionedSlidingCountWindowState / PartitionedSlidingWindow wrappers (FxHashMap<String,_>), checkpoint/restore, out-of-order streams.', 'DESIGN.md §4 C12/C13'),
}

NOT_APPLICABLE = {
}
PENDING_REASON = 'claimed in DESIGN.md but its check is not built yet in this commit; listed here until the check runs clean on the unchanged tree'

def main():
    props = [json.loads(l) for l in open(os.path.join(ROOT, 'properties.jsonl'))]
    na_file = json.load(open(os.path.join(ROOT, 'tools', 'not_applicable.json')))
    checks = []
    for pid, (eng, tech, text, note, ref) in sorted(CLAIMED.items()):
        checks.append({
            'property_id': pid,
            'quick_cmd': './check %s --tier quick' % pid,
            'thorough_cmd': './check %s --tier thorough' % pid,
            'evidence_file': '/verif/evidence/%s.json' % pid,
            'replay_cmd_template': './check %s --replay {path}' % pid,
            'engine': eng,
            'level_claimed': {'category': 'other', 'text': text, 'design_ref': ref},
            'level_note': note,
            'technique': tech,
        })
    na = []
    for p in props:
        if p['id'] in CLAIMED: continue
        na.append({'property_id': p['id'], 'reason': na_file.get(p['id'], PENDING_REASON)})
    man = {
        'version': 1,
        'setup_cmd': './setup.sh',
        'hooks': {
            'guard': 'cfg(any(kani, varpulis_verif))',
            'enable': 'cargo kani sets cfg(kani) itself; native replay builds pass RUSTFLAGS="--cfg varpulis_verif"; engine M needs no hooks (private functions are in the MIR dump)',
            'baseline_off_cmd': BASELINE,
            'source_commits': json.load(open(os.path.join(ROOT, 'tools', 'hook_commits.json'))),
            'add_only': True,
        },
        'engines': [
            {'name': 'M', 'path': '/verif/vlib', 'serves_properties': sorted(k for k, v in CLAIMED.items() if 'M' in v[0]),
             'kind_free_text': 'mirsym: symbolic execution of rustc MIR (regenerated from /repo on every run) into Z3 with contracts for recursion and models for containers'},
            {'name': 'K', 'path': '/verif/kani', 'serves_properties': sorted(k for k, v in CLAIMED.items() if 'K' in v[0]),
             'kind_free_text': 'Kani 0.68 proof harness crates with path dependencies on /repo/crates/* (CBMC 6.11 + CaDiCaL), concrete playback for replay'},
        ],
        'checks': checks,
        'not_applicable': na,
        'notes': 'All checks are solver-based bounded checks of the real code; exit 2 = inconclusive (never on the unchanged tree). Genuine defects repaired by fix: commits in /repo are listed in known_findings.json as fixed entries.',
    }
    json.dump(man, open(os.path.join(ROOT, 'MANIFEST.json'), 'w'), indent=1)
    print('MANIFEST.json: %d checks, %d not_applicable' % (len(checks), len(na)))

if __name__ == '__main__':
    main()
