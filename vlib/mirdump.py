"""Regenerate the MIR text of a workspace crate from /repo's *current* working tree.

The dump is keyed by a hash of the crate's sources (and of the workspace crates it depends on),
so a second check in a row re-uses it, while any edit under /repo/crates/<crate> forces a new
`cargo +nightly rustc -- -Zunpretty=mir` run.  Build output lives in /verif/.cache (framework
build output, not a copy of the repository).
"""
import fcntl
import hashlib
import os
import re
import subprocess
import time

REPO = os.environ.get('VERIF_REPO', '/repo')
CACHE = os.environ.get('VERIF_CACHE', '/verif/.cache')
CRATES = {
    'zdd': 'varpulis-zdd', 'core': 'varpulis-core', 'runtime': 'varpulis-runtime', 'parser': 'varpulis-parser',
    'cluster': 'varpulis-cluster', 'cli': 'varpulis-cli', 'lsp': 'varpulis-lsp',
}


def crate_dir(short):
    return os.path.join(REPO, 'crates', CRATES[short])


def _ws_deps(short, seen=None):
    seen = seen if seen is not None else set()
    if short in seen: return seen
    seen.add(short)
    try:
        toml = open(os.path.join(crate_dir(short), 'Cargo.toml')).read()
    except OSError:
        return seen
    for s, full in CRATES.items():
        if s not in seen and re.search(r'^\s*%s\s*=' % re.escape(full), toml, re.M):
            _ws_deps(s, seen)
    return seen


def source_hash(short):
    h = hashlib.sha256()
    for s in sorted(_ws_deps(short)):
        d = crate_dir(s)
        for root, dirs, files in os.walk(d):
            dirs.sort()
            if 'target' in dirs: dirs.remove('target')
            for fn in sorted(files):
                if fn.endswith(('.rs', '.toml', '.pest')):
                    p = os.path.join(root, fn)
                    h.update(p.encode()); h.update(b'\0')
                    try:
                        h.update(open(p, 'rb').read())
                    except OSError:
                        pass
    for fn in ('Cargo.toml', 'Cargo.lock'):
        try:
            h.update(open(os.path.join(REPO, fn), 'rb').read())
        except OSError:
            pass
    return h.hexdigest()[:20]


class DumpError(Exception):
    pass


def dump(short, overflow_checks=True, features=None, log=None, printer='mir'):
    """returns (path_to_mir_text, info dict); printer: 'mir' (promoted constants, lossy closure aggregates) or 'stable-mir' (complete aggregates)"""
    os.makedirs(os.path.join(CACHE, 'mir'), exist_ok=True)
    sh = source_hash(short)
    prof = ('oc' if overflow_checks else 'nooc') + ('' if printer == 'mir' else '-smir')
    tag = '%s-%s-%s' % (short, prof, sh)
    out = os.path.join(CACHE, 'mir', tag + '.mir')
    info = {'crate': CRATES[short], 'source_hash': sh, 'overflow_checks': overflow_checks, 'cached': True, 'dump_s': 0.0}
    if os.path.exists(out) and os.path.getsize(out) > 0:
        return out, info
    lock = open(os.path.join(CACHE, 'mir', 'lock-%s-%s' % (short, prof)), 'w')
    fcntl.flock(lock, fcntl.LOCK_EX)
    try:
        if os.path.exists(out) and os.path.getsize(out) > 0:
            return out, info
        t0 = time.time()
        env = dict(os.environ)
        # one target dir per profile so the two profiles never evict each other's artefacts
        env['CARGO_TARGET_DIR'] = os.path.join(CACHE, 'mir-target')
        env['CARGO_NET_OFFLINE'] = 'true'
        env.pop('RUSTFLAGS', None)
        cmd = ['cargo', '+nightly', 'rustc', '--offline', '-p', CRATES[short], '--lib']
        if features is not None:
            cmd += ['--no-default-features'] + (['--features', features] if features else [])
        # the nonce cfg makes cargo re-run rustc although the sources' mtimes did not change
        cmd += ['--', '-Zunpretty=' + printer, '-C', 'debug-assertions=off', '-C', 'overflow-checks=%s' % ('on' if overflow_checks else 'off'),
                '--cfg', 'mirsym_nonce_%s_%d' % (sh, int(time.time() * 1000) % 100000000), '-A', 'unexpected_cfgs']
        p = subprocess.run(cmd, cwd=REPO, env=env, stdout=subprocess.PIPE, stderr=subprocess.PIPE)
        txt = p.stdout.decode('utf-8', 'replace')
        if p.returncode != 0 or 'fn ' not in txt:
            raise DumpError('MIR dump of %s failed (rc=%d): %s' % (short, p.returncode, p.stderr.decode('utf-8', 'replace')[-2000:]))
        tmp = out + '.tmp%d' % os.getpid()
        with open(tmp, 'w') as f:
            f.write(txt)
        os.replace(tmp, out)
        # drop older dumps of the same crate/profile
        for fn in os.listdir(os.path.join(CACHE, 'mir')):
            if re.match(r'%s-%s-[0-9a-f]+\.mir$' % (re.escape(short), re.escape(prof)), fn) and fn != os.path.basename(out):
                try: os.remove(os.path.join(CACHE, 'mir', fn))
                except OSError: pass
        info['cached'] = False; info['dump_s'] = round(time.time() - t0, 2)
        return out, info
    finally:
        fcntl.flock(lock, fcntl.LOCK_UN); lock.close()


def load(short, overflow_checks=True, features=None, closures=False):
    """closures=True additionally loads the stable-mir dump to recover the complete operand lists of closure aggregates"""
    from . import mir
    path, info = dump(short, overflow_checks, features)
    t0 = time.time()
    mod = mir.Module(short, open(path).read(), crate_dir(short))
    if closures:
        p2, i2 = dump(short, overflow_checks, features, printer='stable-mir')
        info['dump_s'] = round(info['dump_s'] + i2['dump_s'], 2)
        ops = {}
        for m in re.finditer(r'= \{closure@([^}]*)\}\((.*)\);$', open(p2).read(), re.M):
            ops[m.group(1)] = [x for x in mir.split_top(m.group(2))]
        mod.closure_ops = ops
    info['parse_s'] = round(time.time() - t0, 2)
    info['functions'] = len(mod.funcs)
    return mod, info
