"""Models of Vec / VecDeque / slices and of iterator pipelines (map/filter/enumerate/...) whose closures are executed from MIR.

A sequence is a ListModel: a python list of (symbolic) items with a CONCRETE length — harnesses enumerate the length, the
elements stay symbolic.  Iterator adaptors are recorded lazily in an Iter object; a consumer (next, collect, position, any,
all, count, sum, last, for_each ...) drives the items through the recorded stages with a continuation (symex.Inline.cont), so
closure bodies are the real MIR and symbolic closure results fork the path.
"""
import copy
import re

import z3
from z3 import BitVecVal, BoolVal, And, Or, Not, If, ULT, ULE, is_bool, is_bv

from .symex import Enum, Ptr, Opaque, Fork, Diverge, Inline, Unsupported, Closure, box, bv_of_bool, simp
from .models import some, none, option, D


class ListModel:
    def __init__(self, items=(), kind='Vec'):
        self.items = list(items)
        self.kind = kind

    def __repr__(self): return '%s%r' % (self.kind, self.items)
    def mir_len(self, ex): return BitVecVal(len(self.items), 64)

    def mir_index(self, ex, idx):
        i = simp(idx)
        if z3.is_bv_value(i):
            k = i.as_long()
            if k >= len(self.items): raise Unsupported('index %d out of the modelled length %d (bounds assertion should have cut this path)' % (k, len(self.items)))
            return self.items, k
        # symbolic index: read-only view through an if-then-else chain (scalars only)
        if not self.items: raise Unsupported('symbolic index into an empty list')
        if all(z3.is_expr(x) for x in self.items):
            v = self.items[-1]
            for k in reversed(range(len(self.items) - 1)):
                v = If(idx == k, self.items[k], v)
            return [v], 0
        # aggregates of one shape: a read-only if-then-else merge of the candidates (writes through it do not reach the list)
        v = self.items[-1]
        for k in reversed(range(len(self.items) - 1)):
            v = ite_merge(idx == k, self.items[k], v)
        return [v], 0

    def mir_cindex(self, ex, k, from_end):
        return self.items, (len(self.items) - k if from_end else k)

    def mir_field(self, ex, k, ty):
        # Vec { buf: RawVec, len } / slices seen through struct projections are not inspected
        return [Opaque('%s.%d' % (self.kind, k))], 0


def ite_merge(c, a, b):
    """if c then a else b, structurally, for values of one shape (scalars, pointers, tuples/structs, enums, identity tokens)"""
    if a is b: return a
    if z3.is_expr(a) and z3.is_expr(b): return If(c, a, b)
    if isinstance(a, Ptr) and isinstance(b, Ptr): return box(ite_merge(c, a.get(), b.get()))
    if isinstance(a, list) and isinstance(b, list) and len(a) == len(b): return [ite_merge(c, x, y) for x, y in zip(a, b)]
    if isinstance(a, Enum) and isinstance(b, Enum) and a.ty == b.ty:
        fields = {}
        for k in set(a.fields) | set(b.fields):
            fa, fb = a.fields.get(k), b.fields.get(k)
            fields[k] = fa if fb is None else (fb if fa is None else [ite_merge(c, x, y) for x, y in zip(fa, fb)])
        return Enum(a.ty, If(c, a.disc, b.disc), fields)
    if isinstance(a, Opaque) and isinstance(b, Opaque): return Opaque('ite(%s,%s)' % (a.tag, b.tag))
    if type(a) is type(b) and hasattr(a, 'tok'): return type(a)(If(c, a.tok, b.tok))
    raise Unsupported('if-then-else merge of %r and %r' % (a, b))


def as_list(ex, v):
    v = ex.deref(v)
    if isinstance(v, ListModel): return v
    raise Unsupported('expected a modelled sequence, got %r' % (v,))


class Iter:
    """iterator over items[pos:end] (by reference unless by_value) followed by lazy stages"""
    def __init__(self, src, pos=0, end=None, by_value=False, stages=None, rev=False, pairs=False):
        self.pairs = pairs          # map iterators: items are [key, value] entries and the iterator yields (&key, &value)
        self.src = src              # ListModel (shared with the container when iterating by reference)
        self.pos = pos
        self.end = len(src.items) if end is None else end
        self.by_value = by_value
        self.stages = list(stages or [])     # [(kind, payload)]
        self.rev = rev
        self.count = 0              # enumerate counter

    def remaining(self): return self.end - self.pos

    def take_item(self):
        if self.rev:
            self.end -= 1; k = self.end
        else:
            k = self.pos; self.pos += 1
        if self.pairs:
            e = self.src.items[k]
            return [Ptr(e, 0), Ptr(e, 1)]
        return self.src.items[k] if self.by_value else Ptr(self.src.items, k)

    def with_stage(self, kind, payload=None):
        it = Iter(self.src, self.pos, self.end, self.by_value, self.stages + [(kind, payload)], self.rev, self.pairs)
        return it


def closure_func(ex, clo):
    c = ex.deref(clo)
    if not isinstance(c, Closure):
        raise Unsupported('closure value expected, got %r' % (c,))
    idx = getattr(ex, '_closure_index', None)
    if idx is None:
        idx = {}
        for m in ex.modules:
            for f in m.funcs.values():
                if '{closure#' in f.name and f.params:
                    mm = re.search(r'\{closure@[^}]*\}', f.params[0][1])
                    if mm: idx.setdefault(_norm_clo(mm.group(0)), f)
        ex._closure_index = idx
    f = idx.get(_norm_clo(c.name))
    if f is None: raise Unsupported('closure body not found for %s' % c.name)
    return f, c


def _norm_clo(s):
    m = re.search(r'([^/@{]+\.rs:\d+:\d+: \d+:\d+)', s)
    return m.group(1) if m else s


def call_closure(ex, clo, args, cont=None, st=None):
    """Inline call of a closure value (or function item) with positional arguments"""
    from .symex import FnItem
    fi = ex.deref(clo)
    if isinstance(fi, FnItem):
        r = ex.call(st, None, fi.name, list(args))
        if isinstance(r, Inline): r.cont = cont
        return r
    f, c = closure_func(ex, clo)
    t0 = f.params[0][1].strip()
    cv = clo if isinstance(clo, Ptr) and (t0.startswith('&')) else (box(c) if t0.startswith('&') else c)
    return Inline(f, [cv] + list(args), cont=cont)


class Pipe:
    """continuation that drives an Iter's remaining items through its stages into a consumer"""
    def __init__(self, itp, mode, data=None):
        self.itp = itp            # Ptr to the slot holding the Iter (so that state copies stay consistent)
        self.mode = mode
        self.data = data          # consumer payload (closure for position/any/all/for_each/fold, accumulator ...)
        self.cur = None
        self.stage = 0
        self.out = []
        self.await_kind = None
        self.index = 0            # index of the current item for `position`
        self.acc = None

    def it(self):
        v = self.itp.get()
        if not isinstance(v, Iter): raise Unsupported('iterator expected')
        return v

    def _call(self, ex, st, clo, args):
        """call a closure / function item for the current item; a modelled callee answers at once, a MIR body answers through step()"""
        r = call_closure(ex, clo, args, cont=self, st=st)
        if isinstance(r, Inline): return r
        if isinstance(r, (Fork, Diverge)): raise Unsupported('forking model used as an iterator callback')
        return self.step(ex, st, r)

    # ---- driving
    def start_item(self, ex, st):
        it = self.it()
        if it.remaining() <= 0:
            return self.finish(ex, st)
        self.cur = it.take_item()
        self.stage = 0
        return self.advance(ex, st)

    def advance(self, ex, st):
        it = self.it()
        while self.stage < len(it.stages):
            kind, pay = it.stages[self.stage]
            if kind in ('cloned', 'copied'):
                v = ex.deref(self.cur)
                self.cur = copy.deepcopy(v) if isinstance(v, (list, Enum)) else v
                self.stage += 1; continue
            if kind == 'enumerate':
                self.cur = [BitVecVal(it.count, 64), self.cur]; it.count += 1
                self.stage += 1; continue
            if kind == 'map':
                self.await_kind = 'map'
                return self._call(ex, st, pay, [self.cur])
            if kind == 'filter':
                self.await_kind = 'filter'
                return self._call(ex, st, pay, [box(self.cur)])
            if kind == 'filter_map':
                self.await_kind = 'filter_map'
                return self._call(ex, st, pay, [self.cur])
            if kind == 'take_while':
                self.await_kind = 'take_while'
                return self._call(ex, st, pay, [box(self.cur)])
            raise Unsupported('iterator stage ' + kind)
        return self.consume(ex, st)

    def step(self, ex, st, rv):
        k = self.await_kind; self.await_kind = None
        if k == 'map':
            self.cur = rv; self.stage += 1
            return self.advance(ex, st)
        if k in ('filter', 'take_while'):
            return self.branch(ex, st, rv, lambda p, ex, st: p._keep(ex, st), (lambda p, ex, st: p.start_item(ex, st)) if k == 'filter' else (lambda p, ex, st: p.finish(ex, st)))
        if k == 'filter_map':
            if not isinstance(rv, Enum): raise Unsupported('filter_map closure result')
            def yes(p, ex, st, rv=rv):
                p.cur = rv.fields['Some'][0]; p.stage += 1; return p.advance(ex, st)
            return self.branch(ex, st, rv.disc == 1, yes, lambda p, ex, st: p.start_item(ex, st))
        if k == 'pred':      # consumer predicate (position / any / all / find)
            return self.consume_pred(ex, st, rv)
        if k == 'find_map':  # the first Some(..) the closure returns
            if not isinstance(rv, Enum): raise Unsupported('find_map closure result')
            return self.branch(ex, st, rv.disc == 1, lambda p, ex, st, rv=rv: some(rv.fields['Some'][0]), lambda p, ex, st: p.start_item(ex, st))
        if k == 'each':
            return self.start_item(ex, st)
        if k == 'fold':
            self.acc = rv
            return self.start_item(ex, st)
        if k == 'key':       # min_by_key / max_by_key: unsigned integer keys (usize, Instant as a time count); first minimum / last maximum wins
            key = rv
            while isinstance(key, Ptr): key = key.get()
            if not (z3.is_expr(key) and is_bv(key)): raise Unsupported('min_by_key with a key that is not an unsigned integer: %r' % (key,))
            if self.acc is None:
                self.acc = (key, self.cur); return self.start_item(ex, st)
            take = ULT(key, self.acc[0]) if self.mode == 'min_by_key' else Not(ULT(key, self.acc[0]))
            def yes(p, ex, st, key=key):
                p.acc = (key, p.cur); return p.start_item(ex, st)
            return self.branch(ex, st, take, yes, lambda p, ex, st: p.start_item(ex, st))
        if k == 'cmp':       # min_by / max_by comparator result (std: min_by keeps the first of equal minima, max_by the last of equal maxima)
            if not isinstance(rv, Enum): raise Unsupported('comparator result %r' % (rv,))
            d = rv.disc
            take = (d == BitVecVal(1, d.size())) if self.mode == 'min_by' else Not(d == BitVecVal(1, d.size()))
            def yes(p, ex, st):
                p.acc = p.cur; return p.start_item(ex, st)
            return self.branch(ex, st, take, yes, lambda p, ex, st: p.start_item(ex, st))
        raise Unsupported('pipeline step ' + str(k))

    def _keep(self, ex, st):
        self.stage += 1
        return self.advance(ex, st)

    def branch(self, ex, st, cond, yes, no):
        c = simp(cond) if z3.is_expr(cond) else cond
        if z3.is_true(c): return yes(self, ex, st)
        if z3.is_false(c): return no(self, ex, st)
        return Fork([(c, lambda ex, st, a: yes(a[0], ex, st)), (Not(c), lambda ex, st, a: no(a[0], ex, st))], args=[self])

    # ---- consumers
    def consume(self, ex, st):
        m = self.mode
        if m == 'next':
            return some(self.cur)
        if m in ('collect', 'partition_point'):
            self.out.append(self.cur); return self.start_item(ex, st)
        if m == 'count':
            self.out.append(1); return self.start_item(ex, st)
        if m == 'last':
            self.out = [self.cur]; return self.start_item(ex, st)
        if m in ('sum_f64', 'sum_int'):
            self.out.append(ex.deref(self.cur)); return self.start_item(ex, st)
        if m in ('position', 'any', 'all', 'find'):
            self.await_kind = 'pred'
            arg = self.cur if m != 'find' else box(self.cur)
            return self._call(ex, st, self.data, [arg])
        if m == 'find_map':
            self.await_kind = 'find_map'
            return self._call(ex, st, self.data, [self.cur])
        if m == 'for_each':
            self.await_kind = 'each'
            return self._call(ex, st, self.data, [self.cur])
        if m == 'fold':
            self.await_kind = 'fold'
            return self._call(ex, st, self.data, [self.acc, self.cur])
        if m in ('min_by', 'max_by'):
            if self.acc is None:
                self.acc = self.cur; return self.start_item(ex, st)
            self.await_kind = 'cmp'
            return self._call(ex, st, self.data, [box(self.acc), box(self.cur)])
        if m in ('min_by_key', 'max_by_key'):
            self.await_kind = 'key'
            return self._call(ex, st, self.data, [box(self.cur)])
        raise Unsupported('iterator consumer ' + m)

    def consume_pred(self, ex, st, b):
        m = self.mode
        if m == 'position':
            i = self.index; self.index += 1
            return self.branch(ex, st, b, lambda p, ex, st, i=i: some(BitVecVal(i, 64)), lambda p, ex, st: p.start_item(ex, st))
        if m == 'any':
            return self.branch(ex, st, b, lambda p, ex, st: BoolVal(True), lambda p, ex, st: p.start_item(ex, st))
        if m == 'all':
            return self.branch(ex, st, b, lambda p, ex, st: p.start_item(ex, st), lambda p, ex, st: BoolVal(False))
        if m == 'find':
            cur = self.cur
            return self.branch(ex, st, b, lambda p, ex, st: some(p.cur), lambda p, ex, st: p.start_item(ex, st))
        raise Unsupported(m)

    def finish(self, ex, st):
        m = self.mode
        if m in ('next', 'position', 'find', 'find_map'): return none()
        if m == 'collect': return ListModel(self.out, self.data or 'Vec')
        if m == 'partition_point':
            # std: index of the first element for which the predicate is false, PROVIDED the sequence is partitioned by it
            bs = list(self.out); n = len(bs); callee = self.data
            alts = []
            for i in range(n + 1):
                cond = And(*([bs[j] for j in range(i)] + ([Not(bs[i])] if i < n else [BoolVal(True)])))
                part = And(*[Not(bs[j]) for j in range(i + 1, n)]) if i + 1 < n else BoolVal(True)

                def mk(i, part):
                    def t(ex, st, a):
                        st.path.oblige('partition_point: the sequence is partitioned by the predicate (std leaves the result unspecified otherwise)', part, callee, 'spec')
                        st.path.assume(part)
                        return BitVecVal(i, 64)
                    return t
                alts.append((cond, mk(i, part)))
            return Fork(alts)
        if m == 'count': return BitVecVal(len(self.out), 64)
        if m == 'last': return some(self.out[0]) if self.out else none()
        if m == 'any': return BoolVal(False)
        if m == 'all': return BoolVal(True)
        if m == 'for_each': return []
        if m == 'fold': return self.acc
        if m in ('min_by', 'max_by'): return some(self.acc) if self.acc is not None else none()
        if m in ('min_by_key', 'max_by_key'): return some(self.acc[1]) if self.acc is not None else none()
        if m == 'sum_f64':
            s = z3.FPVal(0.0, z3.Float64())     # std: f64::sum folds from -0.0?  (0.0 + x keeps x's value for all x except -0.0 sign) — see note in models list
            s = z3.FPVal(-0.0, z3.Float64())
            for x in self.out: s = z3.fpAdd(z3.RNE(), s, x)
            return s
        if m == 'sum_int':
            if not self.out: return BitVecVal(0, 64)
            s = BitVecVal(0, self.out[0].size())
            for x in self.out: s = s + x
            return s
        raise Unsupported('finish ' + m)


def run_pipe(ex, st, itp, mode, data=None, acc=None):
    p = Pipe(itp, mode, data); p.acc = acc
    return p.start_item(ex, st)


def iter_slot(ex, v):
    """Ptr to a slot holding the Iter for a value that is either an Iter (by value) or a pointer to one"""
    if isinstance(v, Ptr): return v
    return box(v)


# --------------------------------------------------------------------------------------------- hooks
def h(pat):
    rx = re.compile(pat)
    def deco(fn):
        HOOKS.append((rx, fn)); return fn
    return deco


HOOKS = []
_SEQ = r'(?:Vec|VecDeque|std::vec::Vec|std::collections::VecDeque|alloc::vec::Vec)'


@h(r'^%s::<.*>::(new|with_capacity|with_capacity_in|new_in)$|^<%s<.*> as Default>::default$' % (_SEQ, _SEQ))
def seq_new(ex, st, callee, args):
    return ListModel([], 'VecDeque' if 'VecDeque' in callee else 'Vec')


@h(r'^%s::<.*>::(len|is_empty)$|^core::slice::<impl \[.*\]>::(len|is_empty)$' % _SEQ)
def seq_len(ex, st, callee, args):
    l = as_list(ex, args[0])
    return BoolVal(len(l.items) == 0) if callee.endswith('is_empty') else BitVecVal(len(l.items), 64)


@h(r'^%s::<.*>::(push|push_back)$' % _SEQ)
def seq_push(ex, st, callee, args):
    as_list(ex, args[0]).items.append(args[1]); return []


@h(r'^%s::<.*>::push_front$' % _SEQ)
def seq_push_front(ex, st, callee, args):
    as_list(ex, args[0]).items.insert(0, args[1]); return []


@h(r'^%s::<.*>::(pop|pop_back)$' % _SEQ)
def seq_pop(ex, st, callee, args):
    l = as_list(ex, args[0])
    return some(l.items.pop()) if l.items else none()


@h(r'^%s::<.*>::pop_front$' % _SEQ)
def seq_pop_front(ex, st, callee, args):
    l = as_list(ex, args[0])
    return some(l.items.pop(0)) if l.items else none()


@h(r'^%s::<.*>::clear$' % _SEQ)
def seq_clear(ex, st, callee, args):
    del as_list(ex, args[0]).items[:]; return []


@h(r'^%s::<.*>::(front|first)$|^core::slice::<impl \[.*\]>::first$' % _SEQ)
def seq_front(ex, st, callee, args):
    l = as_list(ex, args[0])
    return some(Ptr(l.items, 0)) if l.items else none()


@h(r'^%s::<.*>::(back|last)$|^core::slice::<impl \[.*\]>::last$' % _SEQ)
def seq_back(ex, st, callee, args):
    l = as_list(ex, args[0])
    return some(Ptr(l.items, len(l.items) - 1)) if l.items else none()


@h(r'^%s::<.*>::get$|^core::slice::<impl \[.*\]>::get::<usize>$' % _SEQ)
def seq_get(ex, st, callee, args):
    l = as_list(ex, args[0]); idx = args[1]
    n = len(l.items)
    alts = [(idx == k, (lambda k: lambda ex, st, a: some(Ptr(as_list(ex, a[0]).items, k)))(k)) for k in range(n)]
    alts.append((Not(ULT(idx, n)), lambda ex, st, a: none()))
    return Fork(alts)


@h(r'^<%s<.*> as (?:std::ops::)?(?:Deref|DerefMut)>::(deref|deref_mut)$|^%s::<.*>::(as_slice|as_mut_slice)$' % (_SEQ, _SEQ))
def seq_deref(ex, st, callee, args):
    l = as_list(ex, args[0])
    p = args[0] if isinstance(args[0], Ptr) else box(l)
    return Ptr(p.c, p.k, meta=BitVecVal(len(l.items), 64))


@h(r'^<%s<.*> as (?:std::ops::)?(?:Index|IndexMut)<usize>>::(index|index_mut)$' % _SEQ)
def seq_index(ex, st, callee, args):
    l = as_list(ex, args[0]); idx = args[1]
    okc = ULT(idx, len(l.items))
    st.path.oblige('no panic: index out of bounds', okc, callee); st.path.assume(okc)
    i = simp(idx)
    if z3.is_bv_value(i): return Ptr(l.items, i.as_long())
    return Fork([(idx == k, (lambda k: lambda ex, st, a: Ptr(as_list(ex, a[0]).items, k))(k)) for k in range(len(l.items))])


@h(r'^%s::<.*>::(iter|iter_mut)$|^core::slice::<impl \[.*\]>::(iter|iter_mut)$|^<&(?:mut )?(?:%s<.*>|\[.*\]) as IntoIterator>::into_iter$' % (_SEQ, _SEQ))
def seq_iter(ex, st, callee, args):
    return Iter(as_list(ex, args[0]))


@h(r'^<%s<.*> as IntoIterator>::into_iter$' % _SEQ)
def seq_into_iter(ex, st, callee, args):
    l = as_list(ex, args[0])
    return Iter(ListModel(l.items, l.kind), by_value=True)


@h(r'^%s::<.*>::drain::<.*>$' % _SEQ)
def seq_drain(ex, st, callee, args):
    l = as_list(ex, args[0]); rng = args[1]
    n = len(l.items)
    lo, hi = (rng[0], rng[1]) if isinstance(rng, list) and len(rng) == 2 else (None, None)
    if lo is None and isinstance(rng, list) and len(rng) == 1 and 'RangeTo<' in callee: lo, hi = BitVecVal(0, 64), rng[0]
    if lo is None and isinstance(rng, list) and len(rng) == 1 and 'RangeFrom<' in callee: lo, hi = rng[0], BitVecVal(n, 64)
    if lo is None and 'RangeFull' in callee: lo, hi = BitVecVal(0, 64), BitVecVal(n, 64)       # drain(..): everything
    if lo is None: raise Unsupported('drain range %r' % (rng,))
    okc = And(ULE(lo, hi), ULE(hi, n))
    st.path.oblige('no panic: drain range within the sequence', okc, callee); st.path.assume(okc)
    alts = []
    for a_ in range(n + 1):
        for b_ in range(a_, n + 1):
            def mk(a_, b_):
                def t(ex, st, a):
                    ll = as_list(ex, a[0])
                    taken = ll.items[a_:b_]; del ll.items[a_:b_]
                    return Iter(ListModel(taken, ll.kind), by_value=True)
                return t
            alts.append((And(lo == a_, hi == b_), mk(a_, b_)))
    return Fork(alts)


@h(r'^<(?:\[.*\]|%s<.*>) as (?:std::ops::)?Index<(?:std::ops::)?Range(?:From|To)?<usize>>>::index$' % _SEQ)
def seq_index_range(ex, st, callee, args):
    """&s[a..], &s[..b], &s[a..b] on a sequence of concrete length: a read-only sub-slice (forks on symbolic bounds; std's range panic is an obligation)"""
    l = as_list(ex, args[0]); rng = args[1]; n = len(l.items)
    if isinstance(rng, list) and len(rng) == 2: lo, hi = rng[0], rng[1]
    elif isinstance(rng, list) and len(rng) == 1 and 'RangeFrom<' in callee: lo, hi = rng[0], BitVecVal(n, 64)
    elif isinstance(rng, list) and len(rng) == 1 and 'RangeTo<' in callee: lo, hi = BitVecVal(0, 64), rng[0]
    else: raise Unsupported('index range %r' % (rng,))
    okc = And(ULE(lo, hi), ULE(hi, n))
    st.path.oblige('no panic: slice range within the sequence', okc, callee); st.path.assume(okc)
    alts = []
    for a_ in range(n + 1):
        for b_ in range(a_, n + 1):
            alts.append((And(lo == a_, hi == b_), (lambda a_, b_: lambda ex, st, a: box(ListModel(as_list(ex, a[0]).items[a_:b_], as_list(ex, a[0]).kind)))(a_, b_)))
    return Fork(alts)


@h(r'^%s::<.*>::truncate$' % _SEQ)
def seq_truncate(ex, st, callee, args):
    l = as_list(ex, args[0]); n = len(l.items); k = args[1]
    alts = [(k == j, (lambda j: lambda ex, st, a: (as_list(ex, a[0]).items.__delitem__(slice(j, None)), [])[1])(j)) for j in range(n)]
    alts.append((Not(ULT(k, n)), lambda ex, st, a: []))
    return Fork(alts)


@h(r'^<.* as Iterator>::(map|filter|filter_map|take_while)::<.*>$')
def it_stage(ex, st, callee, args):
    it = ex.deref(args[0])
    if not isinstance(it, Iter): return NotImplemented
    kind = re.search(r'as Iterator>::(\w+)::', callee).group(1)
    return it.with_stage(kind, args[1])


@h(r'^<.* as Iterator>::(cloned|copied|enumerate)(?:::<.*>)?$')
def it_stage0(ex, st, callee, args):
    it = ex.deref(args[0])
    if not isinstance(it, Iter): return NotImplemented
    return it.with_stage(re.search(r'as Iterator>::(\w+)', callee).group(1))


@h(r'^<.* as IntoIterator>::into_iter$')
def it_identity(ex, st, callee, args):
    """an iterator is its own IntoIterator"""
    if isinstance(args[0], Iter): return args[0]
    return NotImplemented


@h(r'^<.* as Iterator>::rev$')
def it_rev(ex, st, callee, args):
    it = ex.deref(args[0])
    if not isinstance(it, Iter): return NotImplemented
    if it.stages: raise Unsupported('rev after adaptor stages')
    return Iter(it.src, it.pos, it.end, it.by_value, [], not it.rev)


@h(r'^<.* as Iterator>::next$|^<.* as DoubleEndedIterator>::next_back$')
def it_next(ex, st, callee, args):
    p = args[0]
    it = ex.deref(p)
    if not isinstance(it, Iter): return NotImplemented
    if callee.endswith('next_back'):
        if it.stages: raise Unsupported('next_back with stages')
        it2 = Iter(it.src, it.pos, it.end, it.by_value, [], not it.rev)
        if it2.remaining() <= 0: return none()
        v = it2.take_item(); it.pos, it.end = it2.pos, it2.end
        return some(v)
    return run_pipe(ex, st, iter_slot(ex, p), 'next')


@h(r'^<.* as Iterator>::nth$')
def it_nth(ex, st, callee, args):
    """Iterator::nth on a stage-free iterator: item n of the remaining ones (fork over n), consuming n + 1 items"""
    p = args[0]
    it = ex.deref(p)
    if not isinstance(it, Iter) or it.stages or it.rev: return NotImplemented
    n = args[1]; rem = it.remaining()
    slot = iter_slot(ex, p)
    def hit(k):
        def t(ex, st, a):
            it2 = a[0].get()
            it2.pos += k
            return some(it2.take_item())
        return t
    def miss(ex, st, a):
        it2 = a[0].get(); it2.pos = it2.end
        return none()
    alts = []
    for k in range(rem):
        c = z3.simplify(n == k)
        if z3.is_false(c): continue
        alts.append((c, hit(k)))
    c = z3.simplify(Not(ULT(n, rem)))
    if not z3.is_false(c): alts.append((c, miss))
    return Fork(alts, args=[slot])


@h(r'^<.* as Iterator>::collect::<(.*)>$')
def it_collect(ex, st, callee, args):
    it = ex.deref(args[0])
    if not isinstance(it, Iter): return NotImplemented
    kind = 'VecDeque' if 'VecDeque' in callee.rsplit('collect::<', 1)[1] else 'Vec'
    return run_pipe(ex, st, box(it), 'collect', kind)


@h(r'^<.* as Iterator>::(count|last)$')
def it_count(ex, st, callee, args):
    it = ex.deref(args[0])
    if not isinstance(it, Iter): return NotImplemented
    return run_pipe(ex, st, box(it), callee.rsplit('::', 1)[1])


@h(r'^<.* as Iterator>::(position|any|all|find|find_map|for_each)::<.*>$')
def it_pred(ex, st, callee, args):
    p = args[0]
    it = ex.deref(p)
    if not isinstance(it, Iter): return NotImplemented
    mode = re.search(r'as Iterator>::(\w+)::', callee).group(1)
    return run_pipe(ex, st, iter_slot(ex, p), mode, args[1])


@h(r'^<.* as Iterator>::(min_by|max_by|min_by_key|max_by_key)::<.*>$')
def it_min_by(ex, st, callee, args):
    it = ex.deref(args[0])
    if not isinstance(it, Iter): return NotImplemented
    mode = re.search(r'as Iterator>::(min_by_key|max_by_key|min_by|max_by)::', callee).group(1)
    return run_pipe(ex, st, box(it), mode, args[1])


@h(r'^<(?:std::ops::|core::ops::)?Range<(?:usize|u64|u32|i64|i32)> as IntoIterator>::into_iter$')
def range_into_iter(ex, st, callee, args):
    return args[0]


@h(r'^<(?:std::ops::|core::ops::)?Range<(usize|u64|u32|i64|i32)> as Iterator>::next$')
def range_next(ex, st, callee, args):
    """Range::next: Some(start) and start += 1 while start < end"""
    p = args[0]
    r = p.get() if isinstance(p, Ptr) else p
    if not (isinstance(r, list) and len(r) == 2): return NotImplemented
    signed = callee.split('Range<', 1)[1][0] == 'i'
    lt = (r[0] < r[1]) if signed else ULT(r[0], r[1])
    def more(ex, st, a):
        rr = a[0].get() if isinstance(a[0], Ptr) else a[0]
        v = rr[0]; rr[0] = simp(v + 1)
        return some(v)
    c = simp(lt)
    if z3.is_true(c): return more(ex, st, args)
    if z3.is_false(c): return none()
    return Fork([(lt, more), (Not(lt), lambda ex, st, a: none())])


class Retain:
    """continuation for Vec::retain: the predicate closure runs on each element in order (from MIR), symbolic verdicts fork; kept elements stay in order"""
    def __init__(self, lptr, clo):
        self.lptr, self.clo, self.i, self.keep = lptr, clo, 0, []

    def next(self, ex, st):
        l = as_list(ex, self.lptr)
        if self.i >= len(l.items):
            l.items[:] = [l.items[k] for k in self.keep]
            return []
        r = call_closure(ex, self.clo, [Ptr(l.items, self.i)], cont=self, st=st)
        if isinstance(r, Inline): return r
        if isinstance(r, (Fork, Diverge)): raise Unsupported('forking model used as a retain predicate')
        return self.step(ex, st, r)

    def step(self, ex, st, rv):
        c = simp(rv) if z3.is_expr(rv) else rv
        i = self.i
        def yes(p, ex, st):
            p.keep.append(i); p.i += 1; return p.next(ex, st)
        def no(p, ex, st):
            p.i += 1; return p.next(ex, st)
        if z3.is_true(c): return yes(self, ex, st)
        if z3.is_false(c): return no(self, ex, st)
        return Fork([(c, lambda ex, st, a: yes(a[0], ex, st)), (Not(c), lambda ex, st, a: no(a[0], ex, st))], args=[self])


@h(r'^%s::<.*>::retain::<.*>$' % _SEQ)
def seq_retain(ex, st, callee, args):
    as_list(ex, args[0])
    return Retain(args[0], args[1]).next(ex, st)


@h(r'^%s::<.*>::swap_remove$' % _SEQ)
def seq_swap_remove(ex, st, callee, args):
    """Vec::swap_remove(i): panics when i >= len; the last element takes the removed one's place"""
    l = as_list(ex, args[0]); n = len(l.items); i = args[1]
    okc = ULT(i, n)
    st.path.oblige('no panic: swap_remove index within the vector', okc, callee); st.path.assume(okc)
    def mk(k):
        def t(ex, st, a):
            ll = as_list(ex, a[0]); v = ll.items[k]; ll.items[k] = ll.items[-1]; ll.items.pop()
            return v
        return t
    alts = []
    for k in range(n):
        c = simp(i == k)
        if z3.is_false(c): continue
        alts.append((c, mk(k)))
    if not alts: raise Unsupported('swap_remove on an empty vector (panics)')
    if len(alts) == 1 and z3.is_true(alts[0][0]): return alts[0][1](ex, st, args)
    return Fork(alts)


@h(r'^<.* as Iterator>::fold::<.*>$')
def it_fold(ex, st, callee, args):
    it = ex.deref(args[0])
    if not isinstance(it, Iter): return NotImplemented
    return run_pipe(ex, st, box(it), 'fold', args[2], acc=args[1])


@h(r'^<.* as Iterator>::sum::<(f64|i64|u64|usize)>$')
def it_sum(ex, st, callee, args):
    it = ex.deref(args[0])
    if not isinstance(it, Iter): return NotImplemented
    return run_pipe(ex, st, box(it), 'sum_f64' if callee.endswith('<f64>') else 'sum_int')


@h(r'^<.* as (?:ExactSizeIterator|Iterator)>::(len|size_hint)$')
def it_len(ex, st, callee, args):
    it = ex.deref(args[0])
    if not isinstance(it, Iter): return NotImplemented
    if it.stages: raise Unsupported('len of adapted iterator')
    return BitVecVal(it.remaining(), 64)


@h(r'^core::bool::<impl bool>::then::<.*>$')
def bool_then(ex, st, callee, args):
    """bool::then(closure): Some(closure()) when true"""
    cond, clo = args

    class Wrap:
        def step(self, ex, st, rv): return some(rv)
    def yes(ex, st, a):
        return call_closure(ex, a[1], [], cont=Wrap())
    c = simp(cond)
    if z3.is_true(c): return yes(ex, st, args)
    if z3.is_false(c): return none()
    return Fork([(Not(cond), lambda ex, st, a: none()), (cond, yes)])


@h(r'^<.* as (?:std::ops::)?(?:FnOnce|FnMut|Fn)<.*>>::(call_once|call_mut|call)$')
def fn_call(ex, st, callee, args):
    clo = args[0]
    if not isinstance(ex.deref(clo), Closure): return NotImplemented
    a = args[1] if isinstance(args[1], list) else [args[1]]
    return call_closure(ex, clo, a)


class OptCont:
    """continuation for Option combinators that call a closure on the payload"""
    def __init__(self, kind): self.kind = kind

    def step(self, ex, st, rv):
        k = self.kind
        if k in ('is_some_and', 'and_then', 'unwrap_or_else', 'map_or', 'map_or_else', 'is_none_or', 'or_else'): return rv
        if k == 'map': return some(rv)
        if k == 'ok_or_else': return Enum('Result', BitVecVal(1, 64), {'Ok': [Opaque('ok')], 'Err': [rv]})
        raise Unsupported('Option::' + k)


@h(r'^(?:std::option::|core::option::)?Option::<.*>::(is_some_and|is_none_or|map|and_then|unwrap_or_else|or_else|map_or|filter|ok_or_else)::<.*>$')
def opt_comb(ex, st, callee, args):
    """Option::{is_some_and, is_none_or, map, and_then, unwrap_or_else, map_or, filter}: the closure body is executed from MIR"""
    kind = re.search(r'>::(\w+)::<', callee).group(1)
    o = args[0]
    if not isinstance(o, Enum): raise Unsupported('Option combinator on %r' % (o,))
    is_some = o.disc == 1

    def on_some(ex, st, a):
        oo = a[0]; pay = oo.fields['Some'][0]
        if kind in ('is_some_and', 'is_none_or', 'map', 'and_then'): return call_closure(ex, a[1], [pay], cont=OptCont(kind), st=st)
        if kind == 'unwrap_or_else': return pay
        if kind == 'or_else': return oo
        if kind == 'ok_or_else': return Enum('Result', BitVecVal(0, 64), {'Ok': [pay], 'Err': [Opaque('err')]})
        if kind == 'map_or': return call_closure(ex, a[2], [pay], cont=OptCont(kind), st=st)
        if kind == 'filter':
            class F:
                def step(self_, ex, st, rv): return Enum('Option', bv_of_bool(rv), {'Some': [pay], 'None': []})
            return call_closure(ex, a[1], [box(pay)], cont=F(), st=st)
        raise Unsupported(kind)

    def on_none(ex, st, a):
        if kind == 'is_some_and': return BoolVal(False)
        if kind == 'is_none_or': return BoolVal(True)
        if kind in ('map', 'and_then', 'filter'): return none()
        if kind in ('unwrap_or_else', 'ok_or_else', 'or_else'): return call_closure(ex, a[1], [], cont=OptCont(kind), st=st)
        if kind == 'map_or': return a[1]
        raise Unsupported(kind)
    c = simp(is_some)
    if z3.is_true(c): return _now(ex, st, on_some(ex, st, args))
    if z3.is_false(c): return _now(ex, st, on_none(ex, st, args))
    return Fork([(is_some, on_some), (Not(is_some), on_none)])


def _now(ex, st, r):
    return r


@h(r'^(?:std::cmp::|core::cmp::)?Ordering::then_with::<.*>$')
def ordering_then_with(ex, st, callee, args):
    """Ordering::then_with: self unless Equal, else the closure's result (closure body executed from MIR)"""
    o = args[0]
    if not isinstance(o, Enum): raise Unsupported('then_with on %r' % (o,))
    eq = o.disc == BitVecVal(0, o.disc.size())
    class K:
        def step(self_, ex, st, rv): return rv
    def on_eq(ex, st, a): return call_closure(ex, a[1], [], cont=K(), st=st)
    def on_ne(ex, st, a): return a[0]
    c = simp(eq)
    if z3.is_true(c): return on_eq(ex, st, args)
    if z3.is_false(c): return on_ne(ex, st, args)
    return Fork([(eq, on_eq), (Not(eq), on_ne)])


@h(r'^%s::<.*>::partition_point::<.*>$|^core::slice::<impl \[.*\]>::partition_point::<.*>$' % _SEQ)
def seq_partition_point(ex, st, callee, args):
    """partition_point(pred) on a sequence that is partitioned by pred (std leaves the result unspecified otherwise: the
    partitioning is emitted as an obligation): index of the first element for which pred is false"""
    l = as_list(ex, args[0])
    it = Iter(l).with_stage('map', args[1])     # the predicate takes `&T`, which is what iteration by reference yields
    p = Pipe(box(it), 'partition_point', callee)
    return p.start_item(ex, st)


@h(r'^Box::<\[.*; \d+\]>::new_uninit$')
def box_new_uninit(ex, st, callee, args):
    """`vec![a, b, ..]` expansion, step 1: Box<MaybeUninit<[T; N]>> = { uninit: (), value: ManuallyDrop { MaybeDangling { [T; N] } } }"""
    return box([Opaque('uninit'), [[Opaque('uninit-array')]]])


@h(r'^(?:std|alloc)::boxed::box_assume_init_into_vec_unsafe::<.*>$')
def box_into_vec(ex, st, callee, args):
    """`vec![..]` expansion, step 2: the initialised array becomes the Vec"""
    b = ex.deref(args[0])
    arr = b[1][0][0]
    if not isinstance(arr, list): raise Unsupported('vec! array was not initialised')
    return ListModel(list(arr), 'Vec')


def container_hooks():
    return list(HOOKS)
