"""Engine K: run Kani proof harnesses of a crate under /verif/kani and collect per-harness verdicts.

One `cargo kani` invocation per crate (one codegen of /repo's current tree through the path dependencies),
harnesses verified in parallel with -j; every harness has a wall-clock cap; a timeout, an out-of-memory run, an
unwinding-assertion failure or a compile error is *inconclusive*, never a pass.
"""
import fcntl
import json
import os
import re
import subprocess
import time

ROOT = os.path.dirname(os.path.dirname(os.path.abspath(__file__)))
CACHE = os.environ.get('VERIF_CACHE', '/verif/.cache')


class HarnessResult:
    def __init__(self, name):
        self.name = name
        self.status = 'missing'       # success | failed | timeout | error | missing
        self.failed_checks = []       # [(description, location)]
        self.covers = (0, 0)          # satisfied, total
        self.time_s = 0.0
        self.unwind_failure = False
        self.raw = ''

    def as_dict(self):
        return {'harness': self.name, 'status': self.status, 'failed_checks': self.failed_checks, 'covers_satisfied': self.covers[0],
                'covers_total': self.covers[1], 'cbmc_s': round(self.time_s, 2), 'unwinding_failure': self.unwind_failure}


def _parse(log):
    """terse -j output: 'Thread N: Checking harness X...' then a block starting with 'Thread N: ' + VERIFICATION RESULT"""
    res = {}
    cur_of_thread = {}
    lines = log.split('\n')
    i = 0
    seq_cur = None
    while i < len(lines):
        ln = lines[i]
        m = re.match(r'(?:Thread (\d+): )?Checking harness (\S+?)\.\.\.$', ln)
        if m:
            t = m.group(1) or 'seq'
            cur_of_thread[t] = m.group(2)
            res.setdefault(m.group(2), HarnessResult(m.group(2)))
            seq_cur = m.group(2)
            i += 1; continue
        m = re.match(r'Thread (\d+): \s*$', ln)
        blk_thread = None
        if m and i + 1 < len(lines) and lines[i + 1].startswith('VERIFICATION RESULT'):
            blk_thread = m.group(1); i += 1; ln = lines[i]
        if ln.startswith('VERIFICATION RESULT') or ln.startswith('RESULTS:') or ln.startswith('SUMMARY:'):
            name = cur_of_thread.get(blk_thread) if blk_thread is not None else seq_cur
            j = i; blk = []
            while j < len(lines) and not lines[j].startswith('Verification Time'):
                blk.append(lines[j]); j += 1
                if j - i > 400: break
            if j < len(lines): blk.append(lines[j])
            txt = '\n'.join(blk)
            if name is not None:
                r = res.setdefault(name, HarnessResult(name))
                r.raw = txt[-3000:]
                if 'VERIFICATION:- SUCCESSFUL' in txt: r.status = 'success'
                elif 'VERIFICATION:- FAILED' in txt: r.status = 'failed'
                mm = re.search(r'\*\* (\d+) of (\d+) cover properties satisfied', txt)
                if mm: r.covers = (int(mm.group(1)), int(mm.group(2)))
                for fm in re.finditer(r'Failed Checks: (.*)\n File: (.*)', txt):
                    r.failed_checks.append((fm.group(1).strip().strip('"'), fm.group(2).strip()))
                if re.search(r'unwinding assertion', txt): r.unwind_failure = True
                mm = re.search(r'Verification Time: ([\d\.]+)s', txt)
                if mm: r.time_s = float(mm.group(1))
                if 'CBMC timed out' in txt or 'timed out' in txt.lower(): r.status = 'timeout'
                if 'Status: ERROR' in txt or 'out of memory' in txt.lower(): r.status = 'error'
            i = j + 1; continue
        m = re.match(r'(?:Thread (\d+): )?.*(timed out|Timeout).*', ln)
        if m and (m.group(1) in cur_of_thread):
            r = res.get(cur_of_thread[m.group(1)])
            if r is not None and r.status == 'missing': r.status = 'timeout'
        i += 1
    return res


def run(crate, harnesses, jobs=8, harness_timeout=300, total_timeout=3000, extra_args=None, mem_gb=40):
    """harnesses: list of exact harness names (module::fn).  returns ({name: HarnessResult}, info)"""
    d = os.path.join(ROOT, 'kani', crate)
    tgt = os.path.join(CACHE, 'kani-target', crate)
    os.makedirs(tgt, exist_ok=True)
    if not os.path.exists(os.path.join(d, 'Cargo.lock')) and os.path.exists('/repo/Cargo.lock'):
        import shutil; shutil.copy('/repo/Cargo.lock', os.path.join(d, 'Cargo.lock'))
    env = dict(os.environ); env['CARGO_NET_OFFLINE'] = 'true'; env.pop('RUSTFLAGS', None)
    cmd = ['cargo', 'kani', '--target-dir', tgt, '-Z', 'stubbing', '-Z', 'unstable-options', '--harness-timeout', '%ds' % harness_timeout,
           '-j', str(jobs), '--output-format', 'terse', '--exact']
    for h in harnesses: cmd += ['--harness', h]
    cmd += (extra_args or [])
    lock = open(os.path.join(tgt, '.verif-lock'), 'w')
    fcntl.flock(lock, fcntl.LOCK_EX)
    t0 = time.time()
    try:
        sh = 'ulimit -v %d; exec "$@"' % (mem_gb * 1024 * 1024)
        p = subprocess.run(['bash', '-c', sh, 'kani'] + cmd, cwd=d, env=env, stdout=subprocess.PIPE, stderr=subprocess.STDOUT, timeout=total_timeout)
        log = p.stdout.decode('utf-8', 'replace'); rc = p.returncode
    except subprocess.TimeoutExpired as e:
        log = (e.stdout or b'').decode('utf-8', 'replace') + '\n[verif] cargo kani exceeded the total timeout'; rc = -9
    finally:
        fcntl.flock(lock, fcntl.LOCK_UN); lock.close()
    res = _parse(log)
    info = {'crate': crate, 'rc': rc, 'wall_s': round(time.time() - t0, 1), 'compile_error': None}
    if re.search(r'^error(\[E\d+\])?:', log, re.M) and not res:
        errs = re.findall(r'^error.*(?:\n.*){0,6}', log, re.M)
        info['compile_error'] = '\n'.join(errs)[:3000]
    if 'internal compiler error' in log or 'Kani unexpectedly panicked' in log:
        info['compile_error'] = (info['compile_error'] or '') + '\nKani ICE: ' + '\n'.join(re.findall(r'.*(?:internal compiler error|unexpectedly panicked).*', log))[:1000]
    os.makedirs(os.path.join(CACHE, 'kani-logs'), exist_ok=True)
    with open(os.path.join(CACHE, 'kani-logs', '%s-%d.log' % (crate, int(t0))), 'w') as f:
        f.write(log)
    out = {}
    for h in harnesses:
        short = h.split('::')[-1]
        r = res.get(h) or next((v for k, v in res.items() if k.split('::')[-1] == short), None) or HarnessResult(h)
        out[h] = r
    return out, info


def playback(crate, harness, timeout=900):
    """concrete playback of a failing harness: returns (unit-test source text or None, raw log)"""
    d = os.path.join(ROOT, 'kani', crate)
    tgt = os.path.join(CACHE, 'kani-target', crate)
    env = dict(os.environ); env['CARGO_NET_OFFLINE'] = 'true'; env.pop('RUSTFLAGS', None)
    cmd = ['cargo', 'kani', '--target-dir', tgt, '-Z', 'stubbing', '-Z', 'unstable-options', '-Z', 'concrete-playback', '--concrete-playback=print',
           '--harness-timeout', '%ds' % timeout, '--exact', '--harness', harness]
    lock = open(os.path.join(tgt, '.verif-lock'), 'w')
    fcntl.flock(lock, fcntl.LOCK_EX)
    try:
        p = subprocess.run(cmd, cwd=d, env=env, stdout=subprocess.PIPE, stderr=subprocess.STDOUT, timeout=timeout + 600)
        log = p.stdout.decode('utf-8', 'replace')
    except subprocess.TimeoutExpired:
        return None, 'playback timed out'
    finally:
        fcntl.flock(lock, fcntl.LOCK_UN); lock.close()
    # one generated test per failing check AND per satisfied cover: take the first one that belongs to a failed assertion
    blocks = re.findall(r'```\n(.*?)```', log, re.S)
    pick = None
    for b in blocks:
        if re.search(r'Check for `(?!cover)', b):
            pick = b; break
    if pick is None and blocks: pick = blocks[0]
    return pick, log[-4000:]


def concrete_values(test_src):
    """extract the byte vectors of a generated playback test"""
    vals = []
    for m in re.finditer(r'//\s*(.*)\n\s*vec!\[([^\]]*)\]', test_src or ''):
        vals.append({'value': m.group(1).strip(), 'bytes': [int(x) for x in m.group(2).split(',') if x.strip()]})
    return vals
