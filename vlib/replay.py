"""Build the native replay helpers (small crates under /verif/replay with path dependencies on /repo)."""
import fcntl
import os
import subprocess

ROOT = os.path.dirname(os.path.dirname(os.path.abspath(__file__)))
CACHE = os.environ.get('VERIF_CACHE', '/verif/.cache')
_built = {}


def build(name, release=False, rustflags=None):
    """cargo-build /verif/replay/<name> against /repo's current tree; returns the binary path (or raises)"""
    key = (name, release, rustflags)
    if key in _built: return _built[key]
    d = os.path.join(ROOT, 'replay', name)
    tgt = os.path.join(CACHE, 'replay-target-' + name + ('-verif' if rustflags else ''))
    os.makedirs(tgt, exist_ok=True)
    env = dict(os.environ); env['CARGO_TARGET_DIR'] = tgt; env['CARGO_NET_OFFLINE'] = 'true'
    if rustflags: env['RUSTFLAGS'] = rustflags
    else: env.pop('RUSTFLAGS', None)
    lock = open(os.path.join(tgt, '.verif-lock'), 'w')
    fcntl.flock(lock, fcntl.LOCK_EX)
    try:
        if not os.path.exists(os.path.join(d, 'Cargo.lock')) and os.path.exists('/repo/Cargo.lock'):
            import shutil; shutil.copy('/repo/Cargo.lock', os.path.join(d, 'Cargo.lock'))
        cmd = ['cargo', 'build', '--offline', '-q'] + (['--release'] if release else [])
        p = subprocess.run(cmd, cwd=d, env=env, stdout=subprocess.PIPE, stderr=subprocess.STDOUT)
        if p.returncode != 0:
            raise RuntimeError('replay crate %s failed to build: %s' % (name, p.stdout.decode('utf-8', 'replace')[-1500:]))
    finally:
        fcntl.flock(lock, fcntl.LOCK_UN); lock.close()
    b = os.path.join(tgt, 'release' if release else 'debug', 'replay-' + name)
    _built[key] = b
    return b
