"""`/verif/check <ID> [--tier quick|thorough] [--replay file]` — runs the obligations registered for a property,
replays counterexamples natively, applies known_findings.json, writes evidence/<ID>.json.

exit 0  property held on everything explored (KNOWN-FINDING lines allowed)
exit 1  `VIOLATION property=<id> replay=<path>` — a counterexample that reproduces natively and is not listed
exit 2  inconclusive (timeout, solver unknown, unsupported construct on a feasible path, non-reproducing counterexample)
"""
import argparse
import importlib
import json
import os
import re
import subprocess
import sys
import time
import traceback

ROOT = os.path.dirname(os.path.dirname(os.path.abspath(__file__)))
sys.path.insert(0, ROOT)


class Finding:
    def __init__(self, key, text, replay_cmd=None, witness=None, profile=None):
        self.key = key              # role-based key: function / arm / input class
        self.text = text
        self.replay_cmd = replay_cmd  # argv list; exit 1 + 'REPRODUCED' on stdout = reproduces
        self.witness = witness
        self.reproduced = None
        self.replay_out = ''
        self.profile = profile


class Ctx:
    def __init__(self, pid, tier, seed):
        self.id, self.tier, self.seed = pid, tier, seed
        self.t0 = time.time()
        self.functions = []         # functions encoded (with crate + source hash)
        self.bounds = {}
        self.assumptions = []
        self.models = []
        self.obligations = []       # {name, target, status, solver_s, class}
        self.queries = 0
        self.solver_s = 0.0
        self.samples = []
        self.inconclusive = []
        self.findings = []
        self.engines = []
        self.notes = []
        self.extra = {}
        self.known = {k['key']: k for k in load_known() if k.get('property') == pid and k.get('status') == 'known'}

    def log(self, *a):
        print('[%s %6.1fs]' % (self.id, time.time() - self.t0), *a, file=sys.stderr, flush=True)

    def add_obligations(self, target, verdicts, cls=None):
        """verdicts: iterable of dicts {name, status, secs, where?, kind?}"""
        for v in verdicts:
            self.obligations.append({'target': target, 'name': v['name'], 'status': v['status'], 'solver_s': round(v.get('secs', 0.0), 3),
                                     'kind': v.get('kind', ''), 'class': cls or v.get('class', '')})


def load_known():
    p = os.path.join(ROOT, 'known_findings.json')
    try:
        return json.load(open(p)).get('findings', [])
    except (OSError, ValueError):
        return []


def slug(s):
    return re.sub(r'[^A-Za-z0-9_.-]+', '_', s)[:120]


def run_replay(f, timeout=900):
    if not f.replay_cmd:
        f.reproduced = None
        return
    try:
        p = subprocess.run(f.replay_cmd, stdout=subprocess.PIPE, stderr=subprocess.STDOUT, timeout=timeout, cwd=ROOT)
        out = p.stdout.decode('utf-8', 'replace')
        f.replay_out = out[-3000:]
        f.reproduced = ('REPRODUCED' in out)
        if not f.reproduced and 'NOT-REPRODUCED' not in out and not re.search(r'^OK\b', out, re.M):
            f.reproduced = None     # the replay itself broke (build error, …)
    except subprocess.TimeoutExpired:
        f.reproduced = None; f.replay_out = 'replay timed out'


def main(argv=None):
    ap = argparse.ArgumentParser()
    ap.add_argument('id')
    ap.add_argument('--tier', default=os.environ.get('VERIF_TIER', 'quick'))
    ap.add_argument('--replay')
    a = ap.parse_args(argv)
    pid = a.id.upper()
    tier = a.tier if a.tier in ('quick', 'thorough') else 'quick'
    try:
        seed = int(os.environ.get('VERIF_SEED', '0'))
    except ValueError:
        seed = 0

    if a.replay:
        spec = json.load(open(a.replay))
        p = subprocess.run(spec['cmd'], cwd=ROOT)
        sys.exit(p.returncode)

    mod = importlib.import_module('props.' + pid.lower())
    ctx = Ctx(pid, tier, seed)
    crashed = None
    try:
        mod.run(ctx)
    except Exception as e:                      # a crash of the machinery is never a pass
        crashed = '%s: %s' % (type(e).__name__, e)
        traceback.print_exc()
        ctx.inconclusive.append('checker crashed: ' + crashed)

    known = [k for k in load_known() if k.get('property') == pid]
    known_keys = {k['key']: k for k in known if k.get('status') == 'known'}
    violations = []
    known_hit = []
    os.makedirs(os.path.join(ROOT, 'replays', pid), exist_ok=True)
    # native replay first, then classification
    for f in ctx.findings:
        run_replay(f)
        if f.reproduced is False:
            ctx.inconclusive.append('counterexample did not reproduce natively (model or stub wrong?): %s' % f.key)
            continue
        if f.reproduced is None and f.replay_cmd:
            ctx.inconclusive.append('native replay could not be run for %s: %s' % (f.key, f.replay_out[-300:]))
            continue
        if f.key in known_keys:
            if not any(k.key == f.key for k in known_hit):
                print('KNOWN-FINDING: property=%s %s — %s' % (pid, f.key, known_keys[f.key].get('what', f.text)))
            known_hit.append(f)
        else:
            path = os.path.join(ROOT, 'replays', pid, slug(f.key) + '.json')
            json.dump({'property': pid, 'key': f.key, 'text': f.text, 'cmd': f.replay_cmd, 'witness': f.witness, 'replay_output': f.replay_out},
                      open(path, 'w'), indent=1, default=str)
            violations.append((f, path))

    proved = [o for o in ctx.obligations if o['status'] == 'proved']
    notproved = [o for o in ctx.obligations if o['status'] not in ('proved',)]
    unknown = [o for o in ctx.obligations if o['status'] in ('unknown', 'timeout', 'error')]
    for o in unknown:
        ctx.inconclusive.append('obligation not decided (%s): %s / %s' % (o['status'], o['target'], o['name']))
    # every violated obligation must be accounted for by a finding
    n_viol_obl = len([o for o in ctx.obligations if o['status'] == 'violated'])
    if n_viol_obl and not ctx.findings:
        ctx.inconclusive.append('%d violated obligation(s) without a replayable finding' % n_viol_obl)

    classes = sorted(set((o['target'], o['name'], o['class']) for o in proved))
    wall = round(time.time() - ctx.t0, 2)
    ev = {
        'property_id': pid, 'tier': tier, 'seed': seed, 'level': 'other',
        'coverage': {
            'explanation': 'Solver-based bounded checking of the real code: every obligation is a satisfiability query over an encoding '
                           'regenerated from /repo on this run (Kani/CBMC over the compiled crate, or engine M = symbolic execution of the rustc MIR into Z3). '
                           'A verdict is "no counterexample within the bounds listed under bounds"; nothing outside them is claimed.',
            'evaluations': int(ctx.queries),
            'distinct_nontrivial': len(classes),
            'rule': 'evaluations = solver queries issued (path feasibility + obligations + cover witnesses); distinct_nontrivial = distinct '
                    '(target function, obligation, input class) triples whose obligation was reachable (path condition satisfiable / cover witness SATISFIED) and proved',
            'obligations': len(ctx.obligations),
            'discharged': len(proved),
            'violated_obligations': n_viol_obl,
            'checker_cmd': './check %s --tier %s' % (pid, tier),
            'trusted_base': ['rustc nightly MIR dump / Kani 0.68 + CBMC 6.11 front ends', 'vlib/mir.py parser and vlib/symex.py executor', 'models listed under models_used', 'Z3 5.1.0 (python binding) / CaDiCaL via CBMC'],
            'engines': ctx.engines,
            'functions_encoded': ctx.functions,
            'bounds': ctx.bounds,
            'models_used': sorted(set(ctx.models)),
            'solver_s': round(ctx.solver_s, 2),
            'samples': ctx.samples[:40] if ctx.samples else [o for o in ctx.obligations[:10]],
            'obligation_list': ctx.obligations if len(ctx.obligations) <= 400 else ctx.obligations[:400],
            'known_findings_met': [{'key': f.key, 'text': f.text, 'witness': f.witness} for f in known_hit],
            'inconclusive': ctx.inconclusive,
            'notes': ctx.notes,
            'exhaustive': False,
        },
        'assumptions': ctx.assumptions,
        'wall_s': wall,
        'violations': len(violations),
    }
    ev['coverage'].update(ctx.extra)
    os.makedirs(os.path.join(ROOT, 'evidence'), exist_ok=True)
    tmp = os.path.join(ROOT, 'evidence', pid + '.json.tmp%d' % os.getpid())
    json.dump(ev, open(tmp, 'w'), indent=1, default=str)
    os.replace(tmp, os.path.join(ROOT, 'evidence', pid + '.json'))

    print('%s tier=%s: %d obligations, %d proved, %d violated (%d known), %d undecided; %d solver queries, %.1fs solver, %.1fs wall'
          % (pid, tier, len(ctx.obligations), len(proved), n_viol_obl, len(known_hit), len(unknown), ctx.queries, ctx.solver_s, wall))
    for f, path in violations:
        print('VIOLATION property=%s replay=%s' % (pid, path))
        print('  ' + f.text)
    if violations:
        sys.exit(1)
    if ctx.inconclusive:
        for r in ctx.inconclusive[:20]:
            print('INCONCLUSIVE: ' + r)
        sys.exit(2)
    sys.exit(0)


if __name__ == '__main__':
    main()
