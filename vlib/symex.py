"""Engine M: path-exploring symbolic executor for rustc MIR → Z3.

Values
  scalars   z3 BitVec (width from the MIR type), z3 Bool, z3 FP (f64/f32)
  tuples / structs / arrays   python list (mutable, fields in declaration order)
  enums     Enum(ty, disc: BitVec64, fields: {variant name or index: [payload]})
  refs      Ptr(container, key)   — a slot inside a python list/dict (frame locals, struct fields, payload lists)
  other     Opaque(tag) (never inspected), Closure(name, captures), model objects supplied by harnesses

Every `assert` terminator and every diverging call becomes a *panic obligation*; a call that is
neither inlined, nor modelled, nor cut by the harness raises Unsupported (→ inconclusive).
"""
import copy
import re
import time

import z3
from z3 import (BitVec, BitVecVal, BoolVal, And, Or, Not, If, ULT, ULE, UGT, UGE, LShR, UDiv, URem, SRem,
                is_bool, is_bv, is_fp, FPVal, Float64, Float32, RNE, RTZ, fpToFP, fpSignedToFP, fpUnsignedToFP,
                fpToSBV, fpToUBV, fpIsNaN, fpIsInf, fpLT, fpLEQ, fpGT, fpGEQ, fpEQ, fpNeg, fpAdd, fpSub, fpMul, fpDiv, fpRem,
                ZeroExt, SignExt, Extract, Concat, BVAddNoOverflow, BVAddNoUnderflow, BVSubNoOverflow, BVSubNoUnderflow,
                BVMulNoOverflow, BVMulNoUnderflow, sat, unsat, unknown)

from . import mir as M

F64 = Float64()
F32 = Float32()
_RNE = RNE()

INT_W = {'u8': 8, 'i8': 8, 'u16': 16, 'i16': 16, 'u32': 32, 'i32': 32, 'char': 32, 'u64': 64, 'i64': 64,
         'usize': 64, 'isize': 64, 'u128': 128, 'i128': 128}
SIGNED = {'i8', 'i16', 'i32', 'i64', 'isize', 'i128'}


class Unsupported(Exception):
    pass


class Inconclusive(Exception):
    pass


class Enum:
    def __init__(self, ty, disc, fields):
        self.ty, self.disc, self.fields = ty, disc, fields

    def __repr__(self):
        return 'Enum(%s,%s,%s)' % (self.ty, self.disc, list(self.fields))


class Ptr:
    __slots__ = ('c', 'k', 'meta')

    def __init__(self, c, k, meta=None):
        self.c, self.k, self.meta = c, k, meta

    def get(self):
        return self.c[self.k]

    def set(self, v):
        self.c[self.k] = v

    def __repr__(self):
        return 'Ptr(%s)' % (self.k,)


def box(v):
    """a pointer to a fresh cell holding v"""
    return Ptr([v], 0)


class Opaque:
    def __init__(self, tag):
        self.tag = tag

    def __repr__(self):
        return 'Opaque(%s)' % self.tag


class Closure:
    def __init__(self, name, caps):
        self.name, self.caps = name, caps


class FnItem:
    """a function item used as a value (e.g. `.map(Arc::clone)`)"""
    def __init__(self, name): self.name = name
    def __repr__(self): return 'FnItem(%s)' % self.name


class Inline:
    def __init__(self, func, args, post=None, cont=None):
        self.func, self.args, self.post = func, args, post     # post: name of a registered post-processor applied to the return value
        self.cont = cont        # continuation object with .step(ex, st, return_value) -> call result (value | Inline | Fork | Diverge)


class Fork:
    """alts: [(cond, thunk)], thunk(ex, st, args) -> value written to the call's destination (or an Inline / Diverge / Fork).
    `args` (optional) replaces the call's argument list as the object graph that is copied together with the state and handed to the thunks."""
    def __init__(self, alts, args=None):
        self.alts = alts
        self.args = args


class Diverge:
    def __init__(self, why):
        self.why = why


class Obl:
    def __init__(self, name, cond, pclen, where, kind='panic'):
        self.name, self.cond, self.pclen, self.where, self.kind = name, cond, pclen, where, kind


_FID = [0]


class Frame:
    def __init__(self, fn, ret=None):
        _FID[0] += 1
        self.fid = _FID[0]
        self.fn = fn
        self.locals = {}
        self.ret = ret          # (lhs place, next bb) in the caller
        self.bb = 'bb0'
        self.post = None
        self.cont = None

    def __deepcopy__(self, memo):
        f = Frame(self.fn, self.ret)
        memo[id(self)] = f
        f.fid = self.fid
        f.post = self.post
        f.cont = copy.deepcopy(self.cont, memo)
        f.bb = self.bb
        f.locals = copy.deepcopy(self.locals, memo)
        return f


class Path:
    def __init__(self):
        self.pc = []
        self.obl = []
        self.trace = []
        self.steps = 0
        self.visits = {}
        self.notes = []

    def assume(self, c):
        self.pc.append(c)

    def oblige(self, name, cond, where='', kind='panic'):
        self.obl.append(Obl(name, cond, len(self.pc), where, kind))


class State:
    def __init__(self, roots=None):
        self.frames = []
        self.path = Path()
        self.roots = roots if roots is not None else {}


class Result:
    def __init__(self, st, ret, status):
        self.st, self.ret, self.status = st, ret, status   # status: 'return' | 'panic' | 'unreachable'

    @property
    def path(self):
        return self.st.path


def base_ty(t):
    t = t.strip()
    while True:
        if t.startswith('&'):
            t = t[1:].strip()
            t = re.sub(r"^'\w+\s+", '', t)
            if t.startswith('mut '): t = t[4:].strip()
        elif t.startswith('*const '): t = t[7:].strip()
        elif t.startswith('*mut '): t = t[5:].strip()
        else: break
    return t


def ty_last(t):
    """last path segment of a type, generics removed: std::option::Option<u32> -> Option"""
    t = base_ty(t)
    d = 0; out = []
    for k, c in enumerate(t):
        if c == '<': d += 1
        elif c == '>' and t[k - 1] not in '-=': d -= 1
        elif d == 0: out.append(c)
    return ''.join(out).rstrip(':').split('::')[-1].strip()


def int_info(t):
    t = base_ty(t)
    if t in INT_W: return INT_W[t], t in SIGNED
    return None


def bv_of_bool(b, w=64):
    return If(b, BitVecVal(1, w), BitVecVal(0, w))


def simp(e):
    return z3.simplify(e)


class Exec:
    def __init__(self, modules, hooks, variants=None, overflow_checks=True, loop_bound=8, step_budget=20000, timeout_ms=60000):
        self.modules = modules if isinstance(modules, list) else [modules]
        self.hooks = list(hooks)
        self.variants = variants or {}
        self.variants.setdefault('Option', ['None', 'Some'])
        self.variants.setdefault('Result', ['Ok', 'Err'])
        self.variants.setdefault('ControlFlow', ['Continue', 'Break'])
        self.variants.setdefault('Ordering', ['Less', 'Equal', 'Greater'])
        self.overflow_checks = overflow_checks
        self.loop_bound = loop_bound
        self.step_budget = step_budget
        self.solver = z3.Solver()
        self.solver.set('timeout', timeout_ms)
        self.queries = 0
        self.solver_s = 0.0
        self.fresh_n = 0
        self.visited_funcs = set()
        self.results = []
        self.inconclusive = []          # reasons collected on feasible paths
        self.paths_cut = 0
        self.undecided_paths = 0
        self.feas_timeout_ms = 10000
        self.div_lemma = False          # opt-in: 64-bit Div / Rem by a constant as fresh (q, r) with the defining facts (see binop)
        self._pending_assumes = []

    # ------------------------------------------------------------ solver helpers
    def check(self, conds):
        self.queries += 1
        t0 = time.time()
        self.solver.push()
        self.solver.add(*conds)
        self.solver.set('timeout', self.feas_timeout_ms)
        r = self.solver.check()
        self.solver.pop()
        self.solver_s += time.time() - t0
        return r

    def feasible(self, pc):
        r = self.check(pc)
        if r == unknown:
            # sound: an undecided path is explored as if feasible (an obligation on an infeasible path can never come back violated,
            # because its query contains the path condition); only the vacuity accounting is weaker, so it is recorded
            self.undecided_paths += 1
            return True
        return r == sat

    def fresh(self, tag, sort_or_w):
        self.fresh_n += 1
        n = '%s!%d' % (tag, self.fresh_n)
        if isinstance(sort_or_w, int): return BitVec(n, sort_or_w)
        if sort_or_w == 'bool': return z3.Bool(n)
        if sort_or_w == 'f64': return z3.FP(n, F64)
        return z3.Const(n, sort_or_w)

    # ------------------------------------------------------------ name lookup
    def find_func(self, callee):
        for m in self.modules:
            r = m.find(callee)
            if len(r) == 1: return r[0]
            if len(r) > 1: return r
        return None

    def find_const(self, name):
        for m in self.modules:
            f = m.find_const(name)
            if f is not None: return f
        return None

    def vdisc(self, ty, var):
        """discriminant value of a variant (declaration index unless the enum has explicit discriminants)"""
        d = M.EXPLICIT_DISCR.get(ty)
        if d is not None and var in d: return BitVecVal(d[var], 64)
        return BitVecVal(self.variants[ty].index(var), 64)

    def variant_index(self, ty, var):
        if isinstance(var, int): return var
        vs = self.variants.get(ty)
        if vs is None or var not in vs:
            raise Unsupported('unknown variant %s::%s' % (ty, var))
        return vs.index(var)

    # ------------------------------------------------------------ places
    def slot(self, fr, pl):
        """(container, key) for a place"""
        k = pl[0]
        if k == 'local':
            return fr.locals, pl[1]
        if k == 'deref':
            p = self.read(fr, pl[1])
            if isinstance(p, Ptr): return p.c, p.k
            if hasattr(p, 'mir_deref'): return p.mir_deref(self)
            raise Unsupported('deref of %r in %s' % (p, fr.fn.name))
        if k == 'field':
            c, key = self.slot(fr, pl[1])
            b = c[key] if not (isinstance(c, dict) and key not in c) else None
            if b is None: raise Unsupported('field of uninit %s in %s' % (pl, fr.fn.name))
            if isinstance(b, _Variant): return b.payload, pl[2]
            if isinstance(b, list):
                if pl[2] >= len(b): raise Unsupported('field %d of %d-tuple in %s' % (pl[2], len(b), fr.fn.name))
                return b, pl[2]
            if isinstance(b, Closure): return b.caps, pl[2]
            if hasattr(b, 'mir_field'): return b.mir_field(self, pl[2], pl[3])
            if isinstance(b, Ptr) and pl[2] == 0: return c, key       # Box/Unique/NonNull wrappers are transparent
            if isinstance(b, Opaque):
                cell = [Opaque('%s.%d' % (b.tag, pl[2]))]; return cell, 0
            raise Unsupported('field of %r in %s' % (b, fr.fn.name))
        if k == 'downcast':
            c, key = self.slot(fr, pl[1])
            b = c[key]
            if isinstance(b, Enum):
                var = pl[2]
                if var not in b.fields:
                    if isinstance(var, int) and b.ty in self.variants and self.variants[b.ty][var] in b.fields:
                        var = self.variants[b.ty][var]
                    else:
                        raise Unsupported('downcast %s of %r' % (pl[2], b))
                return [_Variant(b.fields[var])], 0
            if hasattr(b, 'mir_downcast'): return [_Variant(b.mir_downcast(self, pl[2]))], 0
            raise Unsupported('downcast of %r in %s' % (b, fr.fn.name))
        if k == 'index':
            c, key = self.slot(fr, pl[1])
            b = c[key]
            idx = self.read(fr, ('local', pl[2]))
            if hasattr(b, 'mir_index'): return b.mir_index(self, idx)
            if isinstance(b, list):
                i = simp(idx)
                if z3.is_bv_value(i): return b, i.as_long()
            raise Unsupported('index of %r' % (b,))
        if k == 'cindex':
            c, key = self.slot(fr, pl[1]); b = c[key]
            if hasattr(b, 'mir_cindex'): return b.mir_cindex(self, pl[2], pl[3])
            if isinstance(b, list): return b, (len(b) - pl[2] if pl[3] else pl[2])
            raise Unsupported('const index of %r' % (b,))
        raise Unsupported('place ' + str(pl))

    def read(self, fr, pl):
        c, k = self.slot(fr, pl)
        try:
            return c[k]
        except (KeyError, IndexError):
            raise Unsupported('read of uninitialised %s in %s' % (pl, fr.fn.name))

    def write(self, fr, pl, v):
        c, k = self.slot(fr, pl) if pl[0] != 'local' else (fr.locals, pl[1])
        c[k] = v

    def place_type(self, fr, pl):
        k = pl[0]
        if k == 'local': return fr.fn.locals.get(pl[1], '')
        if k == 'field': return pl[3]
        if k == 'deref': return base_ty_once(self.place_type(fr, pl[1]))
        if k == 'downcast': return self.place_type(fr, pl[1])
        if k in ('index', 'cindex'):
            t = base_ty(self.place_type(fr, pl[1]))
            m = re.match(r'\[(.*?)(?:; .*)?\]$', t)
            return m.group(1) if m else ''
        return ''

    def optype(self, fr, op):
        if op[0] == 'const':
            m = re.match(r'-?[\d_]+?_?((?:u|i)(?:8|16|32|64|128|size))$', op[1])
            if m: return m.group(1)
            if op[1] in ('true', 'false'): return 'bool'
            if op[1].endswith('f64'): return 'f64'
            m = re.match(r"'.*'$", op[1])
            if m: return 'char'
            m = re.match(r'(?:.*::)?<impl ((?:u|i)(?:8|16|32|64|128|size)|f64|f32)>::\w+$', op[1])
            if m: return m.group(1)
            return ''
        return self.place_type(fr, op[1])

    # ------------------------------------------------------------ operands / rvalues
    def const(self, c):
        m = re.match(r'(-?\d+)_((?:u|i)(?:8|16|32|64|128|size))$', c)
        if m: return BitVecVal(int(m.group(1)), INT_W[m.group(2)])
        if c in ('true', 'false'): return BoolVal(c == 'true')
        m = re.match(r'(-?(?:\d+\.?\d*(?:[eE][-+]?\d+)?|inf|NaN))f64$', c)
        if m: return FPVal(float(m.group(1).replace('NaN', 'nan')), F64)
        m = re.match(r'(-?[\d\.]+(?:[eE][-+]?\d+)?)f32$', c)
        if m: return FPVal(float(m.group(1)), F32)
        if c == '()': return []
        m = re.match(r"'(.)'$", c)
        if m: return BitVecVal(ord(m.group(1)), 32)
        m = re.match(r"'\\u\{([0-9a-fA-F]+)\}'$", c)
        if m: return BitVecVal(int(m.group(1), 16), 32)
        m = re.match(r"'\\(.)'$", c)
        if m: return BitVecVal(ord({'n': '\n', 't': '\t', 'r': '\r', '0': '\0', "'": "'", '\\': '\\'}[m.group(1)]), 32)
        m = re.match(r'(?:.*::)?<impl (\w+)>()::(\w+)$', c) or re.match(r'(?:.*::)?(?:(\w+)::<.*>|(\w+))::(\w+)$', c)
        if m:
            ty = m.group(1) or m.group(2); var = m.group(3)
            if ty in self.variants and var in self.variants[ty]:
                return Enum(ty, self.vdisc(ty, var), {var: []})
            consts = {('usize', 'MAX'): BitVecVal(2**64 - 1, 64), ('u64', 'MAX'): BitVecVal(2**64 - 1, 64),
                      ('i64', 'MAX'): BitVecVal(2**63 - 1, 64), ('i64', 'MIN'): BitVecVal(-2**63, 64),
                      ('u32', 'MAX'): BitVecVal(2**32 - 1, 32), ('i32', 'MAX'): BitVecVal(2**31 - 1, 32), ('i32', 'MIN'): BitVecVal(-2**31, 32),
                      ('f64', 'NAN'): z3.fpNaN(F64), ('f64', 'INFINITY'): z3.fpPlusInfinity(F64), ('f64', 'NEG_INFINITY'): z3.fpMinusInfinity(F64),
                      ('f64', 'MAX'): FPVal(1.7976931348623157e308, F64), ('f64', 'MIN'): FPVal(-1.7976931348623157e308, F64),
                      ('f64', 'EPSILON'): FPVal(2.220446049250313e-16, F64)}
            if (ty, var) in consts: return consts[(ty, var)]
            if ty == 'Level' and var in ('TRACE', 'DEBUG', 'INFO', 'WARN', 'ERROR') and 'tracing' in c:
                # tracing::Level(LevelInner): the macros match on it to pick the `log` level before their level check (which the models cut)
                names = ['Trace', 'Debug', 'Info', 'Warn', 'Error']
                return [Enum('LevelInner', BitVecVal(['TRACE', 'DEBUG', 'INFO', 'WARN', 'ERROR'].index(var), 64), {n: [] for n in names})]
        if 'promoted[' in c:
            f = self.find_const(c)
            if f is not None: return self.run_const(f)
        if c.startswith('"'):
            return StrConst(c)
        if c.startswith('fnitem '):
            return FnItem(c[7:].strip())
        m = re.match(r'ZeroSized: (\{closure@[^}]*\})$', c)
        if m:
            return Closure(m.group(1), [])       # a closure that captures nothing is a zero-sized constant
        m = re.match(r'(?:.*::)?([A-Z][A-Z0-9_]*)$', c)
        if m:
            v = self.source_const(m.group(1))
            if v is not None: return v
        return Opaque('const ' + c)

    def source_const(self, name):
        """named `const NAME: ty = <numeric literal>;` items are not printed in the MIR dump: read them from the current source"""
        import os
        hits = []
        for mod in self.modules:
            for root, _, files in os.walk(os.path.join(mod.src_dir, 'src')):
                for fn in files:
                    if not fn.endswith('.rs'): continue
                    try: txt = open(os.path.join(root, fn), encoding='utf-8').read()
                    except OSError: continue
                    for mm in re.finditer(r'\bconst\s+%s\s*:\s*([\w:]+)\s*=\s*([^;]+);' % re.escape(name), txt):
                        hits.append((mm.group(1), mm.group(2).strip()))
        vals = set(hits)
        if len(vals) != 1: return None
        ty, lit = hits[0]
        lit = lit.replace('_', '')
        ty = ty.split('::')[-1]
        try:
            if ty in ('f64', 'f32'):
                lit = re.sub(r'f(64|32)$', '', lit)
                return FPVal(float(lit), F64 if ty == 'f64' else F32)
            if ty in INT_W:
                lit = re.sub(r'(u|i)(8|16|32|64|128|size)$', '', lit)
                return BitVecVal(int(lit, 0), INT_W[ty])
        except ValueError:
            return None
        return None

    def run_const(self, f):
        fr = Frame(f)
        bb = 'bb0'
        for _ in range(64):
            st, tm = f.block(bb)
            for ps in st:
                if ps[0] == 'assign': self.write(fr, ps[1], self.rvalue(fr, ps[2], ps[1]))
                elif ps[0] == 'setdiscr': self.set_discr(fr, ps[1], ps[2])
            if tm[0] == 'return': return fr.locals['_0']
            if tm[0] == 'goto': bb = tm[1]; continue
            raise Unsupported('promoted const with terminator %s' % (tm[0],))
        raise Unsupported('promoted const too long')

    def operand(self, fr, op):
        if op[0] in ('copy', 'move'): return self.read(fr, op[1])
        return self.const(op[1])

    def set_discr(self, fr, pl, n):
        v = self.read(fr, pl)
        if isinstance(v, Enum):
            d = M.EXPLICIT_DISCR.get(v.ty)
            if d is not None and v.ty in self.variants and n < len(self.variants[v.ty]): n = d[self.variants[v.ty][n]]
            v.disc = BitVecVal(n, 64); return
        raise Unsupported('set discriminant of %r' % (v,))

    def discr(self, v):
        if isinstance(v, Enum): return v.disc
        if hasattr(v, 'mir_discr'): return v.mir_discr(self)
        raise Unsupported('discriminant of %r' % (v,))

    def cast(self, fr, v, src_ty, dst_ty, kind):
        if kind in ('Transmute', 'PtrToPtr', 'FnPtrToPtr') or kind.startswith('PointerCoercion') or kind.startswith('PointerExposeProvenance') or kind.startswith('PointerWithExposedProvenance'):
            return v
        di = int_info(dst_ty); si = int_info(src_ty)
        if kind == 'IntToInt':
            if isinstance(v, Enum): v = v.disc; si = (64, True)
            if is_bool(v): v = bv_of_bool(v, 8); si = (8, False)
            if di is None: raise Unsupported('IntToInt to %s' % dst_ty)
            w = v.size(); dw = di[0]
            if dw == w: return v
            if dw < w: return Extract(dw - 1, 0, v)
            signed = si[1] if si else False
            return SignExt(dw - w, v) if signed else ZeroExt(dw - w, v)
        if kind == 'IntToFloat':
            so = F64 if base_ty(dst_ty) == 'f64' else F32
            if is_bool(v): v = bv_of_bool(v, 8); si = (8, False)
            signed = si[1] if si else True
            return fpSignedToFP(_RNE, v, so) if signed else fpUnsignedToFP(_RNE, v, so)
        if kind == 'FloatToInt':
            # Rust `as`: saturating, NaN -> 0
            w, signed = di
            so = v.sort()
            if signed:
                lo, hi = -(2 ** (w - 1)), 2 ** (w - 1) - 1
                conv = fpToSBV(RTZ(), v, z3.BitVecSort(w))
                big = fpGEQ(v, FPVal(float(2 ** (w - 1)), so)); small = fpLT(v, FPVal(float(lo), so))
            else:
                lo, hi = 0, 2 ** w - 1
                conv = fpToUBV(RTZ(), v, z3.BitVecSort(w))
                big = fpGEQ(v, FPVal(float(2 ** w), so)); small = fpLT(v, FPVal(0.0, so))
            return If(fpIsNaN(v), BitVecVal(0, w), If(big, BitVecVal(hi, w), If(small, BitVecVal(lo, w), conv)))
        if kind == 'FloatToFloat':
            return fpToFP(_RNE, v, F64 if base_ty(dst_ty) == 'f64' else F32)
        raise Unsupported('cast ' + kind)

    def binop(self, op, a, b, ty):
        if is_fp(a):
            t = {'Lt': fpLT, 'Le': fpLEQ, 'Gt': fpGT, 'Ge': fpGEQ, 'Eq': fpEQ, 'Ne': lambda x, y: Not(fpEQ(x, y)),
                 'Add': lambda x, y: fpAdd(_RNE, x, y), 'Sub': lambda x, y: fpSub(_RNE, x, y), 'Mul': lambda x, y: fpMul(_RNE, x, y),
                 'Div': lambda x, y: fpDiv(_RNE, x, y), 'Rem': lambda x, y: fp_fmod(x, y)}
            if op not in t: raise Unsupported('fp binop ' + op)
            return t[op](a, b)
        if is_bool(a):
            t = {'Eq': lambda: a == b, 'Ne': lambda: a != b, 'BitAnd': lambda: And(a, b), 'BitOr': lambda: Or(a, b), 'BitXor': lambda: z3.Xor(a, b),
                 'Lt': lambda: And(Not(a), b), 'Le': lambda: Or(Not(a), b), 'Gt': lambda: And(a, Not(b)), 'Ge': lambda: Or(a, Not(b))}
            if op not in t: raise Unsupported('bool binop ' + op)
            return t[op]()
        if isinstance(a, Enum) or isinstance(b, Enum):
            raise Unsupported('binop on enum')
        ii = int_info(ty)
        sg = ii[1] if ii else False
        if op in ('Lt', 'Le', 'Gt', 'Ge', 'Eq', 'Ne') and is_bv(a) and is_bv(b):
            # lengths of solver strings arrive as int2bv(len): compare the integers themselves (they are in [0, 2^63)), which the
            # string solver can handle, instead of their bit-vector images, which it cannot
            def as_int(x):
                if z3.is_app(x) and x.decl().kind() == z3.Z3_OP_INT2BV: return x.arg(0)
                xs = simp(x)
                if z3.is_bv_value(xs): return z3.IntVal(xs.as_long())
                return None
            if (z3.is_app(a) and a.decl().kind() == z3.Z3_OP_INT2BV) or (z3.is_app(b) and b.decl().kind() == z3.Z3_OP_INT2BV):
                ia, ib = as_int(a), as_int(b)
                if ia is not None and ib is not None:
                    return {'Lt': ia < ib, 'Le': ia <= ib, 'Gt': ia > ib, 'Ge': ia >= ib, 'Eq': ia == ib, 'Ne': ia != ib}[op]
        if is_bv(a) and is_bv(b) and a.size() != b.size():
            if op in ('Shl', 'Shr', 'ShlUnchecked', 'ShrUnchecked'):
                b = ZeroExt(a.size() - b.size(), b) if b.size() < a.size() else Extract(a.size() - 1, 0, b)
            else:
                raise Unsupported('width mismatch in %s: %d vs %d' % (op, a.size(), b.size()))
        if op == 'Lt': return (a < b) if sg else ULT(a, b)
        if op == 'Le': return (a <= b) if sg else ULE(a, b)
        if op == 'Gt': return (a > b) if sg else UGT(a, b)
        if op == 'Ge': return (a >= b) if sg else UGE(a, b)
        if op == 'Eq': return a == b
        if op == 'Ne': return a != b
        if op in ('Add', 'AddUnchecked'): return a + b
        if op in ('Sub', 'SubUnchecked'): return a - b
        if op in ('Mul', 'MulUnchecked'): return a * b
        if op == 'BitAnd': return a & b
        if op == 'BitOr': return a | b
        if op == 'BitXor': return a ^ b
        if op in ('Shl', 'ShlUnchecked'): return a << (b & (a.size() - 1))
        if op in ('Shr', 'ShrUnchecked'): return (a >> (b & (a.size() - 1))) if sg else LShR(a, b & (a.size() - 1))
        if op in ('Div', 'Rem') and getattr(self, 'div_lemma', False) and is_bv(a) and a.size() == 64 and z3.is_bv_value(simp(b)) and not z3.is_bv_value(simp(a)):
            # opt-in (Exec.div_lemma): a 64-bit division by a constant stalls the bit-blaster; the quotient and remainder become fresh symbols tied to the
            # dividend by the defining facts of Rust's truncating division: a = q*c + r, |r| < |c|, r = 0 or sign(r) = sign(a)  (c != 0, no MIN / -1: c is not -1)
            c = simp(b); cv = c.as_signed_long() if sg else c.as_long()
            if cv not in (0, -1):
                # (q, r) are uniquely determined by the facts, so a separate pair per Div / Rem statement is consistent; the facts join the path
                # condition of the path that executes the statement
                q = self.fresh('div_q', 64); r = self.fresh('div_r', 64)
                ac = abs(cv)
                if sg:
                    # 64-bit equation; q is bounded so that q*c cannot wrap, and r carries the sign of a (or is 0), so q*c + r cannot wrap either
                    facts = [a == q * BitVecVal(cv, 64) + r, q >= -((1 << 63) // ac), q <= ((1 << 63) - 1) // ac, r > -ac, r < ac, Or(r == 0, (r < 0) == (a < 0))]
                else:
                    facts = [a == q * BitVecVal(cv, 64) + r, ULE(q, BitVecVal(((1 << 64) - 1) // cv, 64)), ULT(r, c)]
                self._pending_assumes.extend(facts)
                return q if op == 'Div' else r
        if op == 'Div': return (a / b) if sg else UDiv(a, b)
        if op == 'Rem': return SRem(a, b) if sg else URem(a, b)
        if op == 'AddWithOverflow':
            ov = Not(And(BVAddNoOverflow(a, b, True), BVAddNoUnderflow(a, b))) if sg else Not(BVAddNoOverflow(a, b, False))
            return [a + b, ov]
        if op == 'SubWithOverflow':
            ov = Not(And(BVSubNoOverflow(a, b), BVSubNoUnderflow(a, b, True))) if sg else ULT(a, b)
            return [a - b, ov]
        if op == 'MulWithOverflow':
            ov = Not(And(BVMulNoOverflow(a, b, True), BVMulNoUnderflow(a, b))) if sg else Not(BVMulNoOverflow(a, b, False))
            return [a * b, ov]
        if op == 'Cmp':
            lt = (a < b) if sg else ULT(a, b)
            return Enum('Ordering', If(lt, BitVecVal(-1, 64), If(a == b, BitVecVal(0, 64), BitVecVal(1, 64))), {'Less': [], 'Equal': [], 'Greater': []})
        raise Unsupported('binop ' + op)

    def rvalue(self, fr, rv, lhs=None):
        k = rv[0]
        if k == 'use':
            v = self.operand(fr, rv[1])
            # copies of aggregates must not alias
            if rv[1][0] == 'copy' and isinstance(v, (list, Enum)): v = copy.deepcopy(v)
            return v
        if k == 'ref':
            pl = rv[1]
            c, key = self.slot(fr, pl)
            if isinstance(c, list) and len(c) == 1 and isinstance(c[0], _Variant):
                raise Unsupported('reference to whole variant')
            return Ptr(c, key)
        if k == 'discr':
            d = self.discr(self.read(fr, rv[1]))
            ii = int_info(self.place_type(fr, lhs)) if lhs is not None else None
            if ii and is_bv(d) and ii[0] < d.size(): d = Extract(ii[0] - 1, 0, d)
            return d
        if k == 'tuple': return [self.operand(fr, o) for o in rv[1]]
        if k == 'array': return [self.operand(fr, o) for o in rv[1]]
        if k == 'repeat':
            m = re.match(r'const (\d+)_usize', rv[2]) or re.match(r'(\d+)', rv[2])
            v = self.operand(fr, rv[1])
            return [copy.deepcopy(v) for _ in range(int(m.group(1)))]
        if k == 'adt':
            ty, var, args = ty_last(rv[1]), rv[2], [self.operand(fr, o) for o in rv[3]]
            # enums of other crates whose last path segment collides with a local one (serde_json::Value vs varpulis_core::Value)
            ty = getattr(self, 'aliases', {}).get(M.strip_generics(rv[1]), ty)
            if ty == '' and lhs is not None:
                # `_0 = Foo(args)` tuple-struct constructor or bare unit variant: decide by lhs type
                pt = self.place_type(fr, lhs)
                lt = getattr(self, 'aliases', {}).get(M.strip_generics(pt).strip(), ty_last(pt))
                if lt in self.variants and var in self.variants[lt]: ty = lt
                else: return args
            h = self.adt_hook(ty, var, args)
            if h is not None: return h
            if ty in self.variants and var in self.variants[ty]:
                return Enum(ty, self.vdisc(ty, var), {var: args})
            if var in self.variants:      # `Type::<T>(args)` tuple struct whose name is also an enum? no: treat as struct
                pass
            # tuple struct `mod::Name(args)`
            return args
        if k == 'struct':
            path = rv[1]
            vals = [self.operand(fr, o) for _, o in rv[2]]
            segs = M.strip_generics(path).split('::')
            if len(segs) >= 2 and segs[-2] in self.variants and segs[-1] in self.variants[segs[-2]]:
                return Enum(segs[-2], self.vdisc(segs[-2], segs[-1]), {segs[-1]: vals})
            if lhs is not None:
                # struct-like enum variants are sometimes printed without the enum path (`Unary { op: .., expr: .. }`): decide by the destination type
                lt = ty_last(self.place_type(fr, lhs))
                if lt in self.variants and segs[-1] in self.variants[lt]:
                    return Enum(lt, self.vdisc(lt, segs[-1]), {segs[-1]: vals})
            h = self.struct_hook(ty_last(path), [n for n, _ in rv[2]], vals)
            if h is not None: return h
            return vals
        if k == 'closure':
            # `-Zunpretty=mir` prints one operand per captured *variable* although disjoint field captures are separate operands:
            # the complete list comes from the stable-mir dump (same body, same local numbering) when the module carries it
            m = re.search(r'closure@([^}]*)\}', rv[1])
            full = None
            for mod in self.modules:
                full = getattr(mod, 'closure_ops', {}).get(m.group(1)) if m else None
                if full is not None: break
            if full is not None and len(full) != len(rv[2]):
                if rv[2] and M.parse_operand(full[0]) != rv[2][0][1]:
                    raise Unsupported('closure aggregate: the two MIR printers disagree on the first captured operand')
                return Closure(rv[1], [self.operand(fr, M.parse_operand(o)) for o in full])
            if full is None and any('closure_ops' in mod.__dict__ for mod in self.modules) is False and rv[2]:
                pass
            return Closure(rv[1], [self.operand(fr, o) for _, o in rv[2]])
        if k == 'cast':
            v = self.operand(fr, rv[1])
            return self.cast(fr, v, self.optype(fr, rv[1]), rv[2], rv[3])
        if k == 'binop':
            a, b = self.operand(fr, rv[2]), self.operand(fr, rv[3])
            ty = self.optype(fr, rv[2]) or self.optype(fr, rv[3])
            if rv[1] == 'Offset' or hasattr(a, 'mir_binop'):
                if hasattr(a, 'mir_binop'): return a.mir_binop(self, rv[1], b)
                raise Unsupported('pointer offset')
            return self.binop(rv[1], a, b, ty)
        if k == 'unop':
            a = self.operand(fr, rv[2])
            if rv[1] == 'Not': return Not(a) if is_bool(a) else ~a
            if rv[1] == 'Neg': return fpNeg(a) if is_fp(a) else -a
            if rv[1] == 'PtrMetadata':
                if isinstance(a, Ptr) and a.meta is not None: return a.meta
                if isinstance(a, Ptr):
                    v = a.get()
                    if hasattr(v, 'mir_len'): return v.mir_len(self)
                    if isinstance(v, list): return BitVecVal(len(v), 64)
                raise Unsupported('PtrMetadata of %r' % (a,))
        if k == 'len':
            v = self.read(fr, rv[1])
            if hasattr(v, 'mir_len'): return v.mir_len(self)
            if isinstance(v, list): return BitVecVal(len(v), 64)
            raise Unsupported('Len of %r' % (v,))
        raise Unsupported('rvalue ' + str(rv))

    def adt_hook(self, ty, var, args):
        return None

    def struct_hook(self, ty, names, vals):
        return None

    # ------------------------------------------------------------ calls
    def deref(self, v):
        while isinstance(v, Ptr):
            v = v.get()
        return v

    def call(self, st, fr, callee, args):
        if isinstance(callee, tuple):       # indirect call through fn pointer / closure value
            raise Unsupported('indirect call')
        for pat, fn in self.hooks:
            if (pat.match(callee) if hasattr(pat, 'match') else re.match(pat, callee)):
                r = fn(self, st, callee, args)
                if r is not NotImplemented: return r
        f = self.find_func(callee)
        if isinstance(f, list):
            f2 = [x for x in f if len(x.params) == len(args)]
            if len(f2) != 1: raise Unsupported('ambiguous callee %s (%d definitions)' % (callee, len(f)))
            f = f2[0]
        if f is not None: return Inline(f, args)
        raise Unsupported('call ' + callee)

    # ------------------------------------------------------------ driver
    def run(self, func, args, st=None, roots=None):
        """explore all paths of `func` (a Func or a callee-style name) from the given arguments"""
        if isinstance(func, str):
            f = self.find_func(func)
            if f is None or isinstance(f, list):
                raise Unsupported('function %s not found (or ambiguous) in the MIR dump' % func)
            func = f
        if st is None: st = State(roots)
        fr = Frame(func)
        if len(args) != len(func.params):
            raise Unsupported('arity mismatch for %s' % func.name)
        for (l, _), a in zip(func.params, args): fr.locals[l] = a
        st.frames.append(fr)
        self.visited_funcs.add(func.pretty)
        work = [st]
        while work:
            s = work.pop()
            try:
                self.explore(s, work)
            except Unsupported as e:
                # an unsupported construct only matters on a feasible path
                if self.feasible(s.path.pc):
                    self.inconclusive.append('%s [in %s]' % (e, s.frames[-1].fn.pretty if s.frames else '?'))
                self.paths_cut += 1
        return self.results

    def fork(self, st, extra, work, alts):
        """alts: [(cond, cont)] cont(st2, extra2) prepares st2 to continue; pushes feasible alternatives on `work`"""
        live = []
        for c, cont in alts:
            if self.feasible(st.path.pc + [c]): live.append((c, cont))
        for i, (c, cont) in enumerate(live):
            if i == len(live) - 1:
                s2, e2 = st, extra
            else:
                s2, e2 = copy.deepcopy((st, extra))
            s2.path.pc.append(c)
            cont(s2, e2)
            work.append(s2)

    def finish(self, st, ret, status):
        self.results.append(Result(st, ret, status))

    def explore(self, st, work):
        while True:
            fr = st.frames[-1]
            p = st.path
            p.steps += 1
            if p.steps > self.step_budget: raise Unsupported('step budget exceeded')
            key = (fr.fid, fr.bb)
            p.visits[key] = p.visits.get(key, 0) + 1
            if p.visits[key] > self.loop_bound:
                raise Unsupported('loop bound %d exceeded at %s %s' % (self.loop_bound, fr.fn.pretty, fr.bb))
            stmts, tm = fr.fn.block(fr.bb)
            for ps in stmts:
                if ps[0] == 'assign': self.write(fr, ps[1], self.rvalue(fr, ps[2], ps[1]))
                elif ps[0] == 'setdiscr': self.set_discr(fr, ps[1], ps[2])
                elif ps[0] == 'assume': p.pc.append(self.operand(fr, ps[1]))
                if self._pending_assumes:
                    p.pc.extend(self._pending_assumes); self._pending_assumes = []
            t = tm[0]
            if t == 'goto':
                fr.bb = tm[1]; continue
            if t == 'return':
                rv = fr.locals.get('_0', [])
                st.frames.pop()
                if fr.post is not None: rv = POSTS[fr.post](self, rv)
                if not st.frames:
                    self.finish(st, rv, 'return'); return
                caller = st.frames[-1]
                lhs, nxt = fr.ret
                if fr.cont is not None:
                    # a model is driving a sequence of calls (iterator pipeline with closures): hand the result back to it
                    r2 = fr.cont.step(self, st, rv)
                    if self.apply_call_result(st, work, r2, lhs, nxt, [fr.cont]):
                        continue
                    return
                self.write(caller, lhs, rv); caller.bb = nxt
                continue
            if t == 'unreachable':
                p.oblige('unreachable code reached', BoolVal(False), fr.fn.pretty, 'unreachable')
                self.finish(st, None, 'unreachable'); return
            if t == 'resume':
                raise Unsupported('unwind path entered')
            if t == 'diverge':
                p.oblige('no panic: %s' % (tm[1] if isinstance(tm[1], str) else 'indirect')[:80], BoolVal(False), fr.fn.pretty)
                self.finish(st, None, 'panic'); return
            if t == 'assert':
                _, neg, op, msg, nxt = tm
                c = self.operand(fr, op); ok = Not(c) if neg else c
                ok = simp(ok)
                if z3.is_true(ok):
                    fr.bb = nxt; continue
                p.oblige('no panic: ' + msg, ok, fr.fn.pretty)
                fr.bb = nxt
                p.pc.append(ok)
                if not self.feasible(p.pc): return
                continue
            if t == 'switch':
                d = self.operand(fr, tm[1]); tg = tm[2]
                if isinstance(d, Enum): d = d.disc
                if is_bool(d): d = bv_of_bool(d, 64)
                d = simp(d)
                if z3.is_bv_value(d):
                    v = d.as_long(); sv = d.as_signed_long()
                    nxt = None
                    for k2, b2 in tg.items():
                        if k2 != 'otherwise' and (int(k2) == v or int(k2) == sv): nxt = b2
                    if nxt is None: nxt = tg.get('otherwise')
                    if nxt is None: raise Unsupported('switch without target')
                    fr.bb = nxt; continue
                w = d.size()
                alts = []
                for k2, b2 in tg.items():
                    if k2 == 'otherwise': continue
                    alts.append((d == BitVecVal(int(k2), w), b2))
                if 'otherwise' in tg:
                    alts.append((And(*[d != BitVecVal(int(k2), w) for k2 in tg if k2 != 'otherwise']), tg['otherwise']))

                def mk(b2):
                    def cont(s2, _e):
                        s2.frames[-1].bb = b2
                    return cont
                self.fork(st, None, work, [(c, mk(b2)) for c, b2 in alts])
                return
            if t == 'call':
                _, lhs, callee, aops, nxt = tm
                args = [self.operand(fr, o) for o in aops]
                p.trace.append(callee if isinstance(callee, str) else 'indirect')
                r = self.call(st, fr, callee, args)
                if self.apply_call_result(st, work, r, lhs, nxt, args):
                    continue
                return
            raise Unsupported('terminator ' + str(tm))

    def apply_call_result(self, st, work, r, lhs, nxt, args):
        """returns True if exploration of `st` continues"""
        fr = st.frames[-1]
        if isinstance(r, Inline):
            nf = Frame(r.func, (lhs, nxt))
            nf.post = r.post
            nf.cont = r.cont
            if len(r.args) != len(r.func.params):
                # closures called through Fn* traits pass (closure, (args,)) — spread the tuple
                if len(r.func.params) >= 1 and len(r.args) == 2 and isinstance(r.args[1], list) and len(r.args[1]) + 1 == len(r.func.params):
                    r.args = [r.args[0]] + list(r.args[1])
                else:
                    raise Unsupported('arity mismatch calling %s' % r.func.pretty)
            for (l, _), a in zip(r.func.params, r.args): nf.locals[l] = a
            self.visited_funcs.add(r.func.pretty)
            if len(st.frames) > 40: raise Unsupported('call depth exceeded')
            st.frames.append(nf)
            return True
        if isinstance(r, Diverge):
            st.path.oblige('no panic: ' + r.why, BoolVal(False), fr.fn.pretty)
            self.finish(st, None, 'panic')
            return False
        if isinstance(r, Fork):
            if nxt is None and all(False for _ in ()): pass
            alts = []
            for c, thunk in r.alts:
                def mk(thunk):
                    def cont(s2, a2):
                        v = thunk(self, s2, a2) if callable(thunk) else thunk
                        s2._pending = v
                    return cont
                alts.append((c, mk(thunk)))
            sub = []
            self.fork(st, r.args if r.args is not None else args, sub, alts)
            for s2 in sub:
                v = s2._pending; del s2._pending
                try:
                    if self.apply_call_result(s2, work, v, lhs, nxt, None):
                        work.append(s2)
                except Unsupported as e:
                    if self.feasible(s2.path.pc):
                        self.inconclusive.append('%s [in %s]' % (e, fr.fn.pretty))
            return False
        if nxt is None:
            raise Unsupported('call without return target returned')
        self.write(fr, lhs, r)
        fr.bb = nxt
        return True


POSTS = {'not': lambda ex, v: Not(v)}


class _Variant:
    """transient view of an enum payload produced by a downcast projection"""
    def __init__(self, payload):
        self.payload = payload


class StrConst:
    def __init__(self, lit):
        self.lit = lit

    def __repr__(self):
        return 'StrConst(%s)' % self.lit


def base_ty_once(t):
    t = t.strip()
    if t.startswith('&'):
        t = t[1:].strip()
        t = re.sub(r"^'\w+\s+", '', t)
        if t.startswith('mut '): t = t[4:].strip()
        return t
    if t.startswith('*const '): return t[7:].strip()
    if t.startswith('*mut '): return t[5:].strip()
    m = re.match(r'(?:std::boxed::|alloc::boxed::)?Box<(.*)>$', t)
    if m: return m.group(1)
    return t


def fp_fmod(x, y):
    """Rust `%` on floats is C fmod (truncated), z3 fpRem is IEEE remainder (round-to-nearest): build fmod from it."""
    r = fpRem(x, y)
    # if sign(r) != sign(x) and r != 0: r += |y| with x's sign ... IEEE remainder r = x - n*y with n nearest; fmod has |r| < |y|, sign of x
    ay = z3.fpAbs(y)
    adj = If(And(Not(z3.fpIsZero(r)), z3.fpIsNegative(r) != z3.fpIsNegative(x)),
             If(z3.fpIsNegative(x), fpSub(_RNE, r, ay), fpAdd(_RNE, r, ay)), r)
    return adj


def copy_func(self, memo):
    return self


M.Func.__deepcopy__ = copy_func


# ------------------------------------------------------------------ obligation discharge
class Verdict:
    def __init__(self, name, where, status, model=None, secs=0.0, kind='panic', pathid=0):
        self.name, self.where, self.status, self.model, self.secs, self.kind, self.pathid = name, where, status, model, secs, kind, pathid


def discharge(ex, results, extra=None, timeout_ms=60000, dedupe=True, splits=None):
    """check every recorded obligation (and `extra(result)` -> [(name, cond)] evaluated under the full path condition).
    `splits`: optional list of conditions used as a case split (the remainder case is added, so the split is exhaustive by construction):
    an obligation is proved iff it is unsat in every case.  returns list of Verdict; status in {'proved','violated','unknown'}"""
    out = []
    s = z3.Solver(); s.set('timeout', timeout_ms)
    cases = [None]
    if splits:
        cases = list(splits) + [Not(Or(*splits))]
    for pid, r in enumerate(results):
        items = [(o.name, o.cond, r.path.pc[:o.pclen], o.where, o.kind) for o in r.path.obl]
        if extra is not None and r.status == 'return':
            for name, cond in extra(r):
                items.append((name, cond, r.path.pc, 'post', 'post'))
        for name, cond, pc, where, kind in items:
            t0 = time.time()
            res = unsat; mdl = None
            for c in cases:
                # a fresh, non-incremental solver per query: z3 then uses its full tactic pipeline (much stronger on QF_BV/FP than push/pop mode)
                s = z3.Solver(); s.set('timeout', timeout_ms)
                s.add(*pc); s.add(Not(cond))
                if c is not None: s.add(c)
                rc = s.check(); ex.queries += 1
                if rc == sat:
                    res = sat; mdl = s.model(); break
                if rc != unsat: res = rc
            dt = time.time() - t0; ex.solver_s += dt
            out.append(Verdict(name, where, 'proved' if res == unsat else ('violated' if res == sat else 'unknown'), mdl, dt, kind, pid))
    return out
