"""Entry-list model of HashMap / FxHashMap / IndexMap with string-token keys, shared by the property modules.

A map is a MapM: a Python list of [key, value] entries in insertion order, keys pairwise distinct (tokens: objects with a `.tok` z3 term, or
tuple structs wrapping one).  Lookups fork on key equality; an entry pointer is Ptr(entry, 1), so identity of values is identity of entry lists.
`hooks(map_type_regex)` returns the hook list for one concrete map type as it is printed in MIR callee names.
"""
import z3
from z3 import BitVecVal, BoolVal, And, Or, Not

from .symex import Ptr, Opaque, box, Enum, Fork, Inline, Unsupported, StrConst
from .containers import ListModel, Iter, call_closure
from .models import some, none


class MapM:
    def __init__(self, entries=None): self.entries = entries if entries is not None else []
    def __repr__(self): return 'MapM(%d entries)' % len(self.entries)


def key_tok(a, literals=None):
    """z3 token of a key operand: StrTok, a tuple struct around one, or a string literal registered in `literals`"""
    v = a
    while isinstance(v, Ptr): v = v.get()
    if isinstance(v, list) and len(v) == 1: return key_tok(v[0], literals)
    if hasattr(v, 'tok'): return v.tok
    if isinstance(v, StrConst) and literals is not None:
        name = v.lit.strip('"')
        if name in literals: return literals[name]
    raise Unsupported('map key expected, got %r' % (v,))


def as_map(a):
    v = a
    while isinstance(v, Ptr): v = v.get()
    if isinstance(v, MapM): return v
    raise Unsupported('map model expected, got %r' % (v,))


def hooks(ty, literals=None, key_ctor=None):
    """ty: regex of the map type as printed before `::method` (e.g. r'HashMap::<String, Vec<Run>, FxBuildHasher>'); key_ctor(tok) builds an owned key"""
    tk = lambda a: key_tok(a, literals)
    mk_key = key_ctor or (lambda t: _Tok(t))

    def lookup(args, hit, miss):
        m = as_map(args[0]); k = tk(args[1])
        alts = []
        for i, e in enumerate(m.entries):
            c = z3.simplify(tk(e[0]) == k)
            if z3.is_false(c): continue
            alts.append((c, (lambda i: lambda ex, st, a: hit(as_map(a[0]), i, a))(i)))
            if z3.is_true(c): break
        else:
            c = z3.simplify(And(*[tk(e[0]) != k for e in m.entries])) if m.entries else BoolVal(True)
            if not z3.is_false(c): alts.append((c, lambda ex, st, a: miss(as_map(a[0]), a)))
        if len(alts) == 1: return alts[0][1](None, None, args)
        return Fork(alts)

    def h_get(ex, st, callee, args): return lookup(args, lambda m, i, a: some(Ptr(m.entries[i], 1)), lambda m, a: none())
    def h_contains(ex, st, callee, args):
        m = as_map(args[0]); k = tk(args[1])
        return Or(*[tk(e[0]) == k for e in m.entries]) if m.entries else BoolVal(False)

    def h_insert(ex, st, callee, args):
        def hit(m, i, a):
            old = m.entries[i][1]; m.entries[i][1] = a[2]; return some(old)
        def miss(m, a):
            m.entries.append([a[1], a[2]]); return none()
        return lookup(args, hit, miss)

    def h_remove(ex, st, callee, args):
        def hit(m, i, a):
            v = m.entries[i][1]; del m.entries[i]; return some(v)
        return lookup(args, hit, lambda m, a: none())

    def h_len(ex, st, callee, args):
        n = len(as_map(args[0]).entries)
        return BoolVal(n == 0) if callee.endswith('is_empty') else BitVecVal(n, 64)

    def h_clear(ex, st, callee, args):
        as_map(args[0]).entries[:] = []; return []

    def h_new(ex, st, callee, args): return MapM([])
    def h_keys(ex, st, callee, args): return Iter(ListModel([Ptr(e, 0) for e in as_map(args[0]).entries], kind='Keys'), by_value=True)
    def h_values(ex, st, callee, args): return Iter(ListModel([Ptr(e, 1) for e in as_map(args[0]).entries], kind='Values'), by_value=True)
    def h_iter(ex, st, callee, args): return Iter(ListModel(as_map(args[0]).entries, kind='MapIter'), pairs=True)
    def h_entry(ex, st, callee, args): return ['entry', args[0], args[1]]

    def entry_resolve(args, make):
        e = args[0]; m = as_map(e[1]); k = tk(e[2])
        def tbl(a): return as_map(a[0][1])
        alts = []
        for i, x in enumerate(m.entries):
            c = z3.simplify(tk(x[0]) == k)
            if z3.is_false(c): continue
            alts.append((c, (lambda i: lambda ex, st, a: Ptr(tbl(a).entries[i], 1))(i)))
        c = z3.simplify(And(*[tk(x[0]) != k for x in m.entries])) if m.entries else BoolVal(True)
        if not z3.is_false(c): alts.append((c, lambda ex, st, a: make(ex, st, a, tbl(a))))
        return alts

    def h_or_default(default):
        def h(ex, st, callee, args):
            def make(ex, st, a, t):
                t.entries.append([a[0][2], default()]); return Ptr(t.entries[-1], 1)
            alts = entry_resolve(args, make)
            if len(alts) == 1: return alts[0][1](ex, st, args)
            return Fork(alts)
        return h

    def h_or_insert(ex, st, callee, args):
        def make(ex, st, a, t):
            t.entries.append([a[0][2], a[1]]); return Ptr(t.entries[-1], 1)
        alts = entry_resolve(args, make)
        if len(alts) == 1: return alts[0][1](ex, st, args)
        return Fork(alts)

    def h_or_insert_with(ex, st, callee, args):
        class Ins:
            def __init__(self, a): self.a = a
            def step(self, ex, st, rv):
                t = as_map(self.a[0][1]); t.entries.append([self.a[0][2], rv])
                st.roots['map_created'] = st.roots.get('map_created', 0) + 1
                return Ptr(t.entries[-1], 1)
        def make(ex, st, a, t):
            r = call_closure(ex, a[1], [], cont=Ins(a), st=st)
            if isinstance(r, Inline): return r
            return Ins(a).step(ex, st, r)
        alts = entry_resolve(args, make)
        if len(alts) == 1: return alts[0][1](ex, st, args)
        return Fork(alts)

    E = ty.replace('HashMap::<', r"std::collections::hash_map::Entry::<'_, ").replace(', FxBuildHasher>', '>')
    return [
        (r'^%s::(?:get|get_mut)::<.*>$' % ty, h_get), (r'^%s::contains_key::<.*>$' % ty, h_contains),
        (r'^%s::insert$' % ty, h_insert), (r'^%s::remove::<.*>$' % ty, h_remove),
        (r'^%s::(?:len|is_empty)$' % ty, h_len), (r'^%s::clear$' % ty, h_clear),
        (r'^%s::(?:new|default|with_hasher|with_capacity_and_hasher)$' % ty, h_new),
        (r'^%s::keys$' % ty, h_keys), (r'^%s::(?:values|values_mut)$' % ty, h_values), (r'^%s::(?:iter|iter_mut)$' % ty, h_iter),
        (r'^%s::entry$' % ty, h_entry),
        (r'^%s::or_default$' % E, h_or_default(lambda: ListModel([]))), (r'^%s::or_insert$' % E, h_or_insert), (r'^%s::or_insert_with::<.*>$' % E, h_or_insert_with),
        (r'^<std::collections::hash_map::(?:Keys|Values|ValuesMut|Iter|IterMut)<.*> as IntoIterator>::into_iter$', lambda ex, st, callee, args: args[0]),
    ]


class _Tok:
    def __init__(self, tok): self.tok = tok
