"""Models for std / third-party functions that appear in the MIR of the encoded functions.

Each model is a few lines; the list of models actually *used* in a run is recorded in the
evidence file (they are part of the trusted base).  A model returns a value, an Inline, a Fork
or a Diverge (see symex.py); NotImplemented falls through to the next hook.
"""
import copy
import re

import z3
from z3 import (BitVecVal, BoolVal, And, Or, Not, If, ULT, ULE, UGT, UGE, is_bool, is_bv, is_fp, fpLT, fpLEQ, fpGT, fpGEQ, fpEQ,
                fpAdd, fpSub, fpMul, fpDiv, fpNeg, fpAbs, fpIsNaN, BVAddNoOverflow, BVAddNoUnderflow, BVSubNoOverflow,
                BVSubNoUnderflow, BVMulNoOverflow, BVMulNoUnderflow, SRem, URem, UDiv)

from .symex import Enum, Ptr, Opaque, Fork, Diverge, Inline, Unsupported, Closure, box, INT_W, SIGNED, fp_fmod, _RNE, F64, bv_of_bool

USED = set()


def model(pat):
    rx = re.compile(pat)

    def deco(fn):
        def wrapped(ex, st, callee, args):
            r = fn(ex, st, callee, args, rx.match(callee))
            if r is not NotImplemented:
                USED.add(fn.__name__ + ': ' + (fn.__doc__ or '').strip().split('\n')[0])
            return r
        wrapped.__name__ = fn.__name__
        GENERIC.append((rx, wrapped))
        return wrapped
    return deco


GENERIC = []
_PRIM = r'(?:i8|i16|i32|i64|isize|u8|u16|u32|u64|usize|f64|f32|bool|char)'


def some(v): return Enum('Option', BitVecVal(1, 64), {'Some': [v], 'None': []})
def none(): return Enum('Option', BitVecVal(0, 64), {'Some': [Opaque('none-payload')], 'None': []})
def option(cond, v): return Enum('Option', bv_of_bool(cond), {'Some': [v], 'None': []})
def ok(v): return Enum('Result', BitVecVal(0, 64), {'Ok': [v], 'Err': [Opaque('err')]})


def D(ex, v):
    return ex.deref(v)


@model(r'^<&*(%s) as (?:std::cmp::|core::cmp::)?PartialEq(?:<.*>)?>::(eq|ne)$' % _PRIM)
def prim_eq(ex, st, callee, args, m):
    """== / != on primitives through references: bit-vector equality, IEEE equality on floats"""
    a, b = D(ex, args[0]), D(ex, args[1])
    if hasattr(a, 'mir_eq'): e = a.mir_eq(ex, b)
    elif is_fp(a): e = fpEQ(a, b)
    else: e = a == b
    return e if m.group(2) == 'eq' else Not(e)


@model(r'^<&*(%s) as (?:std::cmp::|core::cmp::)?PartialOrd(?:<.*>)?>::(lt|le|gt|ge)$' % _PRIM)
def prim_ord(ex, st, callee, args, m):
    """< <= > >= on primitives through references (signedness from the type name)"""
    a, b = D(ex, args[0]), D(ex, args[1]); t = m.group(1); o = m.group(2)
    if is_fp(a): return {'lt': fpLT, 'le': fpLEQ, 'gt': fpGT, 'ge': fpGEQ}[o](a, b)
    if t in SIGNED: return {'lt': a < b, 'le': a <= b, 'gt': a > b, 'ge': a >= b}[o]
    return {'lt': ULT(a, b), 'le': ULE(a, b), 'gt': UGT(a, b), 'ge': UGE(a, b)}[o]


@model(r'^<&*(%s) as (?:std::cmp::|core::cmp::)?(Ord|PartialOrd)(?:<.*>)?>::(cmp|partial_cmp)$' % _PRIM)
def prim_cmp(ex, st, callee, args, m):
    """Ord::cmp / PartialOrd::partial_cmp on primitives: Ordering with discriminants -1/0/1 (partial_cmp: None for NaN)"""
    a, b = D(ex, args[0]), D(ex, args[1]); t = m.group(1)
    if is_fp(a): lt, eq = fpLT(a, b), fpEQ(a, b)
    elif is_bool(a): lt, eq = And(Not(a), b), a == b
    elif t in SIGNED: lt, eq = a < b, a == b
    else: lt, eq = ULT(a, b), a == b
    o = Enum('Ordering', If(lt, BitVecVal(-1, 64), If(eq, BitVecVal(0, 64), BitVecVal(1, 64))), {'Less': [], 'Equal': [], 'Greater': []})
    if m.group(3) == 'cmp': return o
    if is_fp(a): return option(Not(Or(fpIsNaN(a), fpIsNaN(b))), o)
    return some(o)


@model(r'^<&?(%s) as (?:std::ops::|core::ops::)?(Add|Sub|Mul|Div|Rem)(?:<&?(?:%s)>)?>::(add|sub|mul|div|rem)$' % (_PRIM, _PRIM))
def prim_arith(ex, st, callee, args, m):
    """+ - * / % through `&`-forwarding impls; overflow panics per profile (rustc_inherit_overflow_checks), div-by-zero and MIN/-1 always"""
    a, b = D(ex, args[0]), D(ex, args[1]); t = m.group(1); op = m.group(2)
    p = st.path
    if is_fp(a):
        return {'Add': fpAdd, 'Sub': fpSub, 'Mul': fpMul, 'Div': fpDiv}[op](_RNE, a, b) if op != 'Rem' else fp_fmod(a, b)
    sg = t in SIGNED
    if op in ('Add', 'Sub', 'Mul'):
        if sg:
            nov = {'Add': lambda: And(BVAddNoOverflow(a, b, True), BVAddNoUnderflow(a, b)), 'Sub': lambda: And(BVSubNoOverflow(a, b), BVSubNoUnderflow(a, b, True)),
                   'Mul': lambda: And(BVMulNoOverflow(a, b, True), BVMulNoUnderflow(a, b))}[op]()
        else:
            nov = {'Add': lambda: BVAddNoOverflow(a, b, False), 'Sub': lambda: UGE(a, b), 'Mul': lambda: BVMulNoOverflow(a, b, False)}[op]()
        if ex.overflow_checks:
            p.oblige('no panic: attempt to %s with overflow' % op.lower(), nov, callee); p.assume(nov)
        return {'Add': a + b, 'Sub': a - b, 'Mul': a * b}[op]
    w = a.size()
    okc = b != 0
    if sg: okc = And(okc, Not(And(a == BitVecVal(-(2 ** (w - 1)), w), b == BitVecVal(-1, w))))
    p.oblige('no panic: %s by zero / MIN by -1' % op.lower(), okc, callee); p.assume(okc)
    if op == 'Div': return (a / b) if sg else UDiv(a, b)
    return SRem(a, b) if sg else URem(a, b)


@model(r'^<&?(%s) as (?:std::ops::|core::ops::)?Neg>::neg$' % _PRIM)
def prim_neg(ex, st, callee, args, m):
    """unary minus; i64::MIN overflow panics when overflow checks are on"""
    a = D(ex, args[0])
    if is_fp(a): return fpNeg(a)
    w = a.size(); nov = a != BitVecVal(-(2 ** (w - 1)), w)
    if ex.overflow_checks:
        st.path.oblige('no panic: attempt to negate with overflow', nov, callee); st.path.assume(nov)
    return -a


@model(r'^<&?bool as (?:std::ops::|core::ops::)?Not>::not$')
def bool_not(ex, st, callee, args, m):
    """logical not"""
    return Not(D(ex, args[0]))


@model(r'^<(?:std::option::)?Option<.*> as (?:std::ops::|core::ops::)?Try>::branch$')
def option_branch(ex, st, callee, args, m):
    """Option `?`: Some(v) -> Continue(v), None -> Break(None)"""
    o = args[0]
    if not isinstance(o, Enum): raise Unsupported('Try::branch on %r' % (o,))
    pay = o.fields.get('Some', [Opaque('x')])
    return Enum('ControlFlow', If(o.disc == 1, BitVecVal(0, 64), BitVecVal(1, 64)), {'Continue': pay, 'Break': [none()]})


@model(r'^<(?:std::option::)?Option<.*> as (?:std::ops::|core::ops::)?FromResidual.*>::from_residual$')
def option_from_residual(ex, st, callee, args, m):
    """Option `?` residual: None"""
    return none()


@model(r'^<(?:std::result::)?Result<.*> as (?:std::ops::|core::ops::)?Try>::branch$')
def result_branch(ex, st, callee, args, m):
    """Result `?`: Ok(v) -> Continue(v), Err(e) -> Break(Err(e))"""
    r = args[0]
    if not isinstance(r, Enum): raise Unsupported('Try::branch on %r' % (r,))
    okp = r.fields.get('Ok') or [Opaque('ok')]
    errp = r.fields.get('Err') or [Opaque('err')]
    return Enum('ControlFlow', If(r.disc == 0, BitVecVal(0, 64), BitVecVal(1, 64)), {'Continue': okp, 'Break': [Enum('Result', BitVecVal(1, 64), {'Ok': [Opaque('ok')], 'Err': errp})]})


@model(r'^<(?:std::result::)?Result<.*> as (?:std::ops::|core::ops::)?FromResidual<(?:std::result::)?Result<(?:std::convert::)?Infallible, .*>>>::from_residual$')
def result_from_residual(ex, st, callee, args, m):
    """Result `?` residual with the same error type (From::from is the identity): Err(e)"""
    r = args[0]
    errp = r.fields.get('Err') if isinstance(r, Enum) else None
    return Enum('Result', BitVecVal(1, 64), {'Ok': [Opaque('ok')], 'Err': errp or [Opaque('err')]})


@model(r'^(?:std::option::|core::option::)?Option::<.*>::(unwrap|expect)$')
def option_unwrap(ex, st, callee, args, m):
    """Option::unwrap/expect: panics on None"""
    o = args[0]
    if not isinstance(o, Enum): raise Unsupported('unwrap on %r' % (o,))
    c = o.disc == 1
    st.path.oblige('no panic: Option::%s on None' % m.group(1), c, callee); st.path.assume(c)
    return o.fields['Some'][0]


@model(r'^(?:std::option::|core::option::)?Option::<.*>::(is_some|is_none)$')
def option_is(ex, st, callee, args, m):
    """Option::is_some / is_none"""
    o = D(ex, args[0])
    return (o.disc == 1) if m.group(1) == 'is_some' else (o.disc == 0)


@model(r'^(?:std::option::|core::option::)?Option::<.*>::unwrap_or$')
def option_unwrap_or(ex, st, callee, args, m):
    """Option::unwrap_or on scalars"""
    o, d = args
    if not o.fields.get('Some'): return d          # a value built as `None` carries no payload
    v = o.fields['Some'][0]
    if isinstance(v, Opaque): return d
    if z3.is_expr(v) and z3.is_expr(d): return If(o.disc == 1, v, d)
    return Fork([(o.disc == 1, lambda ex, st, a: a[0].fields['Some'][0]), (o.disc != 1, lambda ex, st, a: a[1])])


@model(r'^core::num::<impl (%s)>::(saturating_sub|saturating_add|wrapping_add|wrapping_sub|wrapping_mul|wrapping_neg|wrapping_div|wrapping_rem|wrapping_div_euclid|wrapping_rem_euclid|div_euclid|rem_euclid|abs|min|max|wrapping_abs|unsigned_abs|abs_diff|is_power_of_two)$' % _PRIM)
def num_misc(ex, st, callee, args, m):
    """integer helper methods (saturating/wrapping arithmetic, abs with its overflow panic)"""
    t, f = m.group(1), m.group(2); sg = t in SIGNED
    a = args[0]; b = args[1] if len(args) > 1 else None
    w = a.size() if is_bv(a) else None
    if f == 'wrapping_add': return a + b
    if f == 'wrapping_sub': return a - b
    if f == 'wrapping_mul': return a * b
    if f == 'wrapping_neg': return -a
    if f == 'wrapping_abs': return If(a < 0, -a, a)
    if f in ('wrapping_div', 'wrapping_rem'):
        nz = b != 0
        st.path.oblige('no panic: %s by zero' % f, nz, callee); st.path.assume(nz)
        if not sg: return UDiv(a, b) if f == 'wrapping_div' else URem(a, b)
        mn = BitVecVal(-(2 ** (w - 1)), w); ovf = And(a == mn, b == BitVecVal(-1, w))
        return If(ovf, mn if f == 'wrapping_div' else BitVecVal(0, w), (a / b) if f == 'wrapping_div' else SRem(a, b))
    if f in ('wrapping_div_euclid', 'wrapping_rem_euclid', 'div_euclid', 'rem_euclid'):
        nz = b != 0
        st.path.oblige('no panic: %s by zero' % f, nz, callee); st.path.assume(nz)
        div = f.endswith('div_euclid')
        if not sg: return UDiv(a, b) if div else URem(a, b)
        mn = BitVecVal(-(2 ** (w - 1)), w); ovf = And(a == mn, b == BitVecVal(-1, w))
        if not f.startswith('wrapping'):
            st.path.oblige('no panic: %s overflow (MIN by -1)' % f, Not(ovf), callee); st.path.assume(Not(ovf))
        r = SRem(a, b); q = a / b
        if div: return If(ovf, mn, If(r < 0, If(b > 0, q - 1, q + 1), q))
        return If(ovf, BitVecVal(0, w), If(r < 0, If(b < 0, r - b, r + b), r))
    if f == 'saturating_sub' and not sg: return If(ULT(a, b), BitVecVal(0, w), a - b)
    if f == 'saturating_add' and not sg: return If(BVAddNoOverflow(a, b, False), a + b, BitVecVal(2 ** w - 1, w))
    if f == 'saturating_add' and sg:
        return If(BVAddNoOverflow(a, b, True), If(BVAddNoUnderflow(a, b), a + b, BitVecVal(-(2 ** (w - 1)), w)), BitVecVal(2 ** (w - 1) - 1, w))
    if f == 'saturating_sub' and sg:
        return If(BVSubNoOverflow(a, b), If(BVSubNoUnderflow(a, b, True), a - b, BitVecVal(-(2 ** (w - 1)), w)), BitVecVal(2 ** (w - 1) - 1, w))
    if f == 'abs' and sg:
        nov = a != BitVecVal(-(2 ** (w - 1)), w)
        if ex.overflow_checks:
            st.path.oblige('no panic: abs() overflow at MIN', nov, callee); st.path.assume(nov)
        return If(a < 0, -a, a)
    if f == 'min': return If((a < b) if sg else ULT(a, b), a, b)
    if f == 'max': return If((a > b) if sg else UGT(a, b), a, b)
    return NotImplemented


@model(r'^core::bool::<impl bool>::then_some::<.*>$')
def bool_then_some(ex, st, callee, args, m):
    """bool::then_some(v): Some(v) iff the receiver is true"""
    return Enum('Option', bv_of_bool(args[0]), {'Some': [args[1]], 'None': []})


_UF = {}


def uf(name, *sorts):
    k = (name,) + tuple(str(s) for s in sorts)
    if k not in _UF: _UF[k] = z3.Function(name, *sorts)
    return _UF[k]


@model(r'^core::num::<impl (%s)>::(wrapping_pow|pow|saturating_pow)$' % _PRIM)
def int_pow(ex, st, callee, args, m):
    """integer powers with a symbolic exponent: uninterpreted function of (base, exponent) — equalities between identical calls only"""
    a, b = args
    f = uf('%s_%s' % (m.group(2), m.group(1)), a.sort(), b.sort(), a.sort())
    return f(a, b)


@model(r'^(?:std::f64::|core::f64::)?<impl f64>::(powi|powf|ln|log10|log2|exp|sin|cos|tan)$')
def f64_transcendental(ex, st, callee, args, m):
    """powi/powf/ln/exp/trigonometric functions: uninterpreted (never used to prove numeric facts)"""
    f = uf('f64_' + m.group(1), *([a.sort() for a in args] + [F64]))
    return f(*args)


@model(r'^(?:std::f64::|core::f64::)?<impl f64>::(abs|is_nan|is_infinite|is_finite|is_normal|is_subnormal|min|max|floor|ceil|round|trunc|sqrt|is_sign_negative|is_sign_positive|fract|signum|to_bits|from_bits|clamp)$')
def f64_misc(ex, st, callee, args, m):
    """f64 helper methods with IEEE semantics (min/max ignore a NaN operand)"""
    f = m.group(1); a = args[0]; b = args[1] if len(args) > 1 else None
    if f == 'abs': return fpAbs(a)
    if f == 'is_nan': return fpIsNaN(a)
    if f == 'is_infinite': return z3.fpIsInf(a)
    if f == 'is_finite': return Not(Or(fpIsNaN(a), z3.fpIsInf(a)))
    if f == 'is_normal': return z3.fpIsNormal(a)
    if f == 'is_subnormal': return z3.fpIsSubnormal(a)
    if f == 'is_sign_negative': return z3.fpIsNegative(a)
    if f == 'min': return If(fpIsNaN(a), b, If(fpIsNaN(b), a, If(fpLT(b, a), b, a)))
    if f == 'max': return If(fpIsNaN(a), b, If(fpIsNaN(b), a, If(fpGT(b, a), b, a)))
    if f == 'floor': return z3.fpRoundToIntegral(z3.RTN(), a)
    if f == 'ceil': return z3.fpRoundToIntegral(z3.RTP(), a)
    if f == 'trunc': return z3.fpRoundToIntegral(z3.RTZ(), a)
    if f == 'round': return z3.fpRoundToIntegral(z3.RNA(), a)
    if f == 'sqrt': return z3.fpSqrt(_RNE, a)
    if f == 'is_sign_positive': return Not(z3.fpIsNegative(a))
    if f == 'fract': return fpSub(_RNE, a, z3.fpRoundToIntegral(z3.RTZ(), a))       # self - self.trunc()
    if f == 'signum': return If(fpIsNaN(a), a, If(z3.fpIsNegative(a), z3.FPVal(-1.0, F64), z3.FPVal(1.0, F64)))
    if f == 'to_bits':
        # z3's FP sort has a single NaN; a float introduced as `to_fp(bits)` keeps its bit pattern (NaN sign/payload) through to_bits
        if z3.is_app(a) and a.decl().kind() == z3.Z3_OP_FPA_TO_FP and a.num_args() == 1 and is_bv(a.arg(0)): return a.arg(0)
        return z3.fpToIEEEBV(a)
    if f == 'from_bits': return z3.fpBVToFP(a, F64)
    if f == 'clamp':
        lo, hi = args[1], args[2]
        st.path.oblige('no panic: f64::clamp requires min <= max and no NaN bound', And(z3.fpLEQ(lo, hi)), callee); st.path.assume(z3.fpLEQ(lo, hi))
        return If(fpLT(a, lo), lo, If(fpGT(a, hi), hi, a))
    return NotImplemented


@model(r'^<(%s) as (?:std::clone::|core::clone::)?Clone>::clone$' % _PRIM)
def prim_clone(ex, st, callee, args, m):
    """Clone of a Copy primitive"""
    return D(ex, args[0])


@model(r'^<(usize|u64|u32|u16|u8|i64|i32|i16|i8|isize|bool) as (?:std::default::|core::default::)?Default>::default$')
def prim_default(ex, st, callee, args, m):
    """Default of an integer / bool: zero / false"""
    t = m.group(1)
    if t == 'bool': return BoolVal(False)
    return BitVecVal(0, INT_W.get(t, 64))


@model(r'^<&*(usize|u64|u32|u16|u8|i64|i32|i16|i8|isize) as (?:std::cmp::|core::cmp::)?Ord>::(min|max)$')
def prim_ord_minmax(ex, st, callee, args, m):
    """Ord::min / Ord::max on integers"""
    a, b = D(ex, args[0]), D(ex, args[1])
    signed = m.group(1).startswith('i')
    lt = (a < b) if signed else z3.ULT(a, b)
    r = If(lt, a, b) if m.group(2) == 'min' else If(lt, b, a)
    return box(r) if callee.startswith('<&') else r       # Ord on references returns a reference


@model(r'^(?:std::option::|core::option::)?Option::<&(?:mut )?.*>::(copied|cloned)$')
def option_copied(ex, st, callee, args, m):
    """Option<&T>::copied / cloned for plain-data T: Some(&v) -> Some(v)"""
    o = args[0]
    if not isinstance(o, Enum): return NotImplemented
    pay = o.fields.get('Some', [None])[0]
    v = pay
    while isinstance(v, Ptr): v = v.get()
    return Enum('Option', o.disc, {'Some': [v], 'None': []})


@model(r'^<&*(?:std::option::)?Option<(?:std::cmp::)?Ordering> as (?:std::cmp::)?PartialEq>::(eq|ne)$')
def opt_ordering_eq(ex, st, callee, args, m):
    """Option<Ordering> == Option<Ordering>"""
    a, b = D(ex, args[0]), D(ex, args[1])
    def od(o):
        p = o.fields.get('Some')
        return p[0].disc if p and isinstance(p[0], Enum) else BitVecVal(0, 64)
    e = And(a.disc == b.disc, Or(a.disc == 0, od(a) == od(b)))
    return e if m.group(1) == 'eq' else Not(e)


@model(r'^<Box<.*> as (?:std::convert::)?(?:AsRef|AsMut)<.*>>::(as_ref|as_mut)$|^<Box<.*> as (?:std::ops::)?(?:Deref|DerefMut)>::(deref|deref_mut)$')
def box_as_ref(ex, st, callee, args, m):
    """Box<T>::as_ref / deref: the pointer inside the box"""
    p = args[0]
    v = p.get() if isinstance(p, Ptr) else p
    if isinstance(v, Ptr): return v
    return NotImplemented


@model(r'^(?:std::mem::|core::mem::)(?:forget|drop)::<.*>$|^(?:std::mem::|core::mem::)drop$|^drop::<.*>$')
def mem_forget(ex, st, callee, args, m):
    """drop/forget: no-op"""
    return []


@model(r'^(?:std::intrinsics::|core::intrinsics::)?(?:cold_path|assert_inhabited::<.*>)$|^(?:core|std)::hint::assert_unchecked$')
def hint_noop(ex, st, callee, args, m):
    """compiler hints: no-op"""
    return []


@model(r'^<tracing(?:_core)?::(?:metadata::)?Level as (?:std::cmp::|core::cmp::)?PartialOrd<tracing(?:_core)?::(?:metadata::)?LevelFilter>>::(le|lt|ge|gt)$|^<(?:log::)?Level as PartialOrd<(?:log::)?LevelFilter>>::(le|lt|ge|gt)$|^<Level as PartialOrd<LevelFilter>>::(le|lt|ge|gt)$|^<tracing::log::Level as PartialOrd<tracing::log::LevelFilter>>::(le|lt|ge|gt)$')
def tracing_disabled(ex, st, callee, args, m):
    """logging cut: the level test every tracing/log macro starts with is 'statically disabled'"""
    return BoolVal(False)


def generic_hooks():
    return list(GENERIC)
