"""Parser for `rustc -Zunpretty=mir` text (nightly pinned in this sandbox).

Only the constructs that occur in the functions engine M executes are understood; anything
else raises MirSyntax, which the driver reports as *inconclusive* (never as a pass).
"""
import os
import re
from dataclasses import dataclass, field


class MirSyntax(Exception):
    pass


@dataclass
class Func:
    name: str                      # name exactly as printed in the dump
    params: list                   # [(local, type)]
    ret: str
    locals: dict = field(default_factory=dict)
    raw: dict = field(default_factory=dict)      # bb -> list of raw lines
    _parsed: dict = field(default_factory=dict)
    pretty: str = ''               # callee-style name (impl spans resolved)
    crate: str = ''
    debug: dict = field(default_factory=dict)    # source variable name -> local

    def block(self, bb):
        b = self._parsed.get(bb)
        if b is None:
            lines = self.raw[bb]
            b = ([parse_stmt(x) for x in lines[:-1]], parse_term(lines[-1]))
            self._parsed[bb] = b
        return b


def split_top(s, sep=','):
    out, depth, cur = [], 0, []
    n = len(s)
    i = 0
    while i < n:
        c = s[i]
        if c == '"':                       # string literal: skip to closing quote
            j = i + 1
            while j < n and s[j] != '"':
                j += 2 if s[j] == '\\' else 1
            cur.append(s[i:j + 1]); i = j + 1
            continue
        if c == "'":                       # char literal (not a lifetime): brackets and commas inside do not count
            mm = re.match(r"'(\\u\{[0-9a-fA-F]+\}|\\.|[^'\\])'", s[i:])
            if mm:
                cur.append(mm.group(0)); i += mm.end()
                continue
        if c in '([{<':
            depth += 1
        elif c in ')]}':
            depth -= 1
        elif c == '>':
            if not (i > 0 and s[i - 1] in '-='):
                depth -= 1
        if c == sep and depth == 0:
            out.append(''.join(cur).strip()); cur = []
        else:
            cur.append(c)
        i += 1
    t = ''.join(cur).strip()
    if t:
        out.append(t)
    return out


def strip_generics(s):
    """remove every `::<...>` / `<...>` generic argument list at depth 0 of a path (keeps leading `<T as Trait>`)."""
    out = []; i = 0; n = len(s)
    while i < n:
        if s.startswith('::<', i):
            d = 0; j = i + 2
            while j < n:
                if s[j] == '<': d += 1
                elif s[j] == '>' and s[j - 1] not in '-=':
                    d -= 1
                    if d == 0: break
                j += 1
            i = j + 1
            continue
        out.append(s[i]); i += 1
    return ''.join(out)


_HDR = re.compile(r'^fn (.*) \{$')


def _parse_header(hdr):
    depth = 0; p0 = None
    for k, c in enumerate(hdr):
        if c == '<': depth += 1
        elif c == '>' and hdr[k - 1] not in '-=': depth -= 1
        elif c == '{': depth += 1
        elif c == '}': depth -= 1
        elif c == '(' and depth == 0:
            p0 = k; break
    if p0 is None:
        raise MirSyntax('header? ' + hdr)
    name = hdr[:p0]
    d = 0; p1 = None
    for k in range(p0, len(hdr)):
        if hdr[k] == '(': d += 1
        elif hdr[k] == ')':
            d -= 1
            if d == 0: p1 = k; break
    params = []
    for p in split_top(hdr[p0 + 1:p1]):
        m = re.match(r'(_\d+): (.*)', p)
        if m: params.append((m.group(1), m.group(2)))
    ret = hdr[p1 + 1:].strip()
    ret = ret[2:].strip() if ret.startswith('->') else '()'
    return name, params, ret


def _parse_body(lines, i, f):
    """lines[i] is the first line after the header; returns index of the closing `}`"""
    n = len(lines)
    while i < n and lines[i] != '}':
        l = lines[i]
        m = re.match(r'\s+let (?:mut )?(_\d+): (.*);$', l)
        if m:
            f.locals[m.group(1)] = m.group(2)
        else:
            m = re.match(r'\s+debug (\S+) => (_\d+);$', l)
            if m:
                f.debug.setdefault(m.group(1), m.group(2))
            else:
                m = re.match(r'    (bb\d+)(?: \(cleanup\))?: \{$', l)
                if m:
                    cur = m.group(1); body = []
                    i += 1
                    while lines[i] != '    }':
                        s = lines[i].strip()
                        if s and not s.startswith('//'):
                            # strip trailing span comments
                            k = s.find('; //')
                            if k >= 0: s = s[:k + 1]
                            body.append(s)
                        i += 1
                    f.raw[cur] = body
        i += 1
    return i


class Module:
    def __init__(self, crate, text, src_dir):
        self.crate = crate
        self.src_dir = src_dir
        self.funcs = {}            # printed name -> Func (first wins), duplicates in self.dups
        self.consts = {}           # resolved promoted const name -> Func
        self.by_pretty = {}        # callee-style name -> [Func]
        self._src_cache = {}
        self._norm = None
        lines = text.split('\n')
        i = 0; n = len(lines)
        while i < n:
            ln = lines[i]
            if ln.startswith('fn ') and ln.endswith('{'):
                name, params, ret = _parse_header(ln[3:-1].strip())
                f = Func(name, params, ret, crate=crate)
                for l, t in params: f.locals[l] = t
                i = _parse_body(lines, i + 1, f)
                f.pretty = self.resolve(name)
                self.funcs.setdefault(name, f)
                self.by_pretty.setdefault(strip_generics(f.pretty), []).append(f)
            elif ln.startswith(('const ', 'static ', 'promoted[')) and ln.endswith('= {'):
                m = re.match(r'(?:const|static(?: mut)?) (.*): (.*?) = \{$', ln)
                if m:
                    f = Func(m.group(1), [], m.group(2), crate=crate)
                    i = _parse_body(lines, i + 1, f)
                    f.pretty = self.resolve(m.group(1))
                    self.consts[f.pretty] = f
            i += 1

    # ---- `<impl at file:l:c: l:c>` resolution from the current source
    def _src(self, rel):
        if rel not in self._src_cache:
            self._src_cache[rel] = None
            for base in (self.src_dir, os.path.dirname(os.path.dirname(self.src_dir))):
                try:
                    self._src_cache[rel] = open(os.path.join(base, rel), encoding='utf-8').read().split('\n')
                    break
                except OSError:
                    pass
        return self._src_cache[rel]

    def _impl_name(self, rel, l0, c0, l1, c1):
        src = self._src(rel)
        if src is None or l0 > len(src):
            return None
        line = src[l0 - 1]
        head = line[c0 - 1:]
        if head.startswith('impl'):
            # join lines until '{'
            txt = head; k = l0
            while '{' not in txt and k < len(src):
                txt += ' ' + src[k].strip(); k += 1
            txt = txt.split('{')[0].strip()
            txt = re.sub(r'\s+where\s.*$', '', txt)
            m = re.match(r'impl(<.*?>)?\s+(.*)$', txt)
            if not m: return None
            body = m.group(2).strip()
            # impl generics can nest: redo bracket matching when impl<...>
            if txt.startswith('impl<'):
                d = 0
                for k2, ch in enumerate(txt[4:]):
                    if ch == '<': d += 1
                    elif ch == '>':
                        d -= 1
                        if d == 0:
                            body = txt[4 + k2 + 1:].strip(); break
            if ' for ' in body:
                tr, ty = body.split(' for ', 1)
                return '<%s as %s>' % (_short_ty(ty), _short_ty(tr))
            return _short_ty(body)
        # derive(...) span: the trait is the spanned word, the type is the next item
        word = line[c0 - 1:c1 - 1] if l0 == l1 else line[c0 - 1:]
        k = l0 - 1
        while k < len(src):
            m = re.match(r'\s*(?:pub(?:\([^)]*\))?\s+)?(?:struct|enum|union)\s+(\w+)', src[k])
            if m:
                return '<%s as %s>' % (m.group(1), word)
            k += 1
        return None

    def resolve(self, name):
        def rep(m):
            r = self._impl_name(m.group(1), int(m.group(2)), int(m.group(3)), int(m.group(4)), int(m.group(5)))
            return r if r else m.group(0)
        s = re.sub(r'<impl at ([^:>]+):(\d+):(\d+): (\d+):(\d+)>', rep, name)
        # drop leading module path before a resolved impl (`arena::ZddArena::f` -> `ZddArena::f`), callee style
        m = re.match(r'^(?:[a-z_0-9]+::)+((?:<|[A-Z]).*)$', s)
        if m and s != name:
            s = m.group(1)
        return s

    def find(self, callee):
        """defs whose callee-style name equals `callee` (generic arguments ignored)"""
        key = strip_generics(callee)
        r = self.by_pretty.get(key)
        if r: return r
        # module paths in front of type names (`varpulis_core::Value::as_bool`, `<varpulis_core::Value as PartialEq>::eq`)
        nk = norm_path(key)
        if self._norm is None:
            self._norm = {}
            for k, v in self.by_pretty.items(): self._norm.setdefault(norm_path(k), []).extend(v)
        r = self._norm.get(nk)
        if r: return r
        # callee printed with a module path (free fn in other module) or without one
        tail = key.split('::')[-1]
        if '::' not in key or re.match(r'^(?:[a-z_0-9]+::)+[a-z_0-9]+$', key):
            r = [f for f in self.by_pretty.get(tail, [])]
            if r: return r
        return []

    def find_const(self, name):
        if name in self.consts: return self.consts[name]
        key = strip_generics(name)
        for k, f in self.consts.items():
            kk = strip_generics(k)
            if kk == key or kk.endswith('::' + key) or key.endswith('::' + kk):
                return f
        # compare on the last three path segments (Type::fn::promoted[k])
        tail = '::'.join(key.split('::')[-3:])
        c = [f for k, f in self.consts.items() if strip_generics(k).endswith(tail)]
        return c[0] if len(c) == 1 else None


def norm_path(p):
    """drop lower-case module prefixes in front of capitalised path segments and lifetimes in generic lists"""
    p = re.sub(r"<'\w+>", '', p)
    return re.sub(r'\b(?:[a-z_][a-z_0-9]*::)+(?=[A-Z])', '', p)


def _short_ty(t):
    t = t.strip()
    # drop leading module paths of plain paths: a::b::C<T> -> C<T>
    t = re.sub(r'\b(?:[a-z_][a-z_0-9]*::)+', '', t)
    return t


# ---------------------------------------------------------------- places / operands
def parse_place(s, i=0):
    """(place, next).  place = ('local', n) | ('deref', p) | ('field', p, k, ty) | ('downcast', p, variant)
    | ('index', p, local) | ('cindex', p, k, from_end) | ('subslice', p, a, b, from_end)"""
    if s[i] == '_':
        m = re.match(r'_\d+', s[i:]); p = ('local', m.group(0)); i += m.end()
    elif s[i] == '(':
        if s[i + 1] == '*':
            inner, j = parse_place(s, i + 2)
            if s[j] != ')': raise MirSyntax('place? ' + s[i:])
            p = ('deref', inner); i = j + 1
        else:
            inner, j = parse_place(s, i + 1)
            if s[j:].startswith(' as '):
                k = s.index(')', j)
                var = s[j + 4:k]
                if var.startswith('variant#'): var = int(var[8:])
                p = ('downcast', inner, var); i = k + 1
            elif s[j] == '.':
                m = re.match(r'\.(\d+): ', s[j:])
                k = j + m.end(); d = 1; t0 = k
                while d > 0:
                    if s[k] == '(': d += 1
                    elif s[k] == ')': d -= 1
                    k += 1
                p = ('field', inner, int(m.group(1)), s[t0:k - 1]); i = k
            else:
                raise MirSyntax('place? ' + s[i:])
    else:
        raise MirSyntax('place? ' + s[i:])
    while i < len(s) and s[i] == '[':
        k = s.index(']', i)
        ix = s[i + 1:k]
        m = re.match(r'(-?)(\d+) of (\d+)$', ix)
        m2 = re.match(r'(\d+):(-?)(\d*)$', ix)
        if m: p = ('cindex', p, int(m.group(2)), m.group(1) == '-')
        elif m2: p = ('subslice', p, int(m2.group(1)), int(m2.group(3) or 0), m2.group(2) == '-')
        else: p = ('index', p, ix)
        i = k + 1
    return p, i


def parse_operand(s):
    s = s.strip()
    if s.startswith('copy '): return ('copy', parse_place(s[5:])[0])
    if s.startswith('move '): return ('move', parse_place(s[5:])[0])
    if s.startswith('const '): return ('const', s[6:])
    return ('const', 'fnitem ' + s)


BINOPS = {'Add', 'Sub', 'Mul', 'Div', 'Rem', 'BitAnd', 'BitOr', 'BitXor', 'Shl', 'Shr', 'Eq', 'Lt', 'Le', 'Ne', 'Ge', 'Gt',
          'AddWithOverflow', 'SubWithOverflow', 'MulWithOverflow', 'Cmp', 'AddUnchecked', 'SubUnchecked', 'MulUnchecked',
          'ShlUnchecked', 'ShrUnchecked', 'Offset'}
UNOPS = {'Not', 'Neg', 'PtrMetadata'}


def parse_rvalue(s):
    s = s.strip()
    if s.startswith(('copy ', 'move ', 'const ')):
        m = re.match(r'(.*) as (.*) \((\w+(?:\(.*\))?)\)$', s)
        if m and (not s.startswith('const ') or re.match(r'const (?:[-\w\.]+|(?:\w+::)*<impl \w+>::\w+) as ', s)):
            return ('cast', parse_operand(m.group(1)), m.group(2), m.group(3))
        return ('use', parse_operand(s))
    if s.startswith('&raw '): return ('ref', parse_place(s.split(' ', 2)[2])[0])
    if s.startswith('&mut '): return ('ref', parse_place(s[5:])[0])
    if s.startswith('&fake '): return ('ref', parse_place(s.split(' ', 2)[2])[0])
    if s.startswith('&'): return ('ref', parse_place(s[1:])[0])
    if s.startswith('no_retag '): return parse_rvalue(s[9:])
    if s.startswith('discriminant('): return ('discr', parse_place(s[13:-1])[0])
    if s.startswith('Len('): return ('len', parse_place(s[4:-1])[0])
    if s.startswith('CopyForDeref('): return ('use', ('copy', parse_place(s[13:-1])[0]))
    if s.startswith('ShallowInitBox('):
        a = split_top(s[15:-1]); return ('use', parse_operand(a[0]))
    m = re.match(r'(\w+)\((.*)\)$', s)
    if m and m.group(1) in BINOPS:
        a, b = split_top(m.group(2)); return ('binop', m.group(1), parse_operand(a), parse_operand(b))
    if m and m.group(1) in UNOPS:
        return ('unop', m.group(1), parse_operand(m.group(2)))
    if s == '()': return ('tuple', [])
    if s.startswith('[') and s.endswith(']'):
        parts = split_top(s[1:-1], ';')
        if len(parts) == 2:
            return ('repeat', parse_operand(parts[0]), parts[1])
        return ('array', [parse_operand(x) for x in split_top(s[1:-1])])
    if s.startswith('{closure@') or s.startswith('{coroutine@'):
        k = s.index('}') + 1
        body = s[k:].strip()
        fs = [] if body in ('', '{ }') else [x.split(': ', 1) for x in split_top(body[2:-2])]
        return ('closure', s[:k], [(a, parse_operand(b)) for a, b in fs])
    if re.match(r'^\w+$', s): return ('adt', '', s, [])
    if s.startswith('(') and s.endswith(')'):
        return ('tuple', [parse_operand(x) for x in split_top(s[1:-1])])
    m = re.match(r'(.+?)::(\w+)\((.*)\)$', s)
    if m and _balanced(m.group(1)):
        return ('adt', m.group(1), m.group(2), [parse_operand(x) for x in split_top(m.group(3))])
    m = re.match(r'(.+?) \{ (.*) \}$', s)
    if m and _balanced(m.group(1)):
        fs = [x.split(': ', 1) for x in split_top(m.group(2))]
        path = m.group(1)
        # `Enum::Variant { f: v }` vs `Struct { f: v }`
        return ('struct', path, [(k, parse_operand(v)) for k, v in fs])
    m = re.match(r'(.+)::(\w+)$', s)
    if m: return ('adt', m.group(1), m.group(2), [])
    m = re.match(r'(\w+)\((.*)\)$', s)
    if m: return ('adt', '', m.group(1), [parse_operand(x) for x in split_top(m.group(2))])
    raise MirSyntax('rvalue? ' + s)


def _balanced(s):
    d = 0
    for k, c in enumerate(s):
        if c in '<([': d += 1
        elif c in ')]': d -= 1
        elif c == '>' and s[k - 1] not in '-=': d -= 1
    return d == 0


_NOPS = ('StorageLive', 'StorageDead', 'nop', 'FakeRead', 'PlaceMention', 'AscribeUserType', 'Retag', 'Coverage', 'Deinit',
         'ConstEvalCounter', 'BackwardIncompatibleDropHint')


def parse_stmt(s):
    s = s.rstrip(';')
    m = re.match(r'discriminant\((.*)\) = (\d+)$', s)
    if m: return ('setdiscr', parse_place(m.group(1))[0], int(m.group(2)))
    if s.startswith(_NOPS): return ('nop',)
    if s.startswith('assume('): return ('assume', parse_operand(s[7:-1]))
    lhs, i = parse_place(s)
    if s[i:i + 3] != ' = ': raise MirSyntax('stmt? ' + s)
    return ('assign', lhs, parse_rvalue(s[i + 3:]))


def parse_targets(t):
    d = {}
    for x in split_top(t):
        if ':' in x:
            k, v = x.split(':', 1); d[k.strip()] = v.strip()
        else:
            k, _, v = x.partition(' '); d[k.strip()] = v.strip()
    return d


def parse_term(s):
    s = s.rstrip(';')
    if s == 'return': return ('return',)
    if s in ('unreachable',): return ('unreachable',)
    if s.startswith(('resume', 'abort', 'terminate')): return ('resume',)
    m = re.match(r'goto -> (bb\d+)$', s)
    if m: return ('goto', m.group(1))
    m = re.match(r'(?:falseEdge|falseUnwind) -> \[real: (bb\d+),.*\]$', s)
    if m: return ('goto', m.group(1))
    m = re.match(r'switchInt\((.*)\) -> \[(.*)\]$', s)
    if m: return ('switch', parse_operand(m.group(1)), parse_targets(m.group(2)))
    m = re.match(r'drop\((.*)\) -> \[(.*)\]$', s)
    if m: return ('goto', parse_targets(m.group(2))['return'])
    m = re.match(r'assert\((!?)(.*?), "(.*)"(?:, .*)?\) -> \[(.*)\]$', s)
    if m: return ('assert', m.group(1) == '!', parse_operand(m.group(2)), m.group(3), parse_targets(m.group(4))['success'])
    m = re.match(r'(.*) -> \[(.*)\]$', s)
    if m:
        call, tg = m.group(1), parse_targets(m.group(2))
        lhs, i = parse_place(call)
        if call[i:i + 3] != ' = ': raise MirSyntax('term? ' + s)
        callee, args = _split_call(call[i + 3:])
        return ('call', lhs, callee, args, tg.get('return'))
    m = re.match(r'(.*) -> unwind .*$', s)
    if m:
        call = m.group(1)
        lhs, i = parse_place(call)
        callee, args = _split_call(call[i + 3:])
        return ('diverge', callee, args)
    raise MirSyntax('term? ' + s)


def _mask_literals(c):
    """same-length copy of c with the contents of string and char literals blanked (so that brackets inside them do not count)"""
    out = list(c); n = len(c); i = 0
    while i < n:
        if c[i] == '"':
            j = i + 1
            while j < n and c[j] != '"':
                j += 2 if c[j] == '\\' else 1
            for k in range(i + 1, min(j, n)): out[k] = '_'
            i = j + 1; continue
        if c[i] == "'":
            m = re.match(r"'(\\u\{[0-9a-fA-F]+\}|\\.|[^'\\])'", c[i:])
            if m:
                for k in range(i + 1, i + m.end() - 1): out[k] = '_'
                i += m.end(); continue
        i += 1
    return ''.join(out)


def _split_call(c):
    return _split_call_at(c, _mask_literals(c))


def _split_call_at(orig, masked):
    d = 0; k = len(masked) - 1
    if masked[k] != ')': raise MirSyntax('call? ' + orig)
    while True:
        if masked[k] == ')': d += 1
        elif masked[k] == '(':
            d -= 1
            if d == 0: break
        k -= 1
    callee = orig[:k]
    if callee.startswith(('move ', 'copy ')):
        callee = ('indirect', parse_operand(callee))
    return callee, [parse_operand(x) for x in split_top(orig[k + 1:-1])]


def _split_call_masked(c):
    d = 0; k = len(c) - 1
    if c[k] != ')': raise MirSyntax('call? ' + c)
    while True:
        if c[k] == ')': d += 1
        elif c[k] == '(':
            d -= 1
            if d == 0: break
        k -= 1
    callee = c[:k]
    if callee.startswith(('move ', 'copy ')):
        callee = ('indirect', parse_operand(callee))
    return callee, [parse_operand(x) for x in split_top(c[k + 1:-1])]


# ---------------------------------------------------------------- enum variant tables from source
def enum_variants(src_dirs):
    """{EnumName: [variant names in declaration order]} parsed from the crates' current source."""
    out = {}
    for d in src_dirs:
        for root, _, files in os.walk(d):
            for fn in files:
                if not fn.endswith('.rs'): continue
                try:
                    txt = open(os.path.join(root, fn), encoding='utf-8').read()
                except OSError:
                    continue
                txt = re.sub(r'//[^\n]*', '', txt)
                for m in re.finditer(r'\benum\s+(\w+)\s*(?:<[^{]*>)?\s*(?:where[^{]*)?\{', txt):
                    name = m.group(1); i = m.end(); depth = 1; body = []
                    while i < len(txt) and depth > 0:
                        c = txt[i]
                        if c == '{' or c == '(' or c == '[': depth += 1
                        elif c == '}' or c == ')' or c == ']': depth -= 1
                        if depth >= 1: body.append(c if (depth == 1 and c not in ')]}') else ' ')
                        i += 1
                    b = ''.join(body)
                    vs = []; nxt = 0; dv = {}
                    for part in b.split(','):
                        mm = re.match(r'[\s#]*(\w+)\s*(?:=\s*(-?\d+))?', part)
                        if mm:
                            vs.append(mm.group(1))
                            if mm.group(2) is not None: nxt = int(mm.group(2))
                            dv[mm.group(1)] = nxt; nxt += 1
                    if name not in out:
                        out[name] = vs
                        if any(dv[v] != i for i, v in enumerate(vs)): EXPLICIT_DISCR[name] = dv
    return out


EXPLICIT_DISCR = {'Ordering': {'Less': -1, 'Equal': 0, 'Greater': 1}}
