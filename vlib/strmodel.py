"""Character-sequence model of `str` / `String` for the MIR executor.

A string is a Python list of characters (z3 BitVec(32) terms: concrete code points or symbols ranging over a finite alphabet).  The number of
characters is concrete; UTF-8 widths, hence every byte offset, are symbolic terms.  Byte-indexed operations (slicing, `get`) resolve the offset
against the character boundaries with a fork and raise the standard library's panics as obligations ("byte index is not a char boundary").
Character predicates (is_alphanumeric, is_whitespace, ...) are tables read from the real std through the native helper (`replay-lsp chartable`),
exact on ASCII and on the alphabet the symbolic characters range over.
"""
import re

import z3
from z3 import BitVecVal, And, Or, Not, If, BoolVal, ULE, ULT

from .symex import Ptr, Opaque, box, Enum, Fork, Inline, Unsupported, StrConst, Closure, FnItem
from .containers import ListModel, Iter, call_closure
from .models import some, none, option, USED

NL = 10


class CStr:
    def __init__(self, cs, owned=False):
        self.cs = list(cs); self.owned = owned
    def __repr__(self): return 'CStr(%s)' % ','.join(str(z3.simplify(c)) if z3.is_expr(c) else str(c) for c in self.cs)
    def mir_len(self, ex): return blen(self.cs)


def lit_chars(lit):
    """characters of a Rust string literal as printed in MIR (`"a\\n\\u{e9}"`)"""
    body = lit[1:-1] if lit.startswith('"') else lit
    out = []; i = 0
    while i < len(body):
        ch = body[i]
        if ch == '\\' and i + 1 < len(body):
            n = body[i + 1]
            if n == 'u':
                j = body.index('}', i); out.append(int(body[i + 3:j], 16)); i = j + 1; continue
            if n == 'x':
                out.append(int(body[i + 2:i + 4], 16)); i += 4; continue
            out.append({'n': 10, 'r': 13, 't': 9, '0': 0, '\\': 92, '"': 34, "'": 39}[n]); i += 2; continue
        out.append(ord(ch)); i += 1
    return [BitVecVal(c, 32) for c in out]


def width(c):
    return If(ULT(c, 0x80), BitVecVal(1, 64), If(ULT(c, 0x800), BitVecVal(2, 64), If(ULT(c, 0x10000), BitVecVal(3, 64), BitVecVal(4, 64))))


def blen(cs):
    t = BitVecVal(0, 64)
    for c in cs: t = t + width(c)
    return z3.simplify(t)


def prefix(cs, k): return blen(cs[:k])


class Chars:
    """predicate tables for ASCII + alphabet, from the real std"""
    def __init__(self, table):
        self.t = {int(k): v for k, v in table.items()}
    def pred(self, name, c):
        cs = z3.simplify(c)
        if z3.is_bv_value(cs):
            row = self.t.get(cs.as_long())
            if row is None: raise Unsupported('character U+%04X outside the predicate table' % cs.as_long())
            return BoolVal(bool(row[name]))
        yes = [k for k, v in self.t.items() if v[name]]
        return Or(*[c == k for k in yes]) if yes else BoolVal(False)


def S(ex, a):
    v = a
    while isinstance(v, Ptr): v = v.get()
    if isinstance(v, CStr): return v
    if isinstance(v, StrConst): return CStr(lit_chars(v.lit))
    raise Unsupported('string expected, got %r' % (v,))


def sref(cs): return box(CStr(cs))


def seq_eq(a, b):
    if len(a) != len(b): return BoolVal(False)
    return z3.simplify(And(*[x == y for x, y in zip(a, b)])) if a else BoolVal(True)


def match_at(cs, i, pat):
    if i + len(pat) > len(cs): return BoolVal(False)
    return seq_eq(cs[i:i + len(pat)], pat)


def is_true(b): return z3.is_true(z3.simplify(b))
def is_false(b): return z3.is_false(z3.simplify(b))


def boundary_fork(ex, st, s, off, what, on_hit, on_miss=None, where=''):
    """resolve byte offset `off` in string s against the character boundaries: on_hit(k) for boundary k; a miss is a panic obligation
    (on_miss None) or on_miss()"""
    n = len(s.cs)
    conds = [off == prefix(s.cs, k) for k in range(n + 1)]
    anyc = z3.simplify(Or(*conds))
    if on_miss is None:
        st.path.oblige('no panic: %s is on a char boundary inside the string' % what, anyc, where); st.path.assume(anyc)
    alts = []
    for k in range(n + 1):
        if is_false(conds[k]): continue
        alts.append((conds[k], (lambda k: lambda ex, st, a: on_hit(k))(k)))
    if on_miss is not None and not is_true(anyc):
        alts.append((Not(anyc), lambda ex, st, a: on_miss()))
    if len(alts) == 1 and (on_miss is None or is_true(alts[0][0])): return alts[0][1](ex, st, None)
    if not alts: raise Unsupported('no feasible boundary for %s' % what)
    return Fork(alts)


class EachChar:
    """continuation: evaluate a char predicate (closure / fn item) on chars one after the other, then finish(list of Bool)"""
    def __init__(self, clo, chars, finish, by_ref=False):
        self.clo, self.chars, self.finish, self.res, self.i, self.by_ref = clo, list(chars), finish, [], 0, by_ref

    def next(self, ex, st):
        while self.i < len(self.chars):
            c = self.chars[self.i]; self.i += 1
            r = call_closure(ex, self.clo, [box(c) if self.by_ref else c], cont=self, st=st)
            if isinstance(r, Inline): return r
            if isinstance(r, Fork): raise Unsupported('forking model used as a char predicate')
            self.res.append(r)
        return self.finish(self.res)

    def step(self, ex, st, rv):
        self.res.append(rv)
        return self.next(ex, st)


def first_index_value(cs, hits):
    """Option<usize>: byte offset of the first position whose hit condition holds"""
    anyh = z3.simplify(Or(*hits)) if hits else BoolVal(False)
    v = BitVecVal(0, 64)
    for k in reversed(range(len(hits))): v = If(hits[k], prefix(cs, k), v)
    return option(anyh, z3.simplify(v))


def last_index_value(cs, hits):
    anyh = z3.simplify(Or(*hits)) if hits else BoolVal(False)
    v = BitVecVal(0, 64)
    for k in range(len(hits)): v = If(hits[k], prefix(cs, k), v)
    return option(anyh, z3.simplify(v))


def hooks(chars):
    P = chars.pred

    def h_len(ex, st, callee, args): return blen(S(ex, args[0]).cs)
    def h_is_empty(ex, st, callee, args): return BoolVal(len(S(ex, args[0]).cs) == 0)
    def h_chars(ex, st, callee, args): return Iter(ListModel(S(ex, args[0]).cs, kind='Chars'), by_value=True)

    def h_char_indices(ex, st, callee, args):
        s = S(ex, args[0])
        return Iter(ListModel([[prefix(s.cs, k), c] for k, c in enumerate(s.cs)], kind='CharIndices'), by_value=True)

    def split_lines(s):
        """str::lines on a string whose newline positions are concrete (symbolic characters are constrained != '\\n' by the caller)"""
        lines, cur = [], []
        for c in s.cs:
            cc = z3.simplify(c)
            if z3.is_bv_value(cc) and cc.as_long() == NL:
                lines.append(cur); cur = []
            else:
                cur.append(c)
        if cur: lines.append(cur)
        return lines

    def h_lines(ex, st, callee, args):
        s = S(ex, args[0])
        for c in s.cs:
            cc = z3.simplify(c)
            if not z3.is_bv_value(cc):
                st.path.assume(And(c != NL, c != 13))       # symbolic characters are never line terminators (newline structure is enumerated)
            elif cc.as_long() == 13:
                raise Unsupported('carriage return in a modelled document')
        return Iter(ListModel([sref(l) for l in split_lines(s)], kind='Lines'), by_value=True)

    def h_lines_nth(ex, st, callee, args):
        it = ex.deref(args[0]); n = args[1]
        if not isinstance(it, Iter) or it.src.kind != 'Lines': return NotImplemented
        rem = it.src.items[it.pos:it.end]
        alts = [(n == k, (lambda k: lambda ex, st, a: some(rem[k]))(k)) for k in range(len(rem))]
        alts.append((Not(ULT(n, len(rem))), lambda ex, st, a: none()))
        return Fork(alts)

    def rng(r, n_args):
        r = r if isinstance(r, list) else [r]
        return r

    def slice_from(ex, st, callee, args, lo=None, hi=None, opt=False):
        s = S(ex, args[0])
        def with_lo(k0):
            if hi is None: return sref(s.cs[k0:]) if not opt else some(sref(s.cs[k0:]))
            def with_hi(k1):
                return sref(s.cs[k0:k1]) if not opt else some(sref(s.cs[k0:k1]))
            if opt:
                return boundary_fork(ex, st, s, hi, 'range end', lambda k1: (with_hi(k1) if k1 >= k0 else none()), on_miss=lambda: none(), where=callee)
            okc = ULE(lo if lo is not None else BitVecVal(0, 64), hi)
            st.path.oblige('no panic: slice start <= end', okc, callee); st.path.assume(okc)
            return boundary_fork(ex, st, s, hi, 'range end', with_hi, where=callee)
        if lo is None: return with_lo(0)
        if opt: return boundary_fork(ex, st, s, lo, 'range start', with_lo, on_miss=lambda: none(), where=callee)
        return boundary_fork(ex, st, s, lo, 'range start', with_lo, where=callee)

    def h_index_from(ex, st, callee, args): return slice_from(ex, st, callee, args, lo=rng(args[1], 1)[0])
    def h_index_to(ex, st, callee, args): return slice_from(ex, st, callee, args, hi=rng(args[1], 1)[0])
    def h_index_range(ex, st, callee, args): r = rng(args[1], 2); return slice_from(ex, st, callee, args, lo=r[0], hi=r[1])
    def h_get_range(ex, st, callee, args): r = rng(args[1], 2); return slice_from(ex, st, callee, args, lo=r[0], hi=r[1], opt=True)

    def pat_kind(callee):
        m = re.search(r'::(?:starts_with|ends_with|strip_prefix|strip_suffix|find|rfind|contains)::<(.*)>$', callee)
        t = m.group(1) if m else ''
        if t in ('&str', '&&str', '&String', '&std::string::String'): return 'str'
        if t == 'char': return 'char'
        return 'fn'

    def h_starts_with(ex, st, callee, args):
        s = S(ex, args[0]); k = pat_kind(callee)
        if k == 'str': return match_at(s.cs, 0, S(ex, args[1]).cs)
        if k == 'char': return (s.cs[0] == args[1]) if s.cs else BoolVal(False)
        if not s.cs: return BoolVal(False)
        return EachChar(args[1], s.cs[:1], lambda r: r[0]).next(ex, st)

    def h_ends_with(ex, st, callee, args):
        s = S(ex, args[0]); k = pat_kind(callee)
        if k == 'str':
            p = S(ex, args[1]).cs
            return match_at(s.cs, len(s.cs) - len(p), p) if len(p) <= len(s.cs) else BoolVal(False)
        if k == 'char': return (s.cs[-1] == args[1]) if s.cs else BoolVal(False)
        if not s.cs: return BoolVal(False)
        return EachChar(args[1], s.cs[-1:], lambda r: r[0]).next(ex, st)

    def h_strip_prefix(ex, st, callee, args):
        s = S(ex, args[0]); k = pat_kind(callee)
        if k == 'str':
            p = S(ex, args[1]).cs
            return option(match_at(s.cs, 0, p), sref(s.cs[len(p):]))
        if k == 'char':
            return option((s.cs[0] == args[1]) if s.cs else BoolVal(False), sref(s.cs[1:]))
        raise Unsupported('strip_prefix with a closure')

    def h_strip_suffix(ex, st, callee, args):
        s = S(ex, args[0]); k = pat_kind(callee)
        if k == 'str':
            p = S(ex, args[1]).cs
            return option(match_at(s.cs, len(s.cs) - len(p), p) if len(p) <= len(s.cs) else BoolVal(False), sref(s.cs[:max(0, len(s.cs) - len(p))]))
        if k == 'char':
            return option((s.cs[-1] == args[1]) if s.cs else BoolVal(False), sref(s.cs[:-1]))
        raise Unsupported('strip_suffix with a closure')

    def hits_for(ex, s, callee, pat):
        k = pat_kind(callee)
        if k == 'str':
            p = S(ex, pat).cs
            return [match_at(s.cs, i, p) for i in range(len(s.cs) + 1)] if p else [BoolVal(True)]
        if k == 'char': return [c == pat for c in s.cs]
        return None

    def h_find(ex, st, callee, args):
        s = S(ex, args[0]); hits = hits_for(ex, s, callee, args[1])
        if hits is not None: return first_index_value(s.cs, hits)
        return EachChar(args[1], s.cs, lambda r: first_index_value(s.cs, r)).next(ex, st)

    def h_rfind(ex, st, callee, args):
        s = S(ex, args[0]); hits = hits_for(ex, s, callee, args[1])
        if hits is not None: return last_index_value(s.cs, hits)
        return EachChar(args[1], s.cs, lambda r: last_index_value(s.cs, r)).next(ex, st)

    def h_contains(ex, st, callee, args):
        s = S(ex, args[0]); hits = hits_for(ex, s, callee, args[1])
        if hits is not None: return z3.simplify(Or(*hits)) if hits else BoolVal(False)
        return EachChar(args[1], s.cs, lambda r: (z3.simplify(Or(*r)) if r else BoolVal(False))).next(ex, st)

    def h_trim(ex, st, callee, args):
        s = S(ex, args[0]); kind = callee.rsplit('::', 1)[1]
        ws = [P('ws', c) for c in s.cs]
        n = len(s.cs)
        def lead(a_): return And(*(ws[:a_] + ([Not(ws[a_])] if a_ < n else [])))        # exactly a_ leading whitespace characters
        def trail(b_): return And(*(ws[b_:] + ([Not(ws[b_ - 1])] if b_ > 0 else [])))   # the trimmed string ends at character b_
        cands = []
        if kind == 'trim_start': cands = [(lead(a_), a_, n) for a_ in range(n + 1)]
        elif kind == 'trim_end': cands = [(trail(b_), 0, b_) for b_ in range(n + 1)]
        else:
            cands = [(And(*ws) if ws else BoolVal(True), n, n)]
            cands += [(And(lead(a_), trail(b_)), a_, b_) for a_ in range(n) for b_ in range(a_ + 1, n + 1)]
        alts = []
        for c, a_, b_ in cands:
            c = z3.simplify(c)
            if is_false(c): continue
            alts.append((c, (lambda a_, b_: lambda ex, st, a: sref(s.cs[a_:b_]))(a_, b_)))
        if len(alts) == 1: return alts[0][1](ex, st, None)
        return Fork(alts)

    def h_to_string(ex, st, callee, args): return CStr(S(ex, args[0]).cs, owned=True)
    def h_as_ref(ex, st, callee, args): return box(S(ex, args[0]))
    def h_eq(ex, st, callee, args): return seq_eq(S(ex, args[0]).cs, S(ex, args[1]).cs)
    def h_ne(ex, st, callee, args): return Not(seq_eq(S(ex, args[0]).cs, S(ex, args[1]).cs))

    def h_collect_string(ex, st, callee, args):
        it = ex.deref(args[0])
        if not isinstance(it, Iter) or it.stages: return NotImplemented
        items = it.src.items[it.pos:it.end]
        out = []
        for x in items:
            while isinstance(x, Ptr): x = x.get()
            out.append(x)
        return CStr(out, owned=True)

    def h_char_pred(name):
        def h(ex, st, callee, args):
            c = args[0]
            while isinstance(c, Ptr): c = c.get()
            return P(name, c)
        return h

    def h_len_utf8(ex, st, callee, args): return width(args[0])

    def h_u8_pred(name):
        def h(ex, st, callee, args):
            c = args[0]
            while isinstance(c, Ptr): c = c.get()
            return P(name, z3.ZeroExt(24, c))
        return h

    def h_array_into_iter(ex, st, callee, args):
        v = args[0]
        while isinstance(v, Ptr): v = v.get()
        if isinstance(v, list): return Iter(ListModel(v, kind='Array'), by_value=True)
        return NotImplemented

    def h_vec_index_range(ex, st, callee, args):
        v = args[0]
        while isinstance(v, Ptr): v = v.get()
        if not isinstance(v, ListModel): return NotImplemented
        r = args[1]; n = len(v.items)
        if not (isinstance(r, list) and len(r) == 2): raise Unsupported('range value %r' % (r,))
        lo, hi = r
        okc = And(ULE(lo, hi), ULE(hi, n))
        st.path.oblige('no panic: slice range within the vector', okc, callee); st.path.assume(okc)
        alts = []
        for a_ in range(n + 1):
            for b_ in range(a_, n + 1):
                c = z3.simplify(And(lo == a_, hi == b_))
                if is_false(c): continue
                alts.append((c, (lambda a_, b_: lambda ex, st, a: box(ListModel(v.items[a_:b_], kind='Vec')))(a_, b_)))
        if len(alts) == 1: return alts[0][1](ex, st, None)
        return Fork(alts)

    STR = r'(?:core::)?str::<impl str>'
    return [
        (r'^<Vec<.*> as (?:std::ops::)?Index<(?:std::ops::)?Range<usize>>>::index$|^<\[.*\] as (?:std::ops::)?Index<(?:std::ops::)?Range<usize>>>::index$', h_vec_index_range),
        (r'^%s::len$|^(?:std::string::)?String::len$' % STR, h_len), (r'^%s::is_empty$|^(?:std::string::)?String::is_empty$' % STR, h_is_empty),
        (r'^%s::chars$' % STR, h_chars), (r'^%s::char_indices$' % STR, h_char_indices), (r'^%s::lines$' % STR, h_lines),
        (r'^<(?:std::str::)?Lines<\'_> as Iterator>::nth$', h_lines_nth),
        (r'^<str as (?:std::ops::)?Index<(?:std::ops::)?RangeFrom<usize>>>::index$', h_index_from), (r'^<str as (?:std::ops::)?Index<(?:std::ops::)?RangeTo<usize>>>::index$', h_index_to),
        (r'^<str as (?:std::ops::)?Index<(?:std::ops::)?Range<usize>>>::index$', h_index_range), (r'^%s::get::<(?:std::ops::)?Range<usize>>$' % STR, h_get_range),
        (r'^%s::starts_with::<.*>$' % STR, h_starts_with), (r'^%s::ends_with::<.*>$' % STR, h_ends_with),
        (r'^%s::strip_prefix::<.*>$' % STR, h_strip_prefix), (r'^%s::strip_suffix::<.*>$' % STR, h_strip_suffix),
        (r'^%s::find::<.*>$' % STR, h_find), (r'^%s::rfind::<.*>$' % STR, h_rfind), (r'^%s::contains::<.*>$' % STR, h_contains),
        (r'^%s::(trim|trim_start|trim_end)$' % STR, h_trim),
        (r'^<str as ToString>::to_string$|^<(?:std::string::)?String as Clone>::clone$|^<&?str as Into<(?:std::string::)?String>>::into$|^<(?:std::string::)?String as From<&str>>::from$', h_to_string),
        (r'^<(?:std::string::)?String as (?:std::ops::)?Deref>::deref$|^(?:std::string::)?String::as_str$', h_as_ref),
        (r'^<&?&?str as PartialEq(?:<&?&?str>)?>::eq$|^<&?(?:std::string::)?String as PartialEq<&?&?str>>::eq$|^<&?&?str as PartialEq<&?(?:std::string::)?String>>::eq$|^<(?:std::string::)?String as PartialEq>::eq$', h_eq),
        (r'^<&?&?str as PartialEq(?:<&?&?str>)?>::ne$|^<&?(?:std::string::)?String as PartialEq<&?&?str>>::ne$|^<&?&?str as PartialEq<&?(?:std::string::)?String>>::ne$|^<(?:std::string::)?String as PartialEq>::ne$', h_ne),
        (r'^<.* as Iterator>::collect::<(?:std::string::)?String>$', h_collect_string),
        (r'^char::methods::<impl char>::is_alphanumeric$', h_char_pred('alnum')), (r'^char::methods::<impl char>::is_alphabetic$', h_char_pred('alpha')),
        (r'^char::methods::<impl char>::is_whitespace$', h_char_pred('ws')), (r'^char::methods::<impl char>::is_uppercase$', h_char_pred('upper')),
        (r'^char::methods::<impl char>::is_lowercase$', h_char_pred('lower')), (r'^char::methods::<impl char>::is_numeric$', h_char_pred('numeric')),
        (r'^char::methods::<impl char>::is_ascii_digit$', h_char_pred('ascii_digit')), (r'^char::methods::<impl char>::is_ascii_alphanumeric$', h_char_pred('ascii_alnum')),
        (r'^char::methods::<impl char>::is_ascii_alphabetic$', h_char_pred('ascii_alpha')), (r'^char::methods::<impl char>::len_utf8$', h_len_utf8),
        (r'^(?:core::)?num::<impl u8>::is_ascii_alphanumeric$', h_u8_pred('ascii_alnum')),
        (r'^<\[.*; \d+\] as IntoIterator>::into_iter$', h_array_into_iter),
    ]
