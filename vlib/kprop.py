"""Glue between a property module and engine K (vlib/kani.py): harness specs -> obligations / findings."""
from . import kani
from .driver import Finding


class H:
    def __init__(self, name, target, cls, key=None, replay=None, twin=False, text=None, replay_known=None):
        self.replay_known = replay_known   # callable(known_findings entry) -> argv for a listed finding's recorded witness
        self.name = name          # module::harness
        self.target = target      # function(s) of /repo the harness drives
        self.cls = cls            # input class / bound description
        self.key = key or '%s:%s' % (target, cls)
        self.replay = replay      # callable(values: [{'value','bytes'}], failed_checks) -> argv list | None
        self.twin = twin          # assert(false) twin: must FAIL (vacuity guard)
        self.text = text


def le_int(b, signed=False):
    return int.from_bytes(bytes(b), 'little', signed=signed)


def run_harnesses(ctx, crate, specs, jobs=8, harness_timeout=300, total_timeout=3000):
    ctx.engines.append('K (Kani 0.68 / CBMC 6.11 / CaDiCaL)') if not any(e.startswith('K ') for e in ctx.engines) else None
    res, info = kani.run(crate, [s.name for s in specs], jobs=jobs, harness_timeout=harness_timeout, total_timeout=total_timeout)
    ctx.extra.setdefault('kani_runs', []).append(info)
    if info.get('compile_error'):
        ctx.inconclusive.append('Kani could not compile %s against the current tree: %s' % (crate, info['compile_error'][:600]))
    out = {}
    for s in specs:
        r = res[s.name]
        out[s.name] = r
        ctx.queries += 1 + r.covers[1]
        ctx.solver_s += r.time_s
        d = r.as_dict(); d['class'] = s.cls; d['target'] = s.target
        ctx.samples.append(d)
        if s.twin:
            if r.status == 'failed' and not r.unwind_failure:
                ctx.add_obligations(s.target, [{'name': 'vacuity twin %s fails as it must (harness end reachable)' % s.name, 'status': 'proved', 'secs': r.time_s, 'kind': 'twin'}], cls=s.cls)
            else:
                ctx.inconclusive.append('vacuity twin %s did not fail (status %s): harness may be vacuous' % (s.name, r.status))
            continue
        if r.status == 'success':
            if r.covers[1] and r.covers[0] < r.covers[1]:
                ctx.inconclusive.append('harness %s: only %d of %d cover witnesses satisfied (input class not reached)' % (s.name, r.covers[0], r.covers[1]))
                ctx.add_obligations(s.target, [{'name': s.name, 'status': 'unknown', 'secs': r.time_s, 'kind': 'kani'}], cls=s.cls)
            else:
                ctx.add_obligations(s.target, [{'name': s.name + (' [%d cover witnesses]' % r.covers[1] if r.covers[1] else ''), 'status': 'proved', 'secs': r.time_s, 'kind': 'kani'}], cls=s.cls)
        elif r.status == 'failed' and not r.unwind_failure:
            ctx.add_obligations(s.target, [{'name': s.name + ': ' + '; '.join(c for c, _ in r.failed_checks)[:200], 'status': 'violated', 'secs': r.time_s, 'kind': 'kani'}], cls=s.cls)
            cmd = None; vals = None
            key = s.key(r.failed_checks) if callable(s.key) else s.key
            known = getattr(ctx, 'known', {}).get(key)
            if known is not None and known.get('replay') and s.replay_known is not None:
                # a listed finding: confirm natively with its recorded witness instead of a fresh concrete playback
                cmd = s.replay_known(known)
            elif s.replay is not None:
                src, log = kani.playback(crate, s.name)
                vals = kani.concrete_values(src)
                try:
                    cmd = s.replay(vals, r.failed_checks) if vals else None
                except Exception as e:        # decoding problem: finding stays unreplayed -> inconclusive
                    cmd = None
                    ctx.notes.append('playback decode failed for %s: %s' % (s.name, e))
            f = Finding(s.key(r.failed_checks) if callable(s.key) else s.key, (s.text or '%s violated on class %s' % (s.target, s.cls)) + ': ' + '; '.join(c for c, _ in r.failed_checks)[:300], cmd,
                        {'harness': s.name, 'concrete_values': vals})
            if cmd is None:
                f.replay_cmd = ['bash', '-c', 'echo "no native replay available for %s"; exit 3' % s.name]
            ctx.findings.append(f)
        else:
            why = 'unwinding assertion failed (bound too small)' if r.unwind_failure else r.status
            ctx.inconclusive.append('harness %s: %s' % (s.name, why))
            ctx.add_obligations(s.target, [{'name': s.name, 'status': 'unknown', 'secs': r.time_s, 'kind': 'kani'}], cls=s.cls)
    return out
