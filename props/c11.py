"""C11 — evaluating any expression on any event never panics (engine M, both build profiles).

Panic obligations = every MIR `assert` terminator (overflow, division, bounds), every diverging call and every modelled
std panic (Option::unwrap, abs(MIN) ...) reachable in
  * the `Expr::Binary` arm of `eval_expr_with_functions` for every operator and every operand class,
  * the `Expr::Unary` arm,
  * the dispatch on the expression variant (the catch-all arm must not re-enter with the same expression: termination).
"""
import time

import z3
from z3 import BitVecVal, And, Or, Not, BoolVal

from vlib import mirdump, symex, models
from vlib.symex import Ptr, Opaque, box, discharge, State, Enum, Fork
from props import valmodel as V

_MODS = {}
ALL = V.VALUE_CLASSES
# Expr variants whose arms run std iterator/collection/formatting code: stated as outside the Binary/Unary/dispatch claim
COMPLEX_VARIANTS = {'Array', 'Map', 'Index', 'Slice', 'Range', 'Coalesce', 'Member', 'Call', 'If', 'Ident'}


def std_ok(pat, mk):
    """trusted-std model: returns a fresh value, never panics"""
    def h(ex, st, callee, args):
        return mk(ex, st, args)
    return (pat, h)


def extra_hooks():
    fb = lambda ex, st, a: ex.fresh('std_bool', 'bool')
    ff = lambda ex, st, a: ex.fresh('std_f64', 'f64')
    return [
        std_ok(r'^<&?Box<str> as PartialEq>::eq$', fb), std_ok(r'^<&?Box<Vec<.*Value>> as PartialEq>::eq$', fb),
        std_ok(r'^<&?Box<(?:indexmap::)?IndexMap<.*>> as PartialEq>::eq$', fb),
        std_ok(r'^(?:core::)?slice::<impl \[.*Value\]>::contains$', fb), std_ok(r'^(?:indexmap::)?IndexMap::<.*>::contains_key::<.*>$', fb),
        std_ok(r'^(?:core::)?str::<impl str>::contains::<.*>$', fb),
        std_ok(r'^<Box<str> as Into<String>>::into$|^(?:std::)?str::<impl str>::into_string$|^Box::<str>::into_string$|^<Box<str> as Clone>::clone$', lambda ex, st, a: Opaque('string')),
        std_ok(r'^(?:std::string::)?String::push_str$', lambda ex, st, a: []),
        std_ok(r'^<(?:std::string::)?String as Into<Box<str>>>::into$', lambda ex, st, a: box(V.StrTok(ex.fresh('s', 16)))),
        std_ok(r'^<(?:std::string::)?String as Clone>::clone$', lambda ex, st, a: Opaque('string')),
        std_ok(r'^<Box<str> as Deref>::deref$|^<(?:std::string::)?String as Deref>::deref$|^<Arc<str> as Deref>::deref$', lambda ex, st, a: box(Opaque('str'))),
        std_ok(r'^<Box<Vec<.*>> as Deref>::deref$|^<Vec<.*> as Deref>::deref$|^<Box<(?:indexmap::)?IndexMap<.*>> as Deref>::deref$', lambda ex, st, a: box(Opaque('container'))),
    ]


def sym_any(tag):
    return V.sym_value(tag, ALL)


def cls_of(m, v):
    return V.variants()['Value'][m.eval(v.disc, True).as_long()]


def payload_of(m, v, c):
    if c == 'Int': return str(m.eval(v.fields['Int'][0], True).as_signed_long())
    if c == 'Float': return str(m.eval(z3.fpToIEEEBV(v.fields['Float'][0]), True).as_long())
    if c == 'Bool': return 'true' if z3.is_true(m.eval(v.fields['Bool'][0], True)) else 'false'
    return 'x'


def job(kind, op, oc):
    mods = _MODS[oc]
    t0 = time.time()
    l, cl = sym_any('l'); r, cr = sym_any('r')
    st = State(roots={'calls': [0], 'top': None})
    st.path.assume(cl); st.path.assume(cr)
    exprs = V.variants()['Expr']
    hooks = extra_hooks()

    def rec(ex, st_, callee, args):
        c = st_.roots['calls']; c[0] += 1
        if c[0] > 2: raise symex.Unsupported('more than two operand evaluations')
        return Enum('Option', BitVecVal(1, 64), {'Some': [l if c[0] == 1 else r], 'None': []})

    def filt(ex, st_, callee, args):
        # eval_filter_expr(expr, event, ctx) -> eval_expr_with_functions(expr, event, ctx, {}, {}): same expression again
        same = ex.deref(args[0]) is st_.roots['top']
        st_.path.oblige('termination: the catch-all arm re-enters eval_expr_with_functions with the same expression (unbounded recursion -> stack overflow)',
                        BoolVal(not same), 'eval_expr_with_functions', 'termination')
        return Enum('Option', BitVecVal(0, 64), {'Some': [Opaque('x')], 'None': []})
    hooks += [(r'^eval_expr_with_functions$', rec), (r'^eval_filter_expr$', filt)]
    ex = V.ValExec(mods, hooks, overflow_checks=oc)
    f = ex.find_func('eval_expr_with_functions')
    if kind == 'binary':
        ops = V.variants()['BinOp']
        opv = Enum('BinOp', BitVecVal(ops.index(op), 64), {op: []})
        expr = Enum('Expr', BitVecVal(exprs.index('Binary'), 64), {'Binary': [opv, box(Opaque('left-expr')), box(Opaque('right-expr'))]})
    elif kind == 'unary':
        ops = V.variants()['UnaryOp']
        opv = Enum('UnaryOp', BitVecVal(ops.index(op), 64), {op: []})
        expr = Enum('Expr', BitVecVal(exprs.index('Unary'), 64), {'Unary': [opv, box(Opaque('inner-expr'))]})
    else:   # dispatch on variant `op`
        pay = {'Null': [], 'Bool': [z3.Bool('e_b')], 'Int': [z3.BitVec('e_i', 64)], 'Float': [z3.FP('e_f', symex.F64)], 'Str': [Opaque('string')],
               'Duration': [z3.BitVec('e_d', 64)], 'Timestamp': [z3.BitVec('e_t', 64)]}.get(op, [Opaque('p%d' % i) for i in range(4)])
        expr = Enum('Expr', BitVecVal(exprs.index(op), 64), {op: pay})
    st.roots['top'] = expr
    results = ex.run(f, [box(expr), box(Opaque('event')), box(Opaque('ctx')), box(Opaque('functions')), box(Opaque('bindings'))], st=st)
    vs = discharge(ex, results, None)
    out = []
    for v in vs:
        d = {'name': v.name, 'status': v.status, 'secs': v.secs, 'kind': v.kind, 'where': v.where}
        if v.model is not None:
            m = v.model
            lc, rc = cls_of(m, l), cls_of(m, r)
            d.update({'lc': lc, 'l': payload_of(m, l, lc), 'rc': rc, 'r': payload_of(m, r, rc)})
        out.append(d)
    return {'kind': kind, 'op': op, 'oc': oc, 'paths': len(results), 'verdicts': out, 'queries': ex.queries, 'solver_s': ex.solver_s,
            'inconclusive': list(ex.inconclusive), 'wall_s': time.time() - t0, 'panic_paths': len([x for x in results if x.status != 'return'])}


BUILTINS = {'abs': 1, 'sqrt': 1, 'floor': 1, 'ceil': 1, 'round': 1, 'pow': 2, 'log': 1, 'log10': 1, 'exp': 1, 'sin': 1, 'cos': 1, 'tan': 1, 'min': 2, 'max': 2,
            'to_int': 1, 'to_float': 1, 'is_null': 1, 'is_int': 1, 'is_float': 1, 'is_string': 1, 'is_bool': 1, 'is_array': 1, 'is_map': 1}


def builtin_job(name, oc):
    """eval_builtin_function(name, args) for the scalar built-ins: arguments of any scalar class with symbolic payload; panic obligations only"""
    from vlib import containers
    from vlib.symex import StrConst
    from vlib.containers import ListModel
    mods = _MODS[oc]; t0 = time.time(); n = BUILTINS[name]

    def h_streq(ex, st, callee, args):
        a, b = args[0], args[1]
        while isinstance(a, Ptr): a = a.get()
        while isinstance(b, Ptr): b = b.get()
        if isinstance(a, StrConst) and isinstance(b, StrConst): return BoolVal(a.lit == b.lit)
        return NotImplemented
    hooks = [(r'^<&?str as PartialEq(?:<&?str>)?>::eq$', h_streq)] + extra_hooks() + [(rx.pattern, fn) for rx, fn in containers.container_hooks()]
    ex = V.ValExec(mods, hooks, overflow_checks=oc)
    vals = []; st = State()
    for i in range(n):
        # to_int / to_float on a string go through str::parse (std number parsing over the text: outside)
        classes = ['Int', 'Float', 'Null', 'Bool'] if name in ('to_int', 'to_float') else ['Int', 'Float', 'Str', 'Null', 'Bool']
        v, c = V.sym_value('a%d' % i, classes); vals.append(v); st.path.assume(c)
    sl = Ptr([ListModel(vals)], 0, meta=BitVecVal(n, 64))
    results = ex.run(ex.find_func('eval_builtin_function'), [box(StrConst('"%s"' % name)), sl], st=st)
    vs = discharge(ex, results, None)
    out = []
    for v in vs:
        d = {'name': v.name, 'status': v.status, 'secs': v.secs, 'kind': v.kind, 'where': v.where}
        if v.model is not None:
            m = v.model
            lc = cls_of(m, vals[0]); d.update({'lc': lc, 'l': payload_of(m, vals[0], lc)})
            if n > 1:
                rc = cls_of(m, vals[1]); d.update({'rc': rc, 'r': payload_of(m, vals[1], rc)})
        out.append(d)
    return {'kind': 'builtin', 'op': name, 'oc': oc, 'paths': len(results), 'verdicts': out, 'queries': ex.queries, 'solver_s': ex.solver_s,
            'inconclusive': list(ex.inconclusive), 'wall_s': time.time() - t0, 'panic_paths': len([x for x in results if x.status != 'return'])}


def builtin_str_job(name, k, oc):
    """eval_builtin_function("substring" | "len", ...) on a string of k symbolic characters (any code points, so multi-byte ones too) and symbolic
    integer bounds: the index arithmetic and slicing must not panic (character-sequence string model, vlib/strmodel.py)"""
    from vlib import containers, strmodel
    from vlib.symex import StrConst
    from vlib.containers import ListModel
    mods = _MODS[oc]; t0 = time.time()

    def h_streq(ex, st, callee, args):
        a, b = args[0], args[1]
        while isinstance(a, Ptr): a = a.get()
        while isinstance(b, Ptr): b = b.get()
        if isinstance(a, StrConst) and isinstance(b, StrConst): return BoolVal(a.lit == b.lit)
        return NotImplemented

    def h_box_deref(ex, st, callee, args):
        v = args[0]
        while isinstance(v, Ptr): v = v.get()
        return box(v) if isinstance(v, strmodel.CStr) else NotImplemented
    cs = [z3.BitVec('ch%d' % i, 32) for i in range(k)]
    st = State()
    for c in cs: st.path.assume(And(z3.ULT(c, 0x110000), Or(z3.ULT(c, 0xD800), z3.UGT(c, 0xDFFF))))        # any Unicode scalar value
    sval = Enum('Value', BitVecVal(V.vdisc('Str'), 64), {'Str': [box(strmodel.CStr(cs))]})
    nargs = {'len': 1, 'substring2': 2, 'substring3': 3}[name]
    vals = [sval] + [Enum('Value', BitVecVal(V.vdisc('Int'), 64), {'Int': [z3.BitVec('n%d' % i, 64)]}) for i in range(nargs - 1)]
    hooks = [(r'^<&?str as PartialEq(?:<&?str>)?>::eq$', h_streq), (r'^<Box<str> as (?:std::ops::)?Deref>::deref$|^<Arc<str> as (?:std::ops::)?Deref>::deref$', h_box_deref)]
    hooks += strmodel.hooks(strmodel.Chars({})) + [(r'^<(?:std::string::)?String as Into<Box<str>>>::into$|^<(?:std::string::)?String as Into<Arc<str>>>::into$', lambda ex, st, callee, args: box(args[0]))]
    hooks += extra_hooks() + [(rx.pattern, fn) for rx, fn in containers.container_hooks()]
    ex = V.ValExec(mods, hooks, overflow_checks=oc)
    sl = Ptr([ListModel(vals)], 0, meta=BitVecVal(nargs, 64))
    fname = 'len' if name == 'len' else 'substring'
    results = ex.run(ex.find_func('eval_builtin_function'), [box(StrConst('"%s"' % fname)), sl], st=st)
    vs = discharge(ex, results, None)
    out = []
    for v in vs:
        d = {'name': v.name, 'status': v.status, 'secs': v.secs, 'kind': v.kind, 'where': v.where}
        if v.model is not None:
            m = v.model
            d.update({'lc': 'Str', 'l': ''.join('\\u{%x}' % m.eval(c, True).as_long() for c in cs), 'rc': 'Int', 'r': ' '.join(str(m.eval(x.fields['Int'][0], True).as_signed_long()) for x in vals[1:])})
        out.append(d)
    return {'kind': 'builtin', 'op': '%s(str of %d chars)' % (name, k), 'oc': oc, 'paths': len(results), 'verdicts': out, 'queries': ex.queries, 'solver_s': ex.solver_s,
            'inconclusive': list(ex.inconclusive), 'wall_s': time.time() - t0, 'panic_paths': len([x for x in results if x.status != 'return'])}


def _worker(a):
    try:
        if a[0] == 'builtin_str': return builtin_str_job(a[1], a[2], a[3])
        if a[0] == 'builtin': return builtin_job(a[1], a[2])
        return job(*a)
    except Exception as e:
        return {'kind': a[0], 'op': a[1], 'oc': a[2], 'error': '%s: %s' % (type(e).__name__, e), 'verdicts': [], 'paths': 0, 'queries': 0, 'solver_s': 0, 'inconclusive': []}


def load(ctx, profiles):
    for oc in profiles:
        mods = []
        for c in ('runtime', 'core'):
            m, info = mirdump.load(c, overflow_checks=oc)
            mods.append(m)
            if ctx is not None:
                ctx.functions.append({'crate': info['crate'], 'source_hash': info['source_hash'], 'overflow_checks': oc, 'dump_s': info['dump_s']})
        _MODS[oc] = mods


def run(ctx):
    from concurrent.futures import ProcessPoolExecutor
    import multiprocessing as mp
    from vlib import replay
    from vlib.driver import Finding
    profiles = (True, False)
    load(ctx, profiles)
    ctx.engines.append('M (MIR symbolic execution -> Z3)')
    binops = V.variants()['BinOp']; unops = V.variants()['UnaryOp']; exprs = V.variants()['Expr']
    ctx.bounds = {'operators': 'every BinOp (%d) and UnaryOp (%d) variant' % (len(binops), len(unops)), 'operand_values': 'every Value variant; all i64 / f64 / bool payloads symbolic; strings, arrays, maps opaque',
                  'profiles': 'overflow-checks on (dev) and off (release)', 'expr_variants_dispatch': [v for v in exprs if v not in COMPLEX_VARIANTS],
                  'builtins': 'eval_builtin_function for the scalar built-ins %s with arguments of any scalar class (symbolic payloads)' % sorted(BUILTINS),
                  'string_builtins': 'len and substring (2 and 3 arguments) on strings of 0..2 (thorough 3) arbitrary Unicode scalar values with symbolic integer bounds',
                  'outside': 'arms of %s (std iterator/collection/formatting code), the remaining string / array / map built-ins (thin wrappers over std: split, join, replace, sort, range ...), user functions, range sizes' % sorted(COMPLEX_VARIANTS)}
    ctx.assumptions += ['recursive operand evaluations return an arbitrary Some(Value) of any variant', 'std string/collection comparisons and powi/powf do not panic (trusted std; modelled as fresh values)',
                        'float -> int `as` casts saturate (Rust semantics)']
    tasks = []
    for oc in profiles:
        tasks += [('binary', op, oc) for op in binops] + [('unary', op, oc) for op in unops]
        tasks += [('dispatch', v, oc) for v in exprs if v not in COMPLEX_VARIANTS and v not in ('Binary', 'Unary')]
        tasks += [('builtin', b, oc) for b in BUILTINS]
        tasks += [('builtin_str', nm, k, oc) for nm in ('len', 'substring2', 'substring3') for k in range(0, 4 if ctx.tier == 'thorough' else 3)]
    with ProcessPoolExecutor(max_workers=14, mp_context=mp.get_context('fork')) as pool:
        res = list(pool.map(_worker, tasks))
    bins = {}
    for r in res:
        prof = 'dev' if r['oc'] else 'release'
        tgt = ('eval_builtin_function[%s]' % r['op']) if r['kind'] == 'builtin' else 'eval_expr_with_functions[%s %s]' % (r['kind'], r['op'])
        if r.get('error'):
            ctx.inconclusive.append('%s (%s): %s' % (tgt, prof, r['error'])); continue
        for why in r['inconclusive']: ctx.inconclusive.append('%s (%s): %s' % (tgt, prof, why))
        ctx.queries += r['queries']; ctx.solver_s += r['solver_s']
        ctx.add_obligations(tgt, r['verdicts'], cls='profile=%s, operands of any class' % prof)
        if not r['verdicts']:
            # an arm without any panic site: record the path exploration itself
            ctx.add_obligations(tgt, [{'name': 'no panic site reachable on %d explored paths' % r['paths'], 'status': 'proved', 'secs': 0.0, 'kind': 'panic'}], cls='profile=%s' % prof)
        ctx.samples.append({'target': tgt, 'profile': prof, 'paths': r['paths'], 'panic_sites': len(r['verdicts'])})
        for v in r['verdicts']:
            if v['status'] != 'violated': continue
            if v['kind'] == 'termination':
                key = 'eval_expr_with_functions:catch-all:%s' % r['op']
                cmd = ['BIN:%s' % prof, 'recurse', r['op']]
            else:
                key = 'eval_expr_with_functions:%s:%s:%s:%s' % (r['kind'], r['op'], v['name'].replace('no panic: ', '')[:40], prof)
                if r['kind'] == 'builtin' and '(str of' in r['op']:
                    cmd = ['BIN:%s' % prof, 'panic', 'builtinstr', 'len' if r['op'].startswith('len') else 'substring', v.get('l', '')] + [x for x in str(v.get('r', '')).split() if x]
                elif r['kind'] == 'builtin': cmd = ['BIN:%s' % prof, 'panic', 'builtin', r['op'], v.get('lc', 'Null'), v.get('l', 'x'), v.get('rc', 'Null'), v.get('r', 'x')]
                elif r['kind'] == 'binary': cmd = ['BIN:%s' % prof, 'panic', 'binary', r['op'], v.get('lc', 'Null'), v.get('l', 'x'), v.get('rc', 'Null'), v.get('r', 'x')]
                else: cmd = ['BIN:%s' % prof, 'panic', 'unary', r['op'], v.get('lc', 'Null'), v.get('l', 'x')]
            if key in bins: continue
            bins[key] = Finding(key, '%s [%s profile]: %s (operands %s %s / %s %s)' % (tgt, prof, v['name'], v.get('lc'), v.get('l'), v.get('rc'), v.get('r')), cmd, dict(v))
    built = {}
    for f in bins.values():
        prof = f.replay_cmd[0].split(':')[1]
        if prof not in built: built[prof] = replay.build('rt', release=(prof == 'release'))
        f.replay_cmd[0] = built[prof]
        ctx.findings.append(f)
    ctx.models += sorted(models.USED)
