"""C30 — token bucket: never admits more than burst + rate*T, finite retry-after, no panic (engine M, one inductive step).

The private `TokenBucket` is executed from the MIR of varpulis-cluster (no source hook needed) from an ARBITRARY valid
bucket state at an arbitrary later instant of a symbolic monotone clock:

  invariant I:  0 <= tokens <= max_tokens = burst,  refill_rate = rate,  last_update <= now
  step obligations (per call of try_consume):
     no panic;  I is preserved;  last_update' = now;
     refilled = min(tokens + elapsed_secs * rate, max)   (same IEEE operations, and <= the value computed with upward rounding);
     admitted  <=>  refilled >= 1,   tokens' = refilled - 1 if admitted else refilled
  By induction over calls: tokens gained over [t_i, t_j] <= rate * (t_j - t_i) (elapsed times telescope because
  last_update' = now), tokens <= burst at t_i and every admission consumes exactly one token, hence
  admitted(i..j) <= burst + rate * (t_j - t_i) up to the rounding of at most one multiplication/addition per call.
  reset_after / remaining: no panic and a finite Duration for every valid state, including rate 0.
"""
import time

import z3
from z3 import (BitVec, BitVecVal, And, Or, Not, If, ULT, ULE, UGE, UGT, FP, FPVal, fpLEQ, fpGEQ, fpLT, fpIsNaN, fpIsInf, fpAdd, fpMul, fpSub, fpDiv,
                RNE, RTP, fpUnsignedToFP, fpEQ, BoolVal, Function, BitVecSort)

from vlib import mirdump, symex, models
from vlib.symex import Exec, Enum, Ptr, Opaque, box, discharge, State, F64, Fork
from props.zddmodel import struct_fields

NS = 1000000000
_MOD = None


def dur(s, n): return [s, n]


def clock_next(ex, st):
    """a fresh instant >= the previous reading of the virtual clock"""
    s0, n0 = st.roots['clock']
    s1 = ex.fresh('clk_s', 64); n1 = ex.fresh('clk_n', 32)
    st.path.assume(And(ULT(n1, NS), ULE(s1, BitVecVal(1 << 40, 64)), Or(UGT(s1, s0), And(s1 == s0, UGE(n1, n0)))))
    st.roots['clock'] = (s1, n1)
    return [s1, n1]


def h_now(ex, st, callee, args):
    return clock_next(ex, st)


def h_duration_since(ex, st, callee, args):
    a = ex.deref(args[0]); b = ex.deref(args[1])
    s1, n1 = a; s0, n0 = b
    later = Or(UGT(s1, s0), And(s1 == s0, UGE(n1, n0)))
    ds = s1 - s0
    sec = If(UGE(n1, n0), ds, ds - 1)
    nan = If(UGE(n1, n0), n1 - n0, n1 + BitVecVal(NS, 32) - n0)
    return [If(later, sec, BitVecVal(0, 64)), If(later, nan, BitVecVal(0, 32))]      # saturating, as std


def as_secs_f64(d):
    return fpAdd(RNE(), fpUnsignedToFP(RNE(), d[0], F64), fpDiv(RNE(), fpUnsignedToFP(RNE(), d[1], F64), FPVal(1e9, F64)))


def h_as_secs_f64(ex, st, callee, args):
    return as_secs_f64(ex.deref(args[0]))


TWO64 = FPVal(18446744073709551616.0, F64)
_dur_s = Function('dur_secs_of', F64, BitVecSort(64))
_dur_n = Function('dur_nanos_of', F64, BitVecSort(32))


def convertible(x):
    return And(Not(fpIsNaN(x)), fpGEQ(x, FPVal(0.0, F64)), fpLT(x, TWO64))     # -0.0 >= 0.0 holds in IEEE


def h_try_from(ex, st, callee, args):
    x = args[0]
    okc = convertible(x)
    st.path.assume(ULT(_dur_n(x), NS))
    return Enum('Result', If(okc, BitVecVal(0, 64), BitVecVal(1, 64)), {'Ok': [[_dur_s(x), _dur_n(x)]], 'Err': [Opaque('TryFromFloatSecsError')]})


def h_from(ex, st, callee, args):
    x = args[0]
    okc = convertible(x)
    st.path.oblige('no panic: Duration::from_secs_f64 on a negative, NaN or too large value', okc, callee); st.path.assume(okc)
    st.path.assume(ULT(_dur_n(x), NS))
    return [_dur_s(x), _dur_n(x)]


def h_unwrap_or(ex, st, callee, args):
    r, d = args
    return Fork([(r.disc == 0, lambda ex, st, a: a[0].fields['Ok'][0]), (r.disc != 0, lambda ex, st, a: a[1])])


class C30Exec(Exec):
    def const(self, c):
        if c.endswith('Duration::ZERO'): return [BitVecVal(0, 64), BitVecVal(0, 32)]
        if c.endswith('Duration::MAX'): return [BitVecVal(2 ** 64 - 1, 64), BitVecVal(NS - 1, 32)]
        return super().const(c)


HOOKS = [(r'^(?:std::time::)?Instant::now$', h_now), (r'^(?:std::time::)?Instant::duration_since$', h_duration_since),
         (r'^(?:std::time::)?Duration::as_secs_f64$', h_as_secs_f64), (r'^(?:std::time::)?Duration::try_from_secs_f64$', h_try_from),
         (r'^(?:std::time::)?Duration::from_secs_f64$', h_from), (r'^Result::<.*>::unwrap_or$', h_unwrap_or)]


def mk_state(ex):
    """arbitrary valid bucket at an arbitrary clock reading; returns (state, bucket object, symbols)"""
    burst = BitVec('burst', 32); rate = BitVec('rate', 32)
    tokens = FP('tokens', F64)
    s0 = BitVec('last_s', 64); n0 = BitVec('last_n', 32)
    cs = BitVec('clk0_s', 64); cn = BitVec('clk0_n', 32)
    mx = fpUnsignedToFP(RNE(), burst, F64); rt = fpUnsignedToFP(RNE(), rate, F64)
    src = open(_MOD.src_dir + '/src/rate_limit.rs').read()
    fields = struct_fields(src, 'TokenBucket') or ['tokens', 'last_update', 'max_tokens', 'refill_rate']
    vals = {'tokens': tokens, 'last_update': [s0, n0], 'max_tokens': mx, 'refill_rate': rt}
    bucket = [vals[f] for f in fields]
    st = State(roots={'clock': (cs, cn), 'bucket': bucket, 'fields': fields})
    st.path.assume(And(ULE(burst, 20), ULE(rate, 50), fpGEQ(tokens, FPVal(0.0, F64)), fpLEQ(tokens, mx), Not(fpIsNaN(tokens)),
                       ULT(n0, NS), ULT(cn, NS), ULE(cs, BitVecVal(1 << 40, 64)), Or(ULT(s0, cs), And(s0 == cs, ULE(n0, cn)))))
    return st, bucket, {'burst': burst, 'rate': rate, 'tokens': tokens, 'last': (s0, n0), 'max': mx, 'rt': rt}


def fld(res, name):
    b = res.st.roots['bucket']; return b[res.st.roots['fields'].index(name)]


def job(which, oc=True):
    ex = C30Exec([_MOD], [(__import__('re').compile(p), f) for p, f in HOOKS] + models.generic_hooks(), overflow_checks=oc)
    t0 = time.time()
    if which == 'new':
        b = BitVec('burst', 32); r = BitVec('rate', 32)
        st = State(roots={'clock': (BitVec('clk0_s', 64), BitVec('clk0_n', 32))})
        st.path.assume(And(ULE(b, 20), ULE(r, 50), ULT(st.roots['clock'][1], NS), ULE(st.roots['clock'][0], BitVecVal(1 << 40, 64))))
        results = ex.run('TokenBucket::new', [b, r], st=st)
        src = open(_MOD.src_dir + '/src/rate_limit.rs').read()
        fields = struct_fields(src, 'TokenBucket') or ['tokens', 'last_update', 'max_tokens', 'refill_rate']

        def post(res):
            v = dict(zip(fields, res.ret)); now = res.st.roots['clock']
            mx = fpUnsignedToFP(RNE(), b, F64)
            return [('new bucket is full: tokens = max_tokens = burst', And(fpEQ(v['tokens'], mx), fpEQ(v['max_tokens'], mx))),
                    ('refill_rate = configured rate', fpEQ(v['refill_rate'], fpUnsignedToFP(RNE(), r, F64))),
                    ('last_update = now', And(v['last_update'][0] == now[0], v['last_update'][1] == now[1]))]
        syms = {'burst': b, 'rate': r}
    else:
        st, bucket, syms = mk_state(ex)
        fn = {'consume': 'TokenBucket::try_consume', 'reset': 'TokenBucket::reset_after', 'remaining': 'TokenBucket::remaining'}[which]
        results = ex.run(fn, [box(bucket)], st=st)
        T, MX, RT = syms['tokens'], syms['max'], syms['rt']

        def post(res):
            out = []
            if which == 'consume':
                now = res.st.roots['clock']
                el = h_duration_since(ex, res.st, '', [box([now[0], now[1]]), box(list(syms['last']))])
                e = as_secs_f64(el)
                refilled = models_min(fpAdd(RNE(), T, fpMul(RNE(), e, RT)), MX)
                upper = fpAdd(RTP(), T, fpMul(RTP(), e, RT))
                t1 = fld(res, 'tokens'); lu = fld(res, 'last_update')
                adm = res.ret
                out += [('invariant preserved: 0 <= tokens <= max_tokens', And(fpGEQ(t1, FPVal(0.0, F64)), fpLEQ(t1, MX), Not(fpIsNaN(t1)))),
                        ('max_tokens and refill_rate unchanged', And(fpEQ(fld(res, 'max_tokens'), MX), fpEQ(fld(res, 'refill_rate'), RT))),
                        ('last_update = now (elapsed time is never counted twice)', And(lu[0] == now[0], lu[1] == now[1])),
                        ('admitted iff the refilled bucket holds a whole token', adm == fpGEQ(refilled, FPVal(1.0, F64))),
                        ('tokens after = refilled - 1 if admitted, else refilled', fpEQ(t1, If(adm, fpSub(RNE(), refilled, FPVal(1.0, F64)), refilled))),
                        ('refilled never exceeds burst', fpLEQ(refilled, MX))]
            elif which == 'reset':
                d = res.ret
                ok = isinstance(d, list) and len(d) == 2
                out.append(('retry-after is a finite Duration value', BoolVal(ok) if not ok else ULT(d[1], NS)))
                if ok:
                    out.append(('a bucket holding a whole token reports zero wait', z3.Implies(fpGEQ(T, FPVal(1.0, F64)), And(d[0] == 0, d[1] == 0))))
                    x = fpDiv(RNE(), fpSub(RNE(), FPVal(1.0, F64), T), RT)
                    out.append(('otherwise the wait is (1 - tokens) / rate when that is representable', z3.Implies(And(fpLT(T, FPVal(1.0, F64)), convertible(x)), And(d[0] == _dur_s(x), d[1] == _dur_n(x)))))
            return out
    vs = discharge(ex, results, post)
    out = []
    for v in vs:
        d = {'name': v.name, 'status': v.status, 'secs': v.secs, 'kind': v.kind, 'where': v.where}
        if v.model is not None:
            m = v.model
            w = {}
            for k in ('burst', 'rate'):
                if k in syms: w[k] = m.eval(syms[k], True).as_long()
            if 'tokens' in syms:
                w['tokens_bits'] = m.eval(z3.fpToIEEEBV(syms['tokens']), True).as_long()
                w['tokens'] = str(m.eval(syms['tokens'], True))
            d['witness'] = w
        out.append(d)
    return {'which': which, 'paths': len(results), 'verdicts': out, 'queries': ex.queries, 'solver_s': ex.solver_s, 'inconclusive': list(ex.inconclusive),
            'funcs': sorted(ex.visited_funcs), 'wall_s': time.time() - t0}


def battery(burst, rate):
    """request-time histories (absolute secs:nanos) that drive the public RateLimiter::check towards the one-step witness: the step
    counterexample is a bucket state, the native replay reaches such states through the API (drain, idle, boundary timings)"""
    def t(x):   # seconds as float -> 'secs:nanos'
        s = int(x); return '%d:%d' % (s, int(round((x - s) * 1e9)) % NS)
    hs = []
    hs.append([t(0)] * (burst + 2))                                   # drain and one more
    hs.append([t(0)] * (burst + 1) + [t(1), t(1), t(2), t(2), t(2)])     # drain, then whole-second refills
    if rate > 0:
        p = 1.0 / rate
        hs.append([t(0)] * (burst + 1) + [t(k * p) for k in range(1, 5)] + [t(4 * p + p / 2), t(5 * p)])
        hs.append([t(0)] * burst + ['0:1'] + ['%d:%d' % (int(k * p), max(0, int(round((k * p - int(k * p)) * 1e9)) - 1)) for k in range(1, 4)])
    hs.append([t(0)] * burst + [t(100)] * (burst + 2) + [t(100.5)] * 3)  # long idle, burst again
    hs.append([t(0)] + [t(100)] * (2 * burst + 3))                          # bucket left non-empty, idle, then a volley
    hs.append([t(0), t(0.3)] + [t(0.3)] * (2 * burst + 2) + [t(0.35)] * 2)
    out = []
    for h in hs:
        if out: out.append('--')
        out += h
    return out


def models_min(a, b):
    return If(fpIsNaN(a), b, If(fpIsNaN(b), a, If(fpLT(b, a), b, a)))


def _worker(w):
    try:
        return job(w)
    except Exception as e:
        import traceback; traceback.print_exc()
        return {'which': w, 'error': '%s: %s' % (type(e).__name__, e), 'verdicts': [], 'paths': 0, 'queries': 0, 'solver_s': 0, 'inconclusive': []}


def run(ctx):
    global _MOD
    from concurrent.futures import ProcessPoolExecutor
    import multiprocessing as mp
    from vlib import replay
    from vlib.driver import Finding
    _MOD, info = mirdump.load('cluster')
    ctx.engines.append('M (MIR symbolic execution -> Z3)')
    ctx.functions.append({'crate': info['crate'], 'source_hash': info['source_hash'], 'mir_functions': info['functions'], 'dump_s': info['dump_s']})
    ctx.bounds = {'burst': '0..20', 'rate': '0..50 per second', 'clock': 'symbolic non-decreasing (seconds <= 2^40, nanoseconds)', 'bucket_state': 'arbitrary state satisfying the invariant',
                  'steps': 'one inductive step per method (histories of any length by induction)', 'rounding': 'IEEE-754 double, round-to-nearest as compiled; gain bounded by the upward-rounded product',
                  'outside': 'per-IP map, eviction and the async RateLimiter::check wrapper (tokio RwLock + std HashMap); interleaved clients'}
    ctx.assumptions += ['Instant::now is a symbolic monotone clock; Instant::duration_since saturates (std semantics); Duration::as_secs_f64 = secs + nanos/1e9',
                        'Duration::try_from_secs_f64 fails exactly on NaN, negative or >= 2^64 seconds; from_secs_f64 panics in those cases',
                        'the interval bound follows from the step obligations by the induction written in this module\'s docstring']
    tasks = ['new', 'consume', 'reset', 'remaining']
    with ProcessPoolExecutor(max_workers=4, mp_context=mp.get_context('fork')) as pool:
        res = list(pool.map(_worker, tasks))
    binp = None
    for r in res:
        tgt = {'new': 'TokenBucket::new', 'consume': 'TokenBucket::try_consume (+refill)', 'reset': 'TokenBucket::reset_after', 'remaining': 'TokenBucket::remaining'}[r['which']]
        if r.get('error'):
            ctx.inconclusive.append('%s: %s' % (tgt, r['error'])); continue
        for why in r['inconclusive']: ctx.inconclusive.append('%s: %s' % (tgt, why))
        ctx.queries += r['queries']; ctx.solver_s += r['solver_s']
        ctx.add_obligations(tgt, r['verdicts'], cls='any valid bucket state, burst 0..20, rate 0..50')
        ctx.samples.append({'target': tgt, 'paths': r['paths'], 'obligations': [v['name'] for v in r['verdicts']]})
        if not r['verdicts']:
            ctx.add_obligations(tgt, [{'name': 'no panic site reachable on %d explored paths' % r['paths'], 'status': 'proved', 'secs': 0.0}], cls='any valid bucket state')
        seen = set()
        for v in r['verdicts']:
            if v['status'] != 'violated' or v['name'] in seen: continue
            seen.add(v['name'])
            w = v.get('witness', {})
            if binp is None: binp = replay.build('cl')
            # native confirmation through the public API: the witness configuration first, then a fixed grid of configurations
            cfgs = [(w.get('burst', 1), w.get('rate', 0))] + [(4, 20), (2, 1), (1, 0), (3, 5), (20, 50), (0, 3)]
            script = ' || exit 1; '.join('%s bucket %d %d %s' % (binp, b, r_, ' '.join(battery(b, r_))) for b, r_ in cfgs) + ' || exit 1'
            ctx.findings.append(Finding('%s:%s' % (tgt, v['name'][:60]), '%s: %s violated (witness %s)' % (tgt, v['name'], w), ['bash', '-c', script], w))
    ctx.models += ['Instant::now / duration_since / Duration::as_secs_f64 / try_from_secs_f64 / from_secs_f64 (see assumptions)'] + sorted(models.USED)
