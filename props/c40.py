"""C40 — value equality is an equivalence consistent with hashing (engine M).

`<Value as PartialEq>::eq`, `float_eq` and `<Value as Hash>::hash` are executed from the MIR of varpulis-core on symbolic values:
all scalar variants with fully symbolic payloads (every f64 bit pattern, strings as identity tokens), arrays of <= 2 scalars,
maps of <= 2 entries with distinct keys presented in either insertion order.  Hashing is observed through a RECORDING hasher: the
exact sequence of (kind, value) writes — equal sequences imply equal hashes for every Hasher implementation.
Obligations: reflexive, symmetric, transitive, and eq(a, b) => same write sequence.
"""
import copy
import itertools
import time

import z3
from z3 import BitVec, BitVecVal, And, Or, Not, If, BoolVal, FP, Bool, Implies

from vlib import mirdump, symex, models, containers
from vlib.symex import Exec, Ptr, Opaque, box, State, Enum, Fork, F64, Unsupported, Inline
from vlib.containers import ListModel, Iter
from props import valmodel as V

_MOD = None
SCALARS = ['Null', 'Bool', 'Int', 'Float', 'Str', 'Timestamp', 'Duration']


class MapModel:
    """IndexMap<Arc<str>, Value>: entries in insertion order, keys are distinct identity tokens"""
    def __init__(self, entries): self.entries = entries       # [(key token BV16, Value Enum)]


class Rec:
    """recording hasher: list of (kind, z3 value)"""
    def __init__(self): self.w = []


def scalar(tag, classes=SCALARS):
    vs = V.variants()['Value']
    d = BitVec(tag + '_disc', 64)
    # floats are introduced through their bit pattern so that NaN sign/payload bits are visible to `to_bits` (z3's FP sort has one NaN)
    fields = {'Null': [], 'Bool': [Bool(tag + '_b')], 'Int': [BitVec(tag + '_i', 64)], 'Float': [z3.fpBVToFP(BitVec(tag + '_fbits', 64), F64)],
              'Str': [box(V.StrTok(BitVec(tag + '_s', 16)))], 'Timestamp': [BitVec(tag + '_t', 64)], 'Duration': [BitVec(tag + '_d', 64)]}
    return Enum('Value', d, {k: fields[k] for k in classes}), Or(*[d == vs.index(c) for c in classes])


def array_of(items):
    return Enum('Value', BitVecVal(V.vdisc('Array'), 64), {'Array': [box(ListModel(items))]})


def map_of(entries):
    return Enum('Value', BitVecVal(V.vdisc('Map'), 64), {'Map': [box(MapModel(entries))]})


class AndAll:
    """continuation: run Value::eq on pairs one after the other and conjoin the results"""
    def __init__(self, pairs, base): self.pairs = pairs; self.acc = base

    def next(self, ex):
        if not self.pairs: return self.acc
        a, b = self.pairs.pop(0)
        f = ex.find_func('<Value as PartialEq>::eq')
        return Inline(f, [a, b], cont=self)

    def step(self, ex, st, rv):
        self.acc = And(self.acc, rv)
        return self.next(ex)


def hooks():
    def h_str_eq(ex, st, callee, args):
        a, b = ex.deref(args[0]), ex.deref(args[1])
        return a.tok == b.tok

    def h_vec_eq(ex, st, callee, args):
        a, b = ex.deref(args[0]), ex.deref(args[1])
        if len(a.items) != len(b.items): return BoolVal(False)
        return AndAll([(Ptr(a.items, i), Ptr(b.items, i)) for i in range(len(a.items))], BoolVal(True)).next(ex)

    def h_map_eq(ex, st, callee, args):
        """indexmap equality: same length and every (k, v) of the left has b.get(k) == Some(v) — independent of insertion order"""
        a, b = ex.deref(args[0]), ex.deref(args[1])
        if len(a.entries) != len(b.entries): return BoolVal(False)
        n = len(a.entries)
        if n == 0: return BoolVal(True)
        # keys are distinct within each map: fork on the key matching (a permutation or a mismatch)
        alts = []
        for perm in itertools.permutations(range(n)):
            cond = And(*[a.entries[i][0] == b.entries[perm[i]][0] for i in range(n)])
            def mk(perm):
                def t(ex, st, a_):
                    aa, bb = ex.deref(a_[0]), ex.deref(a_[1])
                    return AndAll([(Ptr(aa.entries[i], 1), Ptr(bb.entries[perm[i]], 1)) for i in range(n)], BoolVal(True)).next(ex)
                return t
            alts.append((cond, mk(perm)))
        none = Not(Or(*[c for c, _ in alts]))
        alts.append((none, lambda ex, st, a_: BoolVal(False)))
        return Fork(alts)

    def rec_of(ex, p):
        r = ex.deref(p)
        if not isinstance(r, Rec): raise Unsupported('hasher is not the recording hasher')
        return r

    def h_hash_prim(kind):
        def h(ex, st, callee, args):
            v = ex.deref(args[0])
            if isinstance(v, V.StrTok): v = v.tok
            rec_of(ex, args[1]).w.append((kind, v)); return []
        return h

    def h_discriminant(ex, st, callee, args):
        v = ex.deref(args[0]); return ('discr', v.disc)

    def h_hash_discr(ex, st, callee, args):
        d = ex.deref(args[0])
        rec_of(ex, args[1]).w.append(('discriminant', d[1])); return []

    def h_map_len(ex, st, callee, args):
        return BitVecVal(len(ex.deref(args[0]).entries), 64)

    def h_map_iter(ex, st, callee, args):
        m = ex.deref(args[0])
        return Iter(ListModel([[box(V.StrTok(k)), v] for k, v in m.entries]), by_value=True)

    def h_map_next(ex, st, callee, args):
        it = ex.deref(args[0])
        if not isinstance(it, Iter): return NotImplemented
        if it.remaining() <= 0: return models.none()
        e = it.take_item()
        return models.some([Ptr(e, 0) if not isinstance(e[0], Ptr) else e[0], Ptr(e, 1)])

    def h_into_iter_id(ex, st, callee, args): return args[0]

    def h_sub_hasher(ex, st, callee, args): return Rec()

    def h_finish(ex, st, callee, args):
        """digest of a nested hasher: an uninterpreted fold over its write sequence (equal sequences => equal digests, nothing else)"""
        r = rec_of(ex, args[0])
        mix = models.uf('hasher_mix', z3.BitVecSort(64), z3.BitVecSort(64), z3.BitVecSort(64), z3.BitVecSort(64))
        kinds = {'discriminant': 1, 'bool': 2, 'i64': 3, 'u64': 4, 'usize': 5, 'str': 6}
        h = BitVecVal(len(r.w), 64)
        for k, v in r.w:
            if z3.is_bool(v): v = If(v, BitVecVal(1, 64), BitVecVal(0, 64))
            elif v.size() < 64: v = z3.ZeroExt(64 - v.size(), v)
            h = mix(h, BitVecVal(kinds[k], 64), v)
        return h
    return [
        (r'^(?:<(?:rustc_hash::)?FxHasher as Default>|(?:rustc_hash::)?FxHasher)::default$', h_sub_hasher), (r'^<(?:rustc_hash::)?FxHasher as (?:std::hash::)?Hasher>::finish$', h_finish),
        (r'^<&?Box<str> as PartialEq>::eq$', h_str_eq), (r'^<&?Box<Vec<Value>> as PartialEq>::eq$', h_vec_eq),
        (r'^<&?Box<IndexMap<Arc<str>, Value, FxBuildHasher>> as PartialEq>::eq$', h_map_eq),
        (r'^discriminant::<Value>$', h_discriminant), (r'^<Discriminant<Value> as Hash>::hash::<.*>$', h_hash_discr),
        (r'^<bool as Hash>::hash::<.*>$', h_hash_prim('bool')), (r'^<i64 as Hash>::hash::<.*>$', h_hash_prim('i64')), (r'^<u64 as Hash>::hash::<.*>$', h_hash_prim('u64')),
        (r'^<usize as Hash>::hash::<.*>$', h_hash_prim('usize')), (r'^<Box<str> as Hash>::hash::<.*>$', h_hash_prim('str')), (r'^<Arc<str> as Hash>::hash::<.*>$', h_hash_prim('str')),
        (r'^IndexMap::<Arc<str>, Value, FxBuildHasher>::len$', h_map_len), (r'^IndexMap::<Arc<str>, Value, FxBuildHasher>::iter$', h_map_iter),
        (r'^<indexmap::map::Iter<.*> as Iterator>::next$', h_map_next), (r'^<(?:indexmap::map::Iter<.*>|std::slice::Iter<.*>) as IntoIterator>::into_iter$', h_into_iter_id),
    ]


def mk_exec():
    import re
    hk = [(re.compile(p), f) for p, f in hooks()] + containers.container_hooks() + models.generic_hooks()
    return Exec([_MOD], hk, variants=V.variants(), loop_bound=12)


def run_eq(a, b, pc):
    ex = mk_exec()
    st = State(); st.path.pc = list(pc)
    res = ex.run('<Value as PartialEq>::eq', [box(a), box(b)], st=st)
    return ex, [(r.path.pc, r.ret, r.path.obl, r.status) for r in res]


def run_hash(a, pc):
    ex = mk_exec()
    rec = Rec()
    st = State(roots={'rec': rec}); st.path.pc = list(pc)
    res = ex.run('<Value as Hash>::hash', [box(a), box(rec)], st=st)
    return ex, [(r.path.pc, r.st.roots['rec'].w, r.path.obl, r.status) for r in res]


def seq_equal(w1, w2):
    if len(w1) != len(w2): return BoolVal(False)
    cs = []
    for (k1, v1), (k2, v2) in zip(w1, w2):
        if k1 != k2: return BoolVal(False)
        if v1.sort() != v2.sort(): return BoolVal(False)
        cs.append(v1 == v2)
    return And(*cs) if cs else BoolVal(True)


def shapes(tier):
    """pairs/triples of value shapes: (name, builder) ; builder(tag) -> (value, constraint)"""
    def sc(tag): return scalar(tag)
    def arr(n):
        def b(tag):
            its = [scalar('%s_e%d' % (tag, i)) for i in range(n)]
            return array_of([v for v, _ in its]), And(*[c for _, c in its]) if its else BoolVal(True)
        return b
    def mp(n, order, int_only=False):
        def b(tag):
            ks = [BitVec('%s_k%d' % (tag, i), 16) for i in range(n)]
            vs = [scalar('%s_v%d' % (tag, i), ['Int', 'Float'] if (tier == 'thorough' and not int_only and n == 1) else ['Int']) for i in range(n)]      # float values in one-entry maps only: two float-valued entries leave 2 of 49 681 hash obligations undecided after 60 s
            ent = [[ks[i], vs[i][0]] for i in order]
            distinct = And(*[ks[i] != ks[j] for i in range(n) for j in range(i)]) if n > 1 else BoolVal(True)
            return map_of(ent), And(distinct, *[c for _, c in vs])
        return b
    S = {'scalar': sc, 'array0': arr(0), 'array1': arr(1), 'array2': arr(2), 'map0': mp(0, []), 'map1': mp(1, [0]), 'map2': mp(2, [0, 1]), 'map2r': mp(2, [1, 0]),
         'map2i': mp(2, [0, 1], True), 'map2ri': mp(2, [1, 0], True)}      # integer-valued maps for the transitivity triple (three float-valued maps: 2 million queries)
    pairs = [('scalar', 'scalar'), ('array1', 'array1'), ('array0', 'scalar'), ('map1', 'map1'), ('map2', 'map2'), ('map2', 'map2r'), ('map0', 'array0'), ('array1', 'array2')]
    # (array2 / array2 squares two 49-path explorations into millions of float queries, two of them undecided within 60 s: dropped; arrays of two are covered by array1 / array2 and array2 / array1)
    if tier == 'thorough': pairs += [('array2', 'array1'), ('map2r', 'map2'), ('map1', 'map2'), ('scalar', 'map1')]
    # (a triple of one-element arrays multiplies three 7-way scalar explorations: > 25 min, dropped; transitivity through containers is covered by the map triple)
    triples = [('scalar', 'scalar', 'scalar'), ('map2i', 'map2ri', 'map2i')] + ([('map1', 'map1', 'map1')] if tier == 'thorough' else [])
    return S, pairs, triples


def check(pc, cond, name, out, stats):
    s = z3.Solver(); s.set('timeout', 60000); s.add(*pc); s.add(Not(cond))
    t0 = time.time(); rc = s.check(); dt = time.time() - t0
    stats['q'] += 1; stats['s'] += dt
    out.append({'name': name, 'status': 'proved' if rc == z3.unsat else ('violated' if rc == z3.sat else 'unknown'), 'secs': dt, 'kind': 'post',
                'witness': (str(s.model())[:500] if rc == z3.sat else None)})


def job(spec):
    kind = spec[0]
    tier = spec[-1]
    S, _, _ = shapes(tier)
    out = []; stats = {'q': 0, 's': 0.0}; inc = []
    t0 = time.time()
    if kind == 'pair':
        a, ca = S[spec[1]]('a'); b, cb = S[spec[2]]('b')
        pc0 = [ca, cb]
        e1, ab = run_eq(a, b, pc0); e2, ba = run_eq(b, a, pc0); e3, aa = run_eq(a, copy.deepcopy(a), pc0)
        h1, ha = run_hash(a, pc0); h2, hb = run_hash(b, pc0)
        for e in (e1, e2, e3, h1, h2): inc += e.inconclusive; stats['q'] += e.queries; stats['s'] += e.solver_s
        for pc, r, obl, stt in aa:
            check(pc, r if stt == 'return' else BoolVal(False), 'reflexive: a == a', out, stats)
        for p1, r1, o1, s1 in ab:
            for p2, r2, o2, s2 in ba:
                check(p1 + p2[len(pc0):], r1 == r2, 'symmetric: (a == b) == (b == a)', out, stats)
            for p3, w1, o3, s3 in ha:
                for p4, w2, o4, s4 in hb:
                    check(p1 + p3[len(pc0):] + p4[len(pc0):], Implies(r1, seq_equal(w1, w2)), 'a == b  =>  both feed the hasher the same write sequence', out, stats)
        for plist in (ab, ha, hb):
            for p, _, obl, stt in plist:
                for o in obl: check(p[:o.pclen], o.cond, o.name, out, stats)
    else:
        a, ca = S[spec[1]]('a'); b, cb = S[spec[2]]('b'); c, cc = S[spec[3]]('c')
        pc0 = [ca, cb, cc]
        e1, ab = run_eq(a, b, pc0); e2, bc = run_eq(b, c, pc0); e3, ac = run_eq(a, c, pc0)
        for e in (e1, e2, e3): inc += e.inconclusive; stats['q'] += e.queries; stats['s'] += e.solver_s
        for p1, r1, _, _ in ab:
            for p2, r2, _, _ in bc:
                for p3, r3, _, _ in ac:
                    check(p1 + p2[len(pc0):] + p3[len(pc0):], Implies(And(r1, r2), r3), 'transitive: a == b and b == c  =>  a == c', out, stats)
    return {'spec': spec, 'verdicts': out, 'queries': stats['q'], 'solver_s': stats['s'], 'inconclusive': inc, 'wall_s': time.time() - t0, 'paths': len(out)}


def _worker(spec):
    try:
        return job(spec)
    except Exception as e:
        import traceback; traceback.print_exc()
        return {'spec': spec, 'error': '%s: %s' % (type(e).__name__, e), 'verdicts': [], 'paths': 0, 'queries': 0, 'solver_s': 0, 'inconclusive': []}


def run(ctx):
    global _MOD
    from concurrent.futures import ProcessPoolExecutor
    import multiprocessing as mp
    from vlib import replay
    from vlib.driver import Finding
    _MOD, info = mirdump.load('core')
    ctx.engines.append('M (MIR symbolic execution -> Z3)')
    ctx.functions.append({'crate': info['crate'], 'source_hash': info['source_hash'], 'mir_functions': info['functions'], 'dump_s': info['dump_s']})
    S, pairs, triples = shapes(ctx.tier)
    ctx.bounds = {'scalars': 'every scalar variant, all i64/u64/f64 bit patterns and booleans symbolic, strings as identity tokens', 'arrays': '<= 2 scalar elements', 'maps': '<= 2 entries, distinct keys, both insertion orders',
                  'shape_pairs': ['%s/%s' % p for p in pairs], 'shape_triples': ['/'.join(t) for t in triples], 'outside': 'nested containers deeper than one level, longer containers'}
    ctx.assumptions += ['IndexMap equality is order-independent (len equal and every entry of the left found in the right); iteration is in insertion order',
                        'primitive Hash impls write one (kind, value) record; equal write sequences give equal hashes for every Hasher']
    tasks = [('pair', a, b, ctx.tier) for a, b in pairs] + [('triple', a, b, c, ctx.tier) for a, b, c in triples]
    with ProcessPoolExecutor(max_workers=12, mp_context=mp.get_context('fork')) as pool:
        res = list(pool.map(_worker, tasks))
    binp = None; seen = set()
    for r in res:
        sp = r['spec']
        tgt = 'Value::eq / Value::hash'
        cls = '/'.join(sp[1:-1])
        if r.get('error'):
            ctx.inconclusive.append('%s (%s): %s' % (tgt, cls, r['error'])); continue
        for why in r['inconclusive']: ctx.inconclusive.append('%s (%s): %s' % (tgt, cls, why))
        ctx.queries += r['queries']; ctx.solver_s += r['solver_s']
        ctx.add_obligations(tgt, r['verdicts'], cls=cls)
        ctx.samples.append({'target': tgt, 'class': cls, 'obligations': len(r['verdicts'])})
        for v in r['verdicts']:
            if v['status'] != 'violated': continue
            key = 'Value:%s:%s' % (v['name'][:40], cls)
            if key in seen: continue
            seen.add(key)
            if binp is None: binp = replay.build('rt')
            ctx.findings.append(Finding(key, '%s on shapes %s: %s violated (witness %s)' % (tgt, cls, v['name'], v.get('witness')), [binp, 'valueq'], {'witness': v.get('witness')}))
    ctx.models += sorted(models.USED)
