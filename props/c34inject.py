"""C34 (caller side) — Coordinator::resolve_inject_target sends a single injected event where routing and replica selection say.

resolve_inject_target (varpulis-cluster/src/coordinator.rs, phase 1 of single-event injection) is executed from its MIR with its two kernels
cut — routing::find_target_pipeline returns an arbitrary pipeline name or nothing, ReplicaGroup::select_replica an arbitrary replica name —
because each is decided on its own in props/c34.py.  The group table, the replica-group table and the placement table are entry lists with
distinct symbolic keys (0..2 entries each).
Obligations:
  route     an unknown group is an error and nothing else is consulted; routing is asked with the event's type in THIS group
  replica   the event goes to select_replica's answer exactly when a replica group exists under the routed pipeline's name, and to the routed
            pipeline itself otherwise
  deploy    the target returned is the deployment stored under that name (worker id and key of that entry); a missing deployment is an error
"""
import re
import time

import z3
from z3 import BitVec, BitVecVal, And, Or, Not, If, BoolVal, Implies

from vlib import mirdump, models, containers, maps
from vlib.symex import Ptr, Opaque, box, State, Enum, Exec, Unsupported, Fork, discharge
from vlib.containers import ListModel
from vlib.models import some, none
from props.zddmodel import struct_fields
from props import valmodel as V

_MOD = None


def deref(v):
    while isinstance(v, Ptr): v = v.get()
    return v


def tokof(v):
    v = deref(v)
    if isinstance(v, list) and len(v) == 1: v = deref(v[0])
    if hasattr(v, 'tok'): return v.tok
    raise Unsupported('string token expected, got %r' % (v,))


def job(spec):
    """('inject', ngroups, nrep, ndep)"""
    global _MOD
    _, ngroups, nrep, ndep = spec
    t0 = time.time()
    if _MOD is None: _MOD, _ = mirdump.load('cluster', closures=True)
    src_c = open(mirdump.crate_dir('cluster') + '/src/coordinator.rs').read()
    src_p = open(mirdump.crate_dir('cluster') + '/src/pipeline_group.rs').read()
    cf = struct_fields(src_c, 'Coordinator'); gf = struct_fields(src_p, 'DeployedPipelineGroup'); df = struct_fields(src_p, 'PipelineDeployment'); tf = struct_fields(src_c, 'InjectTarget'); ef = struct_fields(src_c, 'InjectEventRequest')
    if not cf or not gf or not {'placements', 'replica_groups'} <= set(gf) or df[:4] != ['worker_id', 'worker_address', 'worker_api_key', 'pipeline_id'] or tf != ['url', 'api_key', 'target_name', 'worker_id'] or ef != ['event_type', 'fields']:
        raise Unsupported('cluster structs changed')
    S = r'(?:std::string::)?String'
    routed = BitVec('routed', 16); has_route = z3.Bool('has_route'); replica = BitVec('replica', 16); etype = BitVec('event_type', 16); gid = BitVec('group_id', 16)

    def h_find(ex, st, callee, args):
        st.roots['calls'].append(('find', deref(args[0]), tokof(args[1])))
        return Fork([(has_route, lambda ex, st, a: some(box(V.StrTok(routed)))), (Not(has_route), lambda ex, st, a: none())])

    def h_select(ex, st, callee, args):
        st.roots['calls'].append(('select', deref(args[0]), deref(args[1])))
        return box(V.StrTok(replica))

    op = lambda tag: (lambda ex, st, callee, args: Opaque(tag))
    ident = lambda ex, st, callee, args: args[0]
    extra = [(r'^(?:routing::)?find_target_pipeline$', h_find), (r'^(?:pipeline_group::)?(?:<impl at [^>]*>|ReplicaGroup)::select_replica$', h_select),
             (r'^(?:std|alloc)::fmt::format$', op('string')), (r'^core::fmt::rt::Argument::<\'_>::new_\w+::<.*>$', op('fmt-arg')), (r'^(?:core::fmt::)?Arguments::<\'_>::new.*$', op('fmt-args')),
             (r'^must_use::<.*>$', ident), (r'^<str as ToString>::to_string$', lambda ex, st, callee, args: V.StrTok(tokof(args[0]))),
             (r'^<%s as Clone>::clone$' % S, lambda ex, st, callee, args: deref(args[0])),
             (r'^<%s as (?:std::ops::)?Deref>::deref$|^%s::as_str$' % (S, S), ident)]
    for ty in (r'HashMap::<%s, (?:pipeline_group::)?DeployedPipelineGroup>' % S, r'HashMap::<%s, (?:pipeline_group::)?ReplicaGroup>' % S, r'HashMap::<%s, (?:pipeline_group::)?PipelineDeployment>' % S):
        extra += maps.hooks(ty, {}, lambda t: V.StrTok(t))
    hk = [(re.compile(p), f) for p, f in extra] + containers.container_hooks() + models.generic_hooks()
    ex = Exec([_MOD], hk, variants=V.variants(), loop_bound=8, step_budget=200000)
    cons = []
    def distinct(ks): return [ks[a] != ks[b] for a in range(len(ks)) for b in range(a + 1, len(ks))]
    rkeys = [BitVec('rk%d' % i, 16) for i in range(nrep)]; dkeys = [BitVec('dk%d' % i, 16) for i in range(ndep)]; gkeys = [BitVec('gk%d' % i, 16) for i in range(ngroups)]
    cons += distinct(rkeys) + distinct(dkeys) + distinct(gkeys)
    def deployment(i):
        vals = {f: Opaque('dep%d.%s' % (i, f)) for f in df}
        vals.update({'worker_id': [V.StrTok(BitVec('dep%d_worker' % i, 16))], 'worker_address': V.StrTok(BitVec('dep%d_addr' % i, 16)), 'worker_api_key': V.StrTok(BitVec('dep%d_key' % i, 16)), 'pipeline_id': V.StrTok(BitVec('dep%d_pid' % i, 16))})
        return [vals[f] for f in df]
    groups = []
    for g in range(ngroups):
        gv = {f: Opaque('group%d.%s' % (g, f)) for f in gf}
        if g == 0:
            gv['replica_groups'] = maps.MapM([[V.StrTok(rkeys[i]), ['#rg%d' % i]] for i in range(nrep)])
            gv['placements'] = maps.MapM([[V.StrTok(dkeys[i]), deployment(i)] for i in range(ndep)])
        else:
            gv['replica_groups'] = maps.MapM([]); gv['placements'] = maps.MapM([])
        groups.append([gv[f] for f in gf])
    cvals = {f: Opaque('coordinator.' + f) for f in cf}
    cvals['pipeline_groups'] = maps.MapM([[V.StrTok(gkeys[g]), groups[g]] for g in range(ngroups)])
    coord = [cvals[f] for f in cf]
    fields = Opaque('event-fields')
    event = [V.StrTok(etype), fields]
    st0 = State(roots={'calls': []}); st0.path.assume(And(*cons) if cons else BoolVal(True))
    fns = [x for x in _MOD.funcs if re.search(r'^coordinator::<impl at [^>]*>::resolve_inject_target$', x)]
    if len(fns) != 1: raise Unsupported('resolve_inject_target: %s' % fns)
    res = ex.run(_MOD.funcs[fns[0]], [box(coord), box(V.StrTok(gid)), box(event)], st=st0)
    verdicts = []; stats = {'q': 0, 's': 0.0}
    def prove(pc, cond, nm):
        s = z3.Solver(); s.set('timeout', 30000); s.add(*pc); s.add(Not(cond))
        t = time.time(); rc = s.check(); dt = time.time() - t; stats['q'] += 1; stats['s'] += dt
        d = {'name': nm, 'status': 'proved' if rc == z3.unsat else ('violated' if rc == z3.sat else 'unknown'), 'secs': dt, 'kind': 'post'}
        if rc == z3.sat:
            m = s.model(); g = lambda e: m.eval(e, True).as_long()
            d['witness'] = {'groups': ngroups, 'replica_groups': [g(k) for k in rkeys], 'placements': [g(k) for k in dkeys], 'routed': g(routed), 'replica': g(replica), 'has_route': bool(z3.is_true(m.eval(has_route, True)))}
        verdicts.append(d)
    for v in discharge(ex, res, None, timeout_ms=30000):
        verdicts.append({'name': v.name, 'status': v.status, 'secs': v.secs, 'kind': v.kind})
    known_group = Or(*[gid == k for k in gkeys]) if gkeys else BoolVal(False)
    in_first = (gid == gkeys[0]) if gkeys else BoolVal(False)
    has_rg = Or(*[routed == k for k in rkeys]) if rkeys else BoolVal(False)
    want_name = If(has_rg, replica, routed)
    for r in res:
        if r.status != 'return': continue
        pc = list(r.path.pc); ret = r.ret
        okv = z3.simplify(ret.disc == 0)
        if not (z3.is_true(okv) or z3.is_false(okv)): raise Unsupported('symbolic Result discriminant')
        calls = r.st.roots['calls']
        finds = [c for c in calls if c[0] == 'find']; sels = [c for c in calls if c[0] == 'select']
        prove(pc, known_group == BoolVal(len(finds) == 1), 'route: routing is consulted exactly when the group exists')
        if finds:
            prove(pc, finds[0][2] == etype, 'route: routing is asked with the event\'s type')
        if z3.is_true(okv):
            tgt = ret.fields['Ok'][0]
            name = tokof(tgt[tf.index('target_name')])
            prove(pc, And(known_group, has_route), 'route: a target is returned only for a known group and a routed event')
            # the obligations below are stated for the group under inspection (the first one); other groups hold no replica groups / placements here
            prove(pc, Implies(in_first, name == want_name), 'replica: the event goes to the selected replica iff a replica group exists under the routed pipeline, else to the routed pipeline')
            prove(pc, Implies(in_first, BoolVal(len(sels) == 1) == has_rg), 'replica: select_replica is consulted exactly when the routed pipeline has a replica group')
            if sels: prove(pc, BoolVal(isinstance(sels[0][2], Opaque) and sels[0][2].tag == 'event-fields'), 'replica: the replica is selected from this event\'s fields')
            dep_ok = Or(*[And(name == dkeys[i], tokof(tgt[tf.index('worker_id')]) == BitVec('dep%d_worker' % i, 16), tokof(tgt[tf.index('api_key')]) == BitVec('dep%d_key' % i, 16)) for i in range(ndep)]) if ndep else BoolVal(False)
            prove(pc, Implies(in_first, dep_ok), 'deploy: the returned worker and key are those of the deployment stored under the target name')
        else:
            prove(pc, Implies(And(in_first, has_route), Not(Or(*[want_name == k for k in dkeys])) if dkeys else BoolVal(True)), 'deploy: with a known group and a routed event, resolution fails only when the target has no deployment')
    return {'spec': [str(x) for x in spec], 'verdicts': verdicts, 'paths': len(res), 'queries': ex.queries + stats['q'], 'solver_s': ex.solver_s + stats['s'], 'inconclusive': list(ex.inconclusive), 'wall_s': time.time() - t0}


def _worker(spec):
    try:
        return job(spec)
    except Exception as e:
        import traceback; traceback.print_exc()
        return {'spec': [str(x) for x in spec], 'error': '%s: %s' % (type(e).__name__, e), 'verdicts': [], 'paths': 0, 'queries': 0, 'solver_s': 0, 'inconclusive': []}


def tasks(tier):
    top = 3 if tier == 'thorough' else 2
    return [('inject', g, nr, nd) for g in (0, 1, 2) for nr in range(0, top + 1) for nd in range(0, top + 1) if g > 0 or (nr == 0 and nd == 0)]
