"""C09, composite filters: `(x > l1) AND/OR (y == l2)` and its negation, on two fields (engine M, differential).

The leaves are Int-vs-Int comparisons, on which `.where` and the sequence-step filter agree whenever both fields are present Ints; the
obligations here are about the COMPOSITION: translation of and / or / not (expr_to_sase_predicate), two-valued evaluation in the step
(eval_predicate) against the stream evaluator, which yields no value as soon as one operand has none.  Fields x and y are each missing,
Null or Int with symbolic payload.  Keys: filter2:[not:]<And|Or>:x=<cls>:y=<cls>:<direction>.
"""
import time

import z3
from z3 import BitVec, BitVecVal, And, Or, Not, If, BoolVal

from vlib import containers
from vlib.symex import Ptr, Opaque, box, State, Enum, Unsupported
from vlib import models
from props import valmodel as V
from props.c11 import extra_hooks as std_hooks
from props import c09 as A

FX, FY = 7, 8


def field_hooks(xopt, yopt):
    def tok(ex, v):
        v = ex.deref(v)
        while isinstance(v, Ptr): v = v.get()
        if isinstance(v, V.StrTok): return v.tok
        raise Unsupported('field name token expected, got %r' % (v,))

    def h_event_get(ex, st, callee, args):
        t = z3.simplify(tok(ex, args[1]))
        if z3.is_bv_value(t): return xopt if t.as_long() == FX else yopt
        raise Unsupported('symbolic field name')

    def h_bind_get(ex, st, callee, args): return models.none()

    def h_cloned(ex, st, callee, args):
        o = args[0]
        if not isinstance(o, Enum): raise Unsupported('cloned on %r' % (o,))
        p = o.fields.get('Some')
        v = ex.deref(p[0]) if p else Opaque('none')
        return Enum('Option', o.disc, {'Some': [v], 'None': []})

    def h_or_else(ex, st, callee, args):
        from vlib.containers import call_closure
        from vlib.symex import Fork
        o, clo = args
        return Fork([(o.disc == 1, lambda ex, st, a: a[0]), (o.disc != 1, lambda ex, st, a: call_closure(ex, a[1], [], st=st))])
    def h_str_ref(ex, st, callee, args):
        v = args[0]
        while isinstance(v, Ptr): v = v.get()
        return box(v) if isinstance(v, V.StrTok) else NotImplemented       # keep the field-name token through &String -> &str
    return [(r'^<(?:std::string::)?String as (?:std::ops::)?Deref>::deref$|^(?:std::string::)?String::as_str$|^<(?:std::string::)?String as AsRef<str>>::as_ref$', h_str_ref),
            (r'^HashMap::<(?:std::string::)?String, (?:varpulis_core::)?Value, .*>::get::<.*>$', h_bind_get), (r'^(?:event::)?Event::get(?:::<.*>)?$', h_event_get),
            (r'^(?:std::option::)?Option::<&(?:varpulis_core::)?Value>::cloned$', h_cloned), (r'^(?:std::option::)?Option::<(?:varpulis_core::)?Value>::or_else::<.*>$', h_or_else)]


def field(tag, cls):
    if cls == 'missing':
        v, c = V.sym_value(tag, ['Null']); present = BoolVal(False)
    else:
        v, c = V.sym_value(tag, [cls]); present = BoolVal(True)
    return v, c, Enum('Option', If(present, BitVecVal(1, 64), BitVecVal(0, 64)), {'Some': [box(v)], 'None': []})


def job(neg, bop, xcls, ycls):
    t0 = time.time()
    exprs = V.variants()['Expr']; binops = V.variants()['BinOp']; unops = V.variants()['UnaryOp']
    l1, l2 = BitVec('lit1', 64), BitVec('lit2', 64)
    def lit(v): return Enum('Expr', BitVecVal(exprs.index('Int'), 64), {'Int': [v]})
    def ident(t): return Enum('Expr', BitVecVal(exprs.index('Ident'), 64), {'Ident': [V.StrTok(BitVecVal(t, 16))]})
    def binary(op, a, b): return Enum('Expr', BitVecVal(exprs.index('Binary'), 64), {'Binary': [Enum('BinOp', BitVecVal(binops.index(op), 64), {op: []}), box(a), box(b)]})
    e = binary(bop, binary('Gt', ident(FX), lit(l1)), binary('Eq', ident(FY), lit(l2)))
    if neg: e = Enum('Expr', BitVecVal(exprs.index('Unary'), 64), {'Unary': [Enum('UnaryOp', BitVecVal(unops.index('Not'), 64), {'Not': []}), box(e)]})
    xv, cx, xopt = field('x', xcls); yv, cy, yopt = field('y', ycls)
    base = field_hooks(xopt, yopt) + A.str_hooks() + std_hooks() + [(r'^Box::<.*>::new$', lambda ex, st, callee, args: box(args[0]))]
    mk = lambda: V.ValExec(A._MODS, base + [(rx.pattern, fn) for rx, fn in containers.container_hooks()])
    ext = mk(); st0 = State(); st0.path.assume(And(cx, cy))
    tres = ext.run('expr_to_sase_predicate', [box(e)], st=st0)
    queries = ext.queries; solver_s = ext.solver_s; inc = list(ext.inconclusive); verdicts = []
    for tr in tres:
        if tr.status != 'return': continue
        po = tr.ret
        if not isinstance(po, Enum) or not po.fields.get('Some'):
            verdicts.append({'name': 'the filter translates to a step predicate', 'dir': 'translation', 'status': 'violated', 'secs': 0.0, 'kind': 'post'}); continue
        pred = po.fields['Some'][0]
        exs = mk(); s1 = State(); s1.path.pc = list(tr.path.pc)
        sres = exs.run(exs.find_func('eval_expr_with_functions'), [box(e), box(Opaque('event')), box(Opaque('ctx')), box(Opaque('functions')), box(Opaque('bindings'))], st=s1)
        exp = mk(); s2 = State(); s2.path.pc = list(tr.path.pc)
        pres = exp.run('eval_predicate', [box(pred), box(Opaque('event')), box(Opaque('captured'))], st=s2)
        queries += exs.queries + exp.queries; solver_s += exs.solver_s + exp.solver_s; inc += exs.inconclusive + exp.inconclusive
        n0 = len(tr.path.pc)
        for a in sres:
            for b in pres:
                if a.status != 'return' or b.status != 'return': continue
                acc_s = V.opt_is_some_bool(a.ret, BoolVal(True)); acc_p = b.ret
                pc = a.path.pc + b.path.pc[n0:]
                for dirn, extra in (('stream-only', And(acc_s, Not(acc_p))), ('step-only', And(Not(acc_s), acc_p))):
                    s = z3.Solver(); s.set('timeout', 60000); s.add(*pc); s.add(extra)
                    t1 = time.time(); rc = s.check(); dt = time.time() - t1; queries += 1; solver_s += dt
                    d = {'name': 'no event is accepted %s' % dirn, 'dir': dirn, 'status': 'proved' if rc == z3.unsat else ('violated' if rc == z3.sat else 'unknown'), 'secs': dt, 'kind': 'post'}
                    if rc == z3.sat:
                        m = s.model()
                        def sh(cls, v): return str(m.eval(v.fields['Int'][0], True).as_signed_long()) if cls == 'Int' else '-'
                        d['witness'] = {'x': [xcls, sh(xcls, xv)], 'y': [ycls, sh(ycls, yv)], 'l1': m.eval(l1, True).as_signed_long(), 'l2': m.eval(l2, True).as_signed_long()}
                    verdicts.append(d)
    return {'neg': neg, 'bop': bop, 'xcls': xcls, 'ycls': ycls, 'paths': len(verdicts), 'verdicts': verdicts, 'queries': queries, 'solver_s': solver_s, 'inconclusive': inc, 'wall_s': time.time() - t0}


def _worker(a):
    try:
        return job(*a)
    except Exception as e:
        import traceback; traceback.print_exc()
        return {'neg': a[0], 'bop': a[1], 'xcls': a[2], 'ycls': a[3], 'error': '%s: %s' % (type(e).__name__, e), 'verdicts': [], 'paths': 0, 'queries': 0, 'solver_s': 0, 'inconclusive': []}


CLS = ['Int', 'Null', 'missing']
TASKS = [(neg, bop, xc, yc) for neg in (False, True) for bop in ('And', 'Or') for xc in CLS for yc in CLS]
