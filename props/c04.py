"""C04 — partitioned windows act as independent per-key windows: the routing step (engine M).

PartitionedTumblingWindow / PartitionedSlidingWindow / PartitionedSessionWindow ::add_shared are executed from their MIR on a partition
table (FxHashMap<String, Window> as an entry list) with 0..2 (thorough 3) existing partitions under distinct symbolic keys, against an
event whose partition field is missing or has an arbitrary value (its partition key is an arbitrary string token: equal to an existing
key, to "default", or new).  The per-window add (TumblingWindow::add_shared ...) is the subject of C12 / C13 and is cut here: it records which
window object received which event.
Obligations:
  route     exactly one window receives the event, and it is the window stored under the event's partition key ("default" when the field
            is missing)
  fresh     a key that has no window yet gets a new one built from the configured parameters (duration / size + slide / gap) and only then
  frame     every other partition keeps its key and its window object untouched; no partition disappears
  result    the caller gets exactly what that window's add returned
Together with the per-window obligations of C12 / C13 this gives: events with different partition keys never share or influence a window.
"""
import re
import time

import z3
from z3 import BitVec, BitVecVal, And, Or, Not, If, BoolVal, Implies

from vlib import mirdump, models, containers
from vlib.symex import Ptr, Opaque, box, State, Enum, Exec, Unsupported, Fork, Inline, discharge, StrConst
from vlib.containers import ListModel, call_closure
from vlib.models import some, none
from props.zddmodel import struct_fields
from props import winmodel as W
from props import valmodel as V

_MOD = None
KINDS = {'PartitionedTumblingWindow': ('TumblingWindow', ['duration']), 'PartitionedSlidingWindow': ('SlidingWindow', ['window_size', 'slide_interval']), 'PartitionedSessionWindow': ('SessionWindow', ['gap']),
         # the count-based partitioned states live in engine/types.rs (crate-private; their method is `add`); the inner window stores `window_size` as `count` / as is
         'PartitionedWindowState': ('CountWindow', ['window_size']), 'PartitionedSlidingCountWindowState': ('SlidingCountWindow', ['window_size', 'slide_size'])}
WHERE = {'PartitionedWindowState': ('engine/types.rs', 'engine::types', 'add', {'window_size': 'count'}), 'PartitionedSlidingCountWindowState': ('engine/types.rs', 'engine::types', 'add', {})}
DEFAULT = BitVec('key_default', 16)          # the token of the literal "default"


def load(ctx=None):
    global _MOD
    m, info = mirdump.load('runtime', closures=True)
    _MOD = m
    if ctx is not None:
        ctx.functions.append({'crate': info['crate'], 'source_hash': info['source_hash'], 'mir_functions': info['functions'], 'dump_s': info['dump_s']})


from vlib import maps
MapM = maps.MapM


class EvData:
    def __init__(self, opt): self.opt = opt


def tok(a):
    v = a
    while isinstance(v, Ptr): v = v.get()
    if isinstance(v, V.StrTok): return v.tok
    if isinstance(v, StrConst):
        if v.lit.strip('"') == 'default': return DEFAULT
        raise Unsupported('string literal %s' % v.lit)
    raise Unsupported('string token expected, got %r' % (v,))


def hooks(inner):
    def mp(a):
        v = a
        while isinstance(v, Ptr): v = v.get()
        if isinstance(v, MapM): return v
        raise Unsupported('partition table expected, got %r' % (v,))

    def h_event_get(ex, st, callee, args):
        e = args[0]
        while isinstance(e, Ptr) and isinstance(e.get(), Ptr): e = e.get()
        ev = e.get() if isinstance(e, Ptr) else e
        return ev[2].opt

    def h_partition_key(ex, st, callee, args):
        v = args[0]
        while isinstance(v, Ptr): v = v.get()
        return V.StrTok(v['key'])          # the value's partition key (an arbitrary string)

    def h_event_get_str(ex, st, callee, args):
        # Event::get_str: the field's string content when the field is present AND holds a Str (whose partition key is that very string)
        e = args[0]
        while isinstance(e, Ptr) and isinstance(e.get(), Ptr): e = e.get()
        ev = e.get() if isinstance(e, Ptr) else e
        o = ev[2].opt
        pay = (o.fields.get('Some') or [None])[0]
        v = pay
        while isinstance(v, Ptr): v = v.get()
        if not isinstance(v, dict): return none()
        cond = And(o.disc == 1, v['is_str'])
        return Fork([(cond, lambda ex, st, a: some(box(V.StrTok(a[0]['key'])))), (Not(cond), lambda ex, st, a: none())], args=[v])

    def h_identity(ex, st, callee, args): return args[0]
    def h_to_string(ex, st, callee, args): return V.StrTok(tok(args[0]))
    def h_str_ref(ex, st, callee, args): return box(V.StrTok(tok(args[0])))
    def h_entry(ex, st, callee, args): return ['entry', args[0], args[1]]

    def h_or_insert_with(ex, st, callee, args):
        e = args[0]; m = mp(e[1]); k = tok(e[2])
        def tbl(a): return mp(a[0][1])
        alts = [(tok(x[0]) == k, (lambda i: lambda ex, st, a: Ptr(tbl(a).entries[i], 1))(i)) for i, x in enumerate(m.entries)]
        class Ins:
            def __init__(self, a): self.a = a
            def step(self, ex, st, rv):
                t = tbl(self.a); t.entries.append([V.StrTok(tok(self.a[0][2])), rv]); st.roots['created'] = st.roots.get('created', 0) + 1
                return Ptr(t.entries[-1], 1)
        def fresh(ex, st, a):
            r = call_closure(ex, a[1], [], cont=Ins(a), st=st)
            if isinstance(r, Inline): return r
            return Ins(a).step(ex, st, r)
        alts.append((And(*[tok(x[0]) != k for x in m.entries]) if m.entries else BoolVal(True), fresh))
        if len(alts) == 1: return alts[0][1](ex, st, args)
        return Fork(alts)

    def h_inner_add(ex, st, callee, args):
        p = args[0]
        while isinstance(p, Ptr) and isinstance(p.get(), Ptr): p = p.get()
        ev = args[1]
        while isinstance(ev, Ptr) and isinstance(ev.get(), Ptr): ev = ev.get()
        st.roots['touched'] = st.roots.get('touched', []) + [(id(p.c), p.k)]
        st.roots['touched_cells'] = st.roots.get('touched_cells', []) + [p.c]
        k = len(st.roots['touched'])
        return ['add-result', k]

    S = r'(?:std::string::)?String'
    return [
        (r'^(?:event::)?Event::get(?:::<.*>)?$', h_event_get), (r'^(?:event::)?Event::get_str$', h_event_get_str),
        (r'^(?:varpulis_core::)?Value::to_partition_key$', h_partition_key), (r'^Cow::<\'_, str>::into_owned$', h_identity),
        (r'^<str as ToString>::to_string$', h_to_string), (r'^<%s as (?:std::ops::)?Deref>::deref$' % S, h_str_ref),
        (r'^<Arc<(?:event::)?Event> as (?:std::ops::)?Deref>::deref$', lambda ex, st, callee, args: (args[0].get() if isinstance(args[0], Ptr) and isinstance(args[0].get(), Ptr) else args[0])),
    ] + maps.hooks(r'HashMap::<%s, %s, FxBuildHasher>' % (S, inner), literals={'default': DEFAULT}, key_ctor=lambda t: V.StrTok(t)) + [
        (r'^<TimeDelta as (?:std::ops::)?Add>::add$', lambda ex, st, callee, args: ex.deref(args[0]) + ex.deref(args[1])),
        (r'^<&?%s as Clone>::clone$|^(?:std::option::)?Option::<&%s>::cloned$' % (S, S), lambda ex, st, callee, args: NotImplemented),
        (r'^%s::add_shared$' % inner, h_inner_add),
        (r'^<HashMap<Arc<str>, .*> as Default>::default$', lambda ex, st, callee, args: Opaque('columns')),
    ]


def job(spec):
    outer, n, present = spec
    inner, params = KINDS[outer]
    t0 = time.time()
    wsrc = open(mirdump.crate_dir('runtime') + '/src/window.rs').read()
    rel, modpath, method, rename = WHERE.get(outer, ('window.rs', 'window', 'add_shared', {}))
    src = open(mirdump.crate_dir('runtime') + '/src/' + rel).read()
    of = struct_fields(src, outer)
    if not of or set(of) != set(['partition_key', 'windows'] + params): raise Unsupported('%s fields changed: %s' % (outer, of))
    hk = [(re.compile(p), f) for p, f in hooks(inner) + W.HOOKS] + containers.container_hooks() + models.generic_hooks()
    ex = Exec([_MOD], hk, variants=V.variants(), loop_bound=8, step_budget=200000)
    keys = [BitVec('pk%d' % i, 16) for i in range(n)]
    cons = [keys[a] != keys[b] for a in range(n) for b in range(a + 1, n)]
    wins = [['#w%d' % i] for i in range(n)]
    table = MapM([[V.StrTok(keys[i]), wins[i]] for i in range(n)])
    pvals = {p: BitVec('param_' + p, 64) for p in params}
    cons += [And(v >= 1, v < W.D_MAX) for v in pvals.values()]
    vals = {'partition_key': V.StrTok(BitVecVal(1, 16)), 'windows': table}; vals.update(pvals)
    outer_v = [vals[f] for f in of]
    ekey = BitVec('event_key', 16)
    value = {'key': ekey, 'is_str': z3.Bool('event_key_is_str')}      # the field's value: its partition key token, and whether it is a Str (integers, floats ... are not)
    opt = Enum('Option', BitVecVal(1 if present else 0, 64), {'Some': [box(value)], 'None': []})
    evcell = [[Opaque('type'), BitVec('ts', 64), EvData(opt), '#e']]
    cell = [outer_v]
    st0 = State(roots={'cell': cell, 'touched': [], 'touched_cells': [], 'created': 0}); st0.path.assume(And(*cons) if cons else BoolVal(True))
    line = src[:src.index('impl %s {' % outer)].count('\n') + 1
    fns = [x for x in _MOD.funcs if re.search(r'^%s::<impl at crates/varpulis-runtime/src/%s:%d:[^>]*>::%s$' % (re.escape(modpath), re.escape(rel), line, method), x)]
    if len(fns) != 1: raise Unsupported('%s::%s: %s' % (outer, method, fns))
    res = ex.run(_MOD.funcs[fns[0]], [Ptr(cell, 0), Ptr(evcell, 0)], st=st0)
    verdicts = []; stats = {'q': 0, 's': 0.0}
    def prove(pc, cond, nm, wit):
        s = z3.Solver(); s.set('timeout', 30000); s.add(*pc); s.add(Not(cond))
        t = time.time(); rc = s.check(); dt = time.time() - t; stats['q'] += 1; stats['s'] += dt
        d = {'name': nm, 'status': 'proved' if rc == z3.unsat else ('violated' if rc == z3.sat else 'unknown'), 'secs': dt, 'kind': 'post'}
        if rc == z3.sat: d['witness'] = wit(s.model())
        verdicts.append(d)
    for v in discharge(ex, res, None, timeout_ms=30000):
        verdicts.append({'name': v.name, 'status': v.status, 'secs': v.secs, 'kind': v.kind})
    want_key = ekey if present else DEFAULT
    def wit(m):
        return {'window': outer, 'keys': [m.eval(k, True).as_long() for k in keys], 'event_key': (m.eval(ekey, True).as_long() if present else 'missing'), 'default': m.eval(DEFAULT, True).as_long()}
    for r in res:
        if r.status != 'return': continue
        pc = r.path.pc
        out = r.st.roots['cell'][0]; tb = out[of.index('windows')]
        touched = r.st.roots['touched_cells']
        ents = tb.entries
        prove(pc, BoolVal(len(touched) == 1), 'route: exactly one window receives the event', wit)
        if len(touched) != 1: continue
        idx = [i for i, e in enumerate(ents) if e is touched[0]]
        prove(pc, BoolVal(len(idx) == 1), 'route: the receiving window is stored in the partition table', wit)
        if len(idx) != 1: continue
        i = idx[0]
        prove(pc, tok(ents[i][0]) == want_key, 'route: the receiving window is the one under the event\'s partition key ("default" when the field is missing)', wit)
        existing = Or(*[k == want_key for k in keys]) if keys else BoolVal(False)
        if i < n:
            prove(pc, And(BoolVal(len(ents) == n), existing), 'fresh: no window is created for a key that already has one', wit)
        else:
            w = ents[i][1]
            while isinstance(w, Ptr): w = w.get()
            inner_f = struct_fields(wsrc, inner)
            same_params = BoolVal(True)
            if inner_f and isinstance(w, list):
                try:
                    same_params = And(*[w[inner_f.index(rename.get(p, p))] == pvals[p] for p in params])
                except (ValueError, KeyError):
                    same_params = BoolVal(False)
            prove(pc, And(BoolVal(len(ents) == n + 1 and i == n), Not(existing), same_params), 'fresh: a new key gets exactly one new window, built from the configured parameters', wit)
        frame = And(*[And(tok(ents[j][0]) == keys[j], BoolVal(ents[j][1] == wins[j])) for j in range(n)]) if n else BoolVal(True)
        prove(pc, And(BoolVal(len(ents) >= n), frame), 'frame: every existing partition keeps its key and its window object', wit)
        prove(pc, BoolVal(isinstance(r.ret, list) and r.ret[:1] == ['add-result']), 'result: the caller receives what that window returned', wit)
    return {'spec': [str(x) for x in spec], 'verdicts': verdicts, 'paths': len(res), 'queries': ex.queries + stats['q'], 'solver_s': ex.solver_s + stats['s'], 'inconclusive': list(ex.inconclusive), 'wall_s': time.time() - t0}


def _worker(spec):
    try:
        return job(spec)
    except Exception as e:
        import traceback; traceback.print_exc()
        return {'spec': [str(x) for x in spec], 'error': '%s: %s' % (type(e).__name__, e), 'verdicts': [], 'paths': 0, 'queries': 0, 'solver_s': 0, 'inconclusive': []}


def run(ctx):
    from concurrent.futures import ProcessPoolExecutor
    import multiprocessing as mp
    from vlib import replay
    from vlib.driver import Finding
    load(ctx)
    ctx.engines.append('M (MIR symbolic execution -> Z3)')
    nmax = 3 if ctx.tier == 'thorough' else 2
    ctx.bounds = {'tables': '0..%d existing partitions under distinct symbolic keys; the event\'s partition field missing or present with an arbitrary key token (equal to an existing key, to "default", or new)' % nmax,
                  'windows': list(KINDS),
                  'outside': 'the per-window add itself (C12 / C13), Value::to_partition_key (which values share a key: Int 1, Float 1.0 and Str "1" all render as "1" — formatting code), partitioned pattern run sets and aggregates, flush / check_expired / checkpoint of the partitioned wrappers'}
    ctx.assumptions += ['the partition key of a value is an arbitrary string token (to_partition_key is cut)', 'the per-window add_shared is cut: it records the receiving window object', 'FxHashMap as an entry list with distinct keys']
    tasks = [(outer, n, present) for outer in KINDS for n in range(0, nmax + 1) for present in (True, False)]
    from props import c04neg
    ntasks = c04neg.tasks(ctx.tier)
    ctx.bounds['negation'] = 'SaseEngine::check_global_negations on an engine with one `.not` clause (forbidden type symbolic, predicate absent or `x OP literal`), partitioned (two partitions under distinct symbolic keys, one run each, event field missing or any key token) or not'
    with ProcessPoolExecutor(max_workers=12, mp_context=mp.get_context('fork')) as pool:
        res = list(pool.map(_worker, tasks))
        nres = list(pool.map(c04neg._worker, ntasks))
    # partition key normalisation (Value::to_partition_key on Str / Int keys): props/c04key.py
    from props import c04key
    c04key.load(ctx)
    ctx.bounds['partition_key'] = 'Value::to_partition_key from MIR on a symbolic Str / Int value (all 64 bits of the integer); <i64 as ToString>::to_string is the uninterpreted injective rendering dec(n), any other callee an arbitrary string (a failing obligation is replayed natively on 12 strings and 15 integers incl. negatives and the extremes before it is reported)'
    ctx.assumptions += ['i64::to_string is injective (std)']
    c04key.collect(ctx, c04key._worker(('partkey',)))
    binp = None; seen = set()
    for r in nres:
        tgt = 'SaseEngine::check_global_negations'; cls = ' '.join(r['spec'][1:])
        if r.get('error'):
            ctx.inconclusive.append('%s (%s): %s' % (tgt, cls, r['error'])); continue
        for why in sorted(set(r['inconclusive'])): ctx.inconclusive.append('%s (%s): %s' % (tgt, cls, why))
        ctx.queries += r['queries']; ctx.solver_s += r['solver_s']
        ctx.add_obligations(tgt, r['verdicts'], cls=cls)
        ctx.samples.append({'class': tgt + ' ' + cls, 'paths': r['paths']})
        for v in r['verdicts']:
            if v['status'] != 'violated': continue
            key = 'check_global_negations:%s' % v['name'].split(':')[0]
            if key in seen: continue
            seen.add(key)
            w = v.get('witness') or {}
            ctx.findings.append(Finding(key, '%s %s: %s (witness %s)' % (tgt, cls, v['name'], w), [replay.build('rt'), 'negpart'], w))
    for r in res:
        tgt = '%s::%s' % (r['spec'][0], WHERE.get(r['spec'][0], (0, 0, 'add_shared'))[2]); cls = '%s partitions, field %s' % (r['spec'][1], 'present' if r['spec'][2] == 'True' else 'missing')
        if r.get('error'):
            ctx.inconclusive.append('%s (%s): %s' % (tgt, cls, r['error'])); continue
        for why in sorted(set(r['inconclusive'])): ctx.inconclusive.append('%s (%s): %s' % (tgt, cls, why))
        ctx.queries += r['queries']; ctx.solver_s += r['solver_s']
        ctx.add_obligations(tgt, r['verdicts'], cls=cls)
        ctx.samples.append({'class': tgt + ' ' + cls, 'paths': r['paths']})
        for v in r['verdicts']:
            if v['status'] != 'violated': continue
            key = '%s:%s' % (r['spec'][0], v['name'].split(':')[0])
            if key in seen: continue
            seen.add(key)
            w = v.get('witness') or {}
            if binp is None: binp = replay.build('rt', rustflags='--cfg varpulis_verif')
            ctx.findings.append(Finding(key, '%s %s: %s (witness %s)' % (tgt, cls, v['name'], w), [binp, 'partwin', r['spec'][0]], w))
    ctx.models += sorted(models.USED)
