"""C02 — sequence patterns report exactly the earliest completion of every start event (engine M, step form).

The statement quantifies over whole streams; it is the consequence of four one-step facts about varpulis-runtime/src/sase.rs, each decided here
(or re-decided here from C01's machinery) from an arbitrary state:

  runset    process_runs_shared / process_partition_shared on a run set of 0..3 (thorough 4) runs, advance_run_shared cut and returning an
            ARBITRARY result per run (Continue / Complete / CompleteAndContinue / CompleteMulti / Invalidate / NoMatch), every run timed out /
            invalidated or not: every live run is advanced exactly once by this event (the swap_remove loop neither skips nor repeats a run),
            a run that completes is reported exactly once and leaves the set (so only its earliest completion can ever be reported), a run that
            continues or does not match stays, a dead or invalidated run is dropped without being advanced, nothing else enters the set
  wiring    process_shared and process_shared_with_result with their callees cut: time-outs and global negations are applied first, then the
            existing runs of the event's partition see the event, THEN a run start is attempted with the same event — whatever the event did
            to the existing runs — and a started run goes to the backpressure handler of the same partition; the caller gets exactly the
            completions of the run-set step
  greedy    (C01 machinery, re-run here) a run advances at an event iff some successor accepts it, through the first such successor; otherwise it
            is returned untouched: each step is taken by the EARLIEST later event that satisfies it
  start     (C01 machinery) a run is started iff a first-step candidate accepts the event
Native replay: SaseEngine::process against an independent earliest-continuation reference on every stream of <= 5 events over a small alphabet.
"""
import itertools
import re
import time

import z3
from z3 import BitVec, BitVecVal, And, Or, Not, If, BoolVal, Implies

from vlib import mirdump, models, containers
from vlib.symex import Ptr, Opaque, box, State, Enum, Exec, Unsupported, Fork, discharge
from vlib.containers import ListModel
from vlib.models import some, none
from props.zddmodel import struct_fields
from props import valmodel as V
from props import c01 as B
from props import c05 as BP

RES = B.RESULTS
KEEP = ('Continue', 'NoMatch', 'CompleteAndContinue')


def load(ctx=None):
    B.load(ctx)
    BP._MOD = B._MODS[0]


def deref(v):
    while isinstance(v, Ptr): v = v.get()
    return v


def run_tag(r):
    r = deref(r)
    return r[0] if isinstance(r[0], str) else None


class Prover:
    def __init__(self): self.verdicts = []; self.q = 0; self.s = 0.0
    def prove(self, pc, cond, nm, wit=None):
        s = z3.Solver(); s.set('timeout', 60000); s.add(*pc); s.add(Not(cond))
        t = time.time(); rc = s.check(); dt = time.time() - t; self.q += 1; self.s += dt
        d = {'name': nm, 'status': 'proved' if rc == z3.unsat else ('violated' if rc == z3.sat else 'unknown'), 'secs': dt, 'kind': 'post'}
        if rc == z3.sat and wit: d['witness'] = wit(s.model())
        self.verdicts.append(d)


def mk_exec(extra, src):
    variants = dict(V.variants())
    for name, exp in (('StateType', B.STATE_TYPES), ('RunAdvanceResult', RES)):
        got = B.enum_list(src, name)
        if got != exp: raise Unsupported('%s variants changed: %s' % (name, got))
        variants[name] = list(exp)
    ts = B.enum_list(src, 'TimeSemantics')
    if ts != ['ProcessingTime', 'EventTime']: raise Unsupported('TimeSemantics changed: %s' % ts)
    variants['TimeSemantics'] = ts
    def h_extend(ex, st, callee, args):
        d = deref(args[0]); s = deref(args[1])
        if not isinstance(d, ListModel) or not isinstance(s, ListModel): return NotImplemented
        d.items.extend(s.items)
        return []
    extra = list(extra) + [(r'^<Vec<(?:sase::)?MatchResult> as Extend<(?:sase::)?MatchResult>>::extend::<Vec<(?:sase::)?MatchResult>>$', h_extend)]
    hk = [(re.compile(p), f) for p, f in list(extra) + BP.hooks() + B.hooks() + B.std_hooks()] + containers.container_hooks() + models.generic_hooks()
    return Exec(B._MODS, hk, variants=variants, loop_bound=40, step_budget=400000)


def find(rx):
    fns = [x for x in B._MODS[0].funcs if re.search(rx, x)]
    if len(fns) != 1: raise Unsupported('%s: %s' % (rx, fns))
    return B._MODS[0].funcs[fns[0]]


def mk_tagged_run(tag, rf):
    """a run identified by a tag: field 0 of the struct image carries it (the cut callees never look inside)"""
    vals = {f: Opaque('run.%s.%s' % (tag, f)) for f in rf}
    vals['invalidated'] = z3.Bool('invalidated_' + tag)
    vals['deadline'] = none()
    run = [vals[f] for f in rf]
    return run


def job_runset(spec):
    """('runset', n, partitioned)"""
    _, n, partitioned = spec[:3]
    t0 = time.time()
    src = open(mirdump.crate_dir('runtime') + '/src/sase.rs').read()
    rf = struct_fields(src, 'Run'); gf = struct_fields(src, 'SaseEngine'); mf = struct_fields(src, 'MatchResult')
    if not rf or not gf or mf != ['captured', 'stack', 'duration'] or not {'runs', 'partitioned_runs', 'nfa', 'strategy', 'max_kleene_events', 'max_enumeration_results'} <= set(gf):
        raise Unsupported('sase.rs structs changed')
    tags = ['r%d' % i for i in range(n)]
    runs = [mk_tagged_run(t, rf) for t in tags]
    ident = {id(r): t for r, t in zip(runs, tags)}

    def tag_of(st, p):
        r = deref(p)
        for t, rr in st.roots['byid'].items():
            if rr is r: return t
        raise Unsupported('unknown run object')

    def h_timed_out(ex, st, callee, args):
        return z3.Bool('timed_out_' + tag_of(st, args[0]))

    def h_advance(ex, st, callee, args):
        t = tag_of(st, args[2])
        ev = B.ev_tag(args[3]) if True else None
        alts = []
        for k, kind in enumerate(RES):
            def mk(kind, t, ev):
                def f(ex, st, a):
                    st.roots['advanced'].append((t, kind, ev))
                    if kind in ('Complete', 'CompleteAndContinue'): pay = [['match:' + t]]
                    elif kind == 'CompleteMulti': pay = [ListModel([['match:%s:0' % t], ['match:%s:1' % t]])]
                    else: pay = []
                    return Enum('RunAdvanceResult', BitVecVal(RES.index(kind), 64), {kind: pay})
                return f
            alts.append((BitVec('result_' + t, 8) == k, mk(kind, t, ev)))
        return Fork(alts)

    extra = [(r'^(?:sase::)?(?:<impl at [^>]*>|Run)::is_timed_out$', h_timed_out), (r'^(?:sase::)?advance_run_shared$', h_advance),
             (r'^std::time::Instant::now$', lambda ex, st, callee, args: BitVec('now', 64))]
    if partitioned:
        from vlib import maps
        extra += maps.hooks(r'HashMap::<(?:std::string::)?String, Vec<(?:sase::)?Run>, FxBuildHasher>', {}, None) if hasattr(maps, 'hooks') else []
    ex = mk_exec(extra, src)
    event, ety, c = B.mk_event('e', ['Int', 'Null'])
    gvals = {f: Opaque('engine.' + f) for f in gf}
    gvals['max_kleene_events'] = BitVec('max_events', 32); gvals['max_enumeration_results'] = BitVec('max_results', 64)
    sv = V.variants().get('SelectionStrategy'); gvals['strategy'] = Enum('SelectionStrategy', BitVecVal(0, 64), {sv[0]: []})
    cons = [c] + [z3.ULE(BitVec('result_' + t, 8), len(RES) - 1) for t in tags]
    runlist = ListModel(runs)
    if partitioned:
        from vlib import maps
        key = V.StrTok(BitVec('key', 16)); other = V.StrTok(BitVec('other_key', 16)); cons.append(key.tok != other.tok)
        other_runs = ListModel([mk_tagged_run('x0', rf)])
        present = spec[3] if len(spec) > 3 else True
        entries = [[other, other_runs]] + ([[V.StrTok(key.tok), runlist]] if present else [])
        gvals['partitioned_runs'] = maps.MapM(entries)
        gvals['runs'] = ListModel([mk_tagged_run('g0', rf)])
    else:
        gvals['runs'] = runlist
    engine = [gvals[f] for f in gf]
    cell = [engine]
    byid = {t: r for t, r in zip(tags, runs)}
    st0 = State(roots={'cell': cell, 'advanced': [], 'byid': byid}); st0.path.assume(And(*cons))
    if partitioned:
        res = ex.run(find(r'^sase::(?:<impl at [^>]*>|SaseEngine)::process_partition_shared$'), [Ptr(cell, 0), box(key), event], st=st0)
    else:
        res = ex.run(find(r'^sase::(?:<impl at [^>]*>|SaseEngine)::process_runs_shared$'), [Ptr(cell, 0), event], st=st0)
    P = Prover()
    for v in discharge(ex, res, None, timeout_ms=30000):
        P.verdicts.append({'name': v.name, 'status': v.status, 'secs': v.secs, 'kind': v.kind})
    def wit(m):
        return {'runs': n, 'partitioned': bool(partitioned), 'results': [RES[min(m.eval(BitVec('result_' + t, 8), True).as_long(), len(RES) - 1)] for t in tags],
                'timed_out': [bool(z3.is_true(m.eval(z3.Bool('timed_out_' + t), True))) for t in tags], 'invalidated': [bool(z3.is_true(m.eval(z3.Bool('invalidated_' + t), True))) for t in tags]}
    for r in res:
        if r.status != 'return': continue
        pc = list(r.path.pc)
        eng = r.st.roots['cell'][0]
        adv = r.st.roots['advanced']
        if partitioned:
            pm = deref(eng[gf.index('partitioned_runs')])
            mine = [e for e in pm.entries if len(e[1].items) == 0 or not any(x is r.st.roots['byid'].get('x0') for x in [])]
            # the list under the event's key is the object `runlist` (copied with the state): find it by its position
            after = None
            for e in pm.entries:
                if e is not pm.entries[0]: after = deref(e[1])
            others = deref(pm.entries[0][1])
            P.prove(pc, BoolVal(len(others.items) == 1 and len(deref(eng[gf.index('runs')]).items) == 1), 'runset: the runs of other partitions and the unpartitioned set are left alone', wit)
            if after is None:
                P.prove(pc, BoolVal(adv == [] and len(deref(r.ret).items) == 0 and len(pm.entries) == 1), 'runset: a partition without runs yields nothing and is not created', wit)
                continue
        else:
            after = deref(eng[gf.index('runs')])
        byid_now = r.st.roots['byid']
        left = []
        for x in after.items:
            t = [t for t, rr in byid_now.items() if rr is x]
            left.append(t[0] if t else '?')
        seen = [a[0] for a in adv]
        P.prove(pc, BoolVal(len(seen) == len(set(seen))), 'runset: no run is advanced twice by one event', wit)
        P.prove(pc, BoolVal(all(a[2] == '#e' for a in adv)), 'runset: runs are advanced with this event', wit)
        dead = {t: Or(z3.Bool('timed_out_' + t), z3.Bool('invalidated_' + t)) for t in tags}
        for t in tags:
            P.prove(pc, Not(dead[t]) == BoolVal(t in seen), 'runset: a run is advanced exactly when it is neither timed out nor invalidated (no live run is skipped)', wit)
        kinds = {a[0]: a[1] for a in adv}
        want_left = sorted(t for t in seen if kinds[t] in KEEP)
        P.prove(pc, BoolVal(sorted(left) == want_left), 'runset: exactly the runs that continue, do not match or complete-and-continue stay; completed, invalidated and dead runs leave; nothing else enters', wit)
        out = deref(r.ret)
        got = sorted(x[0] for x in out.items)
        want = sorted(['match:' + t for t in seen if kinds[t] in ('Complete', 'CompleteAndContinue')] + ['match:%s:%d' % (t, j) for t in seen if kinds[t] == 'CompleteMulti' for j in (0, 1)])
        P.prove(pc, BoolVal(got == want), 'runset: every completion of this event is reported exactly once and nothing else is', wit)
    return {'spec': [str(x) for x in spec], 'verdicts': P.verdicts, 'paths': len(res), 'queries': ex.queries + P.q, 'solver_s': ex.solver_s + P.s, 'inconclusive': list(ex.inconclusive), 'wall_s': time.time() - t0}


def job_wiring(spec):
    """('wiring', fn, partitioned, event_time[, busy]): busy = 9 of 10 runs in use (the utilisation warning of process_shared_with_result)"""
    _, fn, partitioned, event_time = spec[:4]
    busy = bool(spec[4]) if len(spec) > 4 else False
    t0 = time.time()
    src = open(mirdump.crate_dir('runtime') + '/src/sase.rs').read()
    rf = struct_fields(src, 'Run'); gf = struct_fields(src, 'SaseEngine')
    need = {'runs', 'partitioned_runs', 'partition_by', 'time_semantics', 'max_runs', 'total_runs_created', 'total_runs_completed'}
    if not rf or not gf or not need <= set(gf): raise Unsupported('sase.rs SaseEngine changed')

    def rec(name, ret):
        def h(ex, st, callee, args):
            st.roots['calls'].append((name, [B.ev_tag(a) if (isinstance(a, Ptr) and isinstance(deref(a), list) and deref(a) and isinstance(deref(a)[-1], str) and deref(a)[-1].startswith('#')) else (deref(a).tok if isinstance(deref(a), V.StrTok) else (deref(a)[0] if isinstance(deref(a), list) and deref(a) and isinstance(deref(a)[0], str) else None)) for a in args[1:]]))
            return ret(ex, st, args)
        return h
    def r_unit(ex, st, a): return []
    def r_completed(ex, st, a): return ListModel([['match:0'], ['match:1']])
    def r_start(ex, st, a):
        return Fork([(z3.Bool('starts'), lambda ex, st, aa: some(['newrun'])), (Not(z3.Bool('starts')), lambda ex, st, aa: none())])
    def r_bp(ex, st, a): return [z3.Bool('added'), none()]
    def r_count(ex, st, a):
        # only feeds the utilisation warning (a float division): small ranges keep that query cheap; the wiring does not depend on it
        return BitVecVal(9 if busy else 1, 64)
    def h_key(ex, st, callee, args): return box(V.StrTok(BitVec('event_key', 16)))
    E = r'^(?:sase::)?(?:<impl at [^>]*>|SaseEngine)::'
    extra = [(E + 'update_watermark$', rec('update_watermark', r_unit)), (E + 'cleanup_timeouts$', rec('cleanup_timeouts', r_unit)), (E + 'check_global_negations$', rec('check_global_negations', r_unit)),
             (E + 'process_runs_shared$', rec('process_runs_shared', r_completed)), (E + 'process_partition_shared$', rec('process_partition_shared', r_completed)),
             (E + 'try_start_run_shared$', rec('try_start_run_shared', r_start)), (E + 'handle_backpressure$', rec('handle_backpressure', r_bp)),
             (E + 'handle_backpressure_partitioned$', rec('handle_backpressure_partitioned', r_bp)), (E + 'total_run_count$', rec('total_run_count', r_count)),
             (r'^(?:varpulis_core::)?(?:value::)?Value::to_partition_key$', lambda ex, st, callee, args: Opaque('cow-key')),
             (r'^<?Cow::<\'_, str>>?::into_owned$|^Cow::<\'_, str>::into_owned$|^std::borrow::Cow::<\'_, str>::into_owned$', lambda ex, st, callee, args: V.StrTok(BitVec('event_key', 16))),
             (r'^(?:std::option::)?Option::<(?:std::string::)?String>::unwrap_or_default$', lambda ex, st, callee, args: Fork([
                 (args[0].disc == 1, lambda ex, st, a: a[0].fields['Some'][0]), (args[0].disc != 1, lambda ex, st, a: V.StrTok(BitVecVal(0, 16)))], args=[args[0]])),
             (r'^<(?:std::string::)?String as Default>::default$', lambda ex, st, callee, args: V.StrTok(BitVecVal(0, 16))),
             (r'^(?:std::string::)?String::as_str$|^<(?:std::string::)?String as (?:std::ops::)?Deref>::deref$', lambda ex, st, callee, args: args[0])]
    ex = mk_exec(extra, src)
    event, ety, c = B.mk_event('e', ['Int', 'Null'])
    gvals = {f: Opaque('engine.' + f) for f in gf}
    created0 = BitVec('created0', 64); completed0 = BitVec('completed0', 64)
    tsn = 'EventTime' if event_time else 'ProcessingTime'
    gvals.update({'partition_by': some(V.StrTok(BitVecVal(7, 16))) if partitioned else none(), 'time_semantics': Enum('TimeSemantics', BitVecVal(['ProcessingTime', 'EventTime'].index(tsn), 64), {tsn: []}),
                  'max_runs': BitVec('max_runs', 64), 'total_runs_created': created0, 'total_runs_completed': completed0})
    engine = [gvals[f] for f in gf]
    cell = [engine]
    st0 = State(roots={'cell': cell, 'calls': []}); st0.path.assume(And(c, z3.ULT(created0, 1 << 60), z3.ULT(completed0, 1 << 60), BitVec('max_runs', 64) == 10))
    res = ex.run(find(E + fn + '$'), [Ptr(cell, 0), event], st=st0)
    P = Prover()
    for v in discharge(ex, res, None, timeout_ms=30000):
        P.verdicts.append({'name': v.name, 'status': v.status, 'secs': v.secs, 'kind': v.kind})
    def wit(m): return {'function': fn, 'partitioned': bool(partitioned), 'event_time': bool(event_time), 'starts': bool(z3.is_true(m.eval(z3.Bool('starts'), True))), 'added': bool(z3.is_true(m.eval(z3.Bool('added'), True)))}
    step = 'process_partition_shared' if partitioned else 'process_runs_shared'
    bp = 'handle_backpressure_partitioned' if partitioned else 'handle_backpressure'
    for r in res:
        if r.status != 'return': continue
        pc = list(r.path.pc)
        calls = [c for c in r.st.roots['calls'] if c[0] != 'total_run_count']
        names = [c[0] for c in calls]
        started = any(n == bp for n in names)
        want = (['update_watermark'] if event_time else []) + ['cleanup_timeouts', 'check_global_negations', step, 'try_start_run_shared'] + ([bp] if started else [])
        P.prove(pc, BoolVal(names == want), 'wiring: time-outs and negations first, then the existing runs see the event, then one run start is attempted, then backpressure for a started run', wit)
        P.prove(pc, z3.Bool('starts') == BoolVal(started), 'wiring: a started run always reaches the backpressure handler; nothing is handed over when no run starts', wit)
        byname = {c[0]: c[1] for c in calls}
        has = lambda lst, s: any(isinstance(a, str) and a == s for a in (lst or []))
        P.prove(pc, BoolVal(has(byname.get(step), '#e') and has(byname.get('try_start_run_shared'), '#e')), 'wiring: the run-set step and the run start both get this event', wit)
        if started: P.prove(pc, BoolVal(has(byname.get(bp), 'newrun')), 'wiring: the run handed to backpressure is the one just started', wit)
        if partitioned and byname.get(step) is not None:
            k1 = [a for a in byname[step] if z3.is_expr(a)] ; k2 = [a for a in (byname.get(bp) or []) if z3.is_expr(a)]
            want_key = If(B.FIELDS['e'][0], BitVec('event_key', 16), BitVecVal(0, 16))       # the empty string when the field is missing
            P.prove(pc, And(BoolVal(len(k1) == 1 and (not started or len(k2) == 1)), *[k == want_key for k in k1 + k2]), 'wiring: the partition of the run-set step and of the new run is the event\'s partition key', wit)
        ret = r.ret
        matches = deref(ret if fn == 'process_shared' else ret[0])
        P.prove(pc, BoolVal(isinstance(matches, ListModel) and [x[0] for x in matches.items] == ['match:0', 'match:1']), 'wiring: the caller gets exactly the completions of the run-set step', wit)
        eng = r.st.roots['cell'][0]
        P.prove(pc, And(eng[gf.index('total_runs_completed')] == completed0 + 2, eng[gf.index('total_runs_created')] == If(And(z3.Bool('starts'), z3.Bool('added')), created0 + 1, created0)), 'wiring: the completed / created counters move with the completions and with an admitted start', wit)
    return {'spec': [str(x) for x in spec], 'verdicts': P.verdicts, 'paths': len(res), 'queries': ex.queries + P.q, 'solver_s': ex.solver_s + P.s, 'inconclusive': list(ex.inconclusive), 'wall_s': time.time() - t0}


JOBS = {'runset': job_runset, 'wiring': job_wiring}
TARGET = {'runset': 'process_runs_shared / process_partition_shared', 'wiring': 'process_shared / process_shared_with_result'}


def run(ctx):
    from concurrent.futures import ProcessPoolExecutor
    import multiprocessing as mp
    from vlib import replay
    from vlib.driver import Finding
    load(ctx)
    ctx.engines.append('M (MIR symbolic execution -> Z3)')
    th = ctx.tier == 'thorough'
    nmax = 4 if th else 3
    ctx.bounds = {'runset': 'run sets of 0..%d runs (plus, partitioned: one other partition and the unpartitioned set, the event\'s partition present or absent); per run: timed out or not, invalidated or not, '
                            'and an arbitrary result of advance_run_shared among its six variants' % nmax,
                  'wiring': 'process_shared and process_shared_with_result, partitioned or not, both time semantics, the event\'s partition field present or missing, a run start that succeeds or not and is admitted or not',
                  'greedy / start': 'the C01 step and start jobs with 1..2 successors / first-step candidates, filters absent, `x OP literal` or `x OP alias.y`',
                  'outside': 'the whole-stream statement itself (it follows by induction over events from the four step facts, the induction is not mechanised), `.not` clauses and AND states, NfaCompiler::compile_pattern '
                             '(that the automaton lists the steps in order), backpressure dropping a started run when the set is full (C05), time-outs (cleanup_timeouts) and global negations (cut), the VPL front end'}
    ctx.assumptions += ['advance_run_shared is cut in the run-set step and returns an arbitrary result (its own behaviour is the greedy step, decided from MIR by the C01 jobs)',
                        'callees of process_shared are cut in the wiring job and their call order, arguments and results are recorded', 'partition map as an entry list with distinct keys',
                        'Value::to_partition_key / Cow::into_owned yield one string token per event']
    tasks = []
    for n in range(0, nmax + 1):
        tasks.append(('runset', n, False))
        tasks.append(('runset', n, True, True))
    tasks.append(('runset', 0, True, False))
    for fn in ('process_shared', 'process_shared_with_result'):
        for partitioned in (False, True):
            for event_time in (False, True):
                for busy in ((False, True) if fn.endswith('result') else (False,)):
                    tasks.append(('wiring', fn, partitioned, event_time, busy))
    # greedy step and run start: C01's jobs (same MIR, same obligations), the subset that carries the "iff" directions
    for nsucc in (1, 2):
        for kinds in itertools.product(['none', 'lit', 'ref'], repeat=nsucc):
            for op in (['Eq', 'Lt'] if any(k != 'none' for k in kinds) else ['Eq']):
                tasks.append(('c01', (nsucc, kinds, op, False, 'quick')))
                tasks.append(('c01', ('start', nsucc, kinds, op, False, 'quick')))
    with ProcessPoolExecutor(max_workers=14, mp_context=mp.get_context('fork')) as pool:
        res = list(pool.map(_worker, tasks))
    binp = None; seen = set()
    for t, r in zip(tasks, res):
        if t[0] == 'c01':
            tgt = 'try_start_run_shared' if t[1][0] == 'start' else 'advance_run_shared'
        else:
            tgt = TARGET[t[0]]
        cls = ' '.join(str(x) for x in r['spec'])
        if r.get('error'):
            ctx.inconclusive.append('%s (%s): %s' % (tgt, cls, r['error'])); continue
        for why in sorted(set(r['inconclusive'])): ctx.inconclusive.append('%s (%s): %s' % (tgt, cls, why))
        ctx.queries += r['queries']; ctx.solver_s += r['solver_s']
        ctx.add_obligations(tgt, r['verdicts'], cls=cls)
        ctx.samples.append({'class': tgt + ' ' + cls, 'paths': r['paths']})
        for v in r['verdicts']:
            if v['status'] != 'violated': continue
            key = '%s:%s' % (tgt.split(' ')[0], v['name'].split(':')[0] if ':' in v['name'] else v['name'][:40])
            if key in seen: continue
            seen.add(key)
            w = v.get('witness') or {}
            if binp is None: binp = replay.build('rt')
            ctx.findings.append(Finding(key, '%s %s: %s (witness %s)' % (tgt, cls, v['name'], w), [binp, 'seqfull'], w))
    ctx.models += sorted(models.USED)


def _worker(spec):
    try:
        if spec[0] == 'c01': return B._worker(spec[1])
        return JOBS[spec[0]](spec)
    except Exception as e:
        import traceback; traceback.print_exc()
        return {'spec': [str(x) for x in spec], 'error': '%s: %s' % (type(e).__name__, e), 'verdicts': [], 'paths': 0, 'queries': 0, 'solver_s': 0, 'inconclusive': []}
