"""C07 — canonical ZDDs, garbage collection preserves live families, iteration order (engine M + bounded lemmas in Z3).

Concrete bounded table: N nodes (var, lo, hi) with symbolic contents, invariant I =
  (a) no node has hi = Empty, (b) child ids < parent id and var(child) > var(parent), (c) no two ids hold the same triple,
  (d) the hash index maps exactly each stored triple to its id, vars < n.
Obligations:
  1. UniqueTable::get_or_create (real MIR, Vec + index-map models) from any such table and any arguments: zero-suppression, returns the
     existing id for an existing triple, otherwise appends exactly one node; I is preserved (given ordered arguments).
  2. lemmas linking the table to the family abstraction used by C06 (model side): distinct ids denote distinct non-terminal families
     (canonicity: same family => same root) and (var, lo, hi) is the decomposition of the node's family at its smallest variable.
  3. ArenaIterator::next / ZddIterator::next driven to exhaustion on any such table and any root: every emitted vector is strictly
     ascending, vectors are pairwise distinct, and together they are exactly the family the root denotes.
  (gc: obligations of ZddArena::gc / remap_to_new_table run with C06 and are reported there and here.)
"""
import copy
import time

import z3
from z3 import BitVec, BitVecVal, And, Or, Not, If, BoolVal, ULT, ULE, UGT, Implies

from vlib import mirdump, symex, models, containers
from vlib.symex import Exec, Enum, Ptr, Opaque, box, discharge, State, Fork, Unsupported
from vlib.containers import ListModel
from props.zddmodel import Universe, struct_fields
import re

_MOD = None
VARIANTS = {'ZddRef': ['Empty', 'Base', 'Node']}


def sym_ref(tag):
    return Enum('ZddRef', BitVec(tag + '_d', 64), {'Node': [BitVec(tag + '_id', 32)], 'Empty': [], 'Base': []})


def rid(r):
    """node id payload of a ZddRef value (terminals built by the MIR carry no payload)"""
    p = r.fields.get('Node')
    if not p:
        p = [BitVecVal(0, 32)]; r.fields['Node'] = p
    return p[0]


def ref_ok(r, nn):
    d = r.disc; i = rid(r)
    return And(Or(d == 0, d == 1, d == 2), Implies(d == 2, ULT(i, nn)))


def ref_eq(a, b):
    return And(a.disc == b.disc, Implies(a.disc == 2, rid(a) == rid(b)))


class Table:
    def __init__(self, n_nodes, nvars, tag='n'):
        self.N = n_nodes; self.nv = nvars
        self.var = [BitVec('%s%d_var' % (tag, i), 32) for i in range(n_nodes)]
        self.lo = [sym_ref('%s%d_lo' % (tag, i)) for i in range(n_nodes)]
        self.hi = [sym_ref('%s%d_hi' % (tag, i)) for i in range(n_nodes)]

    def nodes(self):
        return ListModel([[self.var[i], self.lo[i], self.hi[i]] for i in range(self.N)])

    def invariant(self):
        cs = []
        for i in range(self.N):
            cs += [ULT(self.var[i], self.nv), ref_ok(self.lo[i], i), ref_ok(self.hi[i], i), self.hi[i].disc != 0]
            for ch in (self.lo[i], self.hi[i]):
                for j in range(i):
                    cs.append(Implies(And(ch.disc == 2, rid(ch) == j), UGT(self.var[j], self.var[i])))
            for j in range(i):
                cs.append(Not(And(self.var[i] == self.var[j], ref_eq(self.lo[i], self.lo[j]), ref_eq(self.hi[i], self.hi[j]))))
        return And(*cs) if cs else BoolVal(True)

    def den(self, U):
        """family denoted by every id (bit-vector), by unrolling over ids (children have smaller ids)"""
        d = []
        def of(r):
            e = U.bv(0)
            for j in reversed(range(len(d))):
                e = If(rid(r) == j, d[j], e)
            return If(r.disc == 0, U.bv(0), If(r.disc == 1, U.bv(1), e))
        for i in range(self.N):
            d.append(of(self.lo[i]) | U.addvar(of(self.hi[i]), self.var[i]))
        self._den = d; self._of = of
        return d, of


class IndexMap:
    """FxHashMap<ZddNode, u32> under invariant (d): get(node) = Some(id) iff nodes[id] == node"""
    def __init__(self, nodes): self.nodes = nodes; self.inserted = []


def hooks():
    def h_index_get(ex, st, callee, args):
        m = ex.deref(args[0])
        if not isinstance(m, IndexMap): return NotImplemented
        key = ex.deref(args[1])
        alts = []
        eqs = []
        for i, nd in enumerate(m.nodes.items):
            e = And(key[0] == nd[0], ref_eq(key[1], nd[1]), ref_eq(key[2], nd[2]))
            eqs.append(e)
            alts.append((e, (lambda i: lambda ex, st, a: models.some(box(BitVecVal(i, 32))))(i)))
        alts.append((Not(Or(*eqs)) if eqs else BoolVal(True), lambda ex, st, a: models.none()))
        return Fork(alts)

    def h_index_insert(ex, st, callee, args):
        m = ex.deref(args[0])
        if not isinstance(m, IndexMap): return NotImplemented
        m.inserted.append((args[1], args[2]))
        return models.none()

    def h_vec_clone(ex, st, callee, args):
        l = ex.deref(args[0])
        return ListModel(list(l.items), l.kind)

    def h_node_new(ex, st, callee, args):
        return NotImplemented
    return [(r'^HashMap::<ZddNode, u32, FxBuildHasher>::get::<ZddNode>$', h_index_get), (r'^HashMap::<ZddNode, u32, FxBuildHasher>::insert$', h_index_insert),
            (r'^<Vec<u32> as Clone>::clone$', h_vec_clone)]


def mk_exec(loop_bound=40):
    hk = [(re.compile(p), f) for p, f in hooks()] + containers.container_hooks() + models.generic_hooks()
    return Exec([_MOD], hk, variants=dict(VARIANTS), loop_bound=loop_bound, step_budget=60000)


def table_obj(T):
    src = open(_MOD.src_dir + '/src/table.rs').read()
    f = struct_fields(src, 'UniqueTable') or ['nodes', 'index']
    nodes = T.nodes()
    vals = {'nodes': nodes, 'index': IndexMap(nodes)}
    return [vals[x] for x in f], f


# ------------------------------------------------------------------------------------------ 1. get_or_create
def job_goc(N, nv):
    ex = mk_exec()
    T = Table(N, nv)
    tab, tf = table_obj(T)
    v = BitVec('arg_var', 32); lo = sym_ref('arg_lo'); hi = sym_ref('arg_hi')
    st = State(roots={'tab': tab})
    st.path.assume(And(T.invariant(), ULT(v, nv), ref_ok(lo, N), ref_ok(hi, N)))
    results = ex.run('UniqueTable::get_or_create', [box(tab), v, lo, hi], st=st)
    exists = [And(v == T.var[i], ref_eq(lo, T.lo[i]), ref_eq(hi, T.hi[i])) for i in range(N)]

    def post(r):
        t = r.st.roots['tab']
        nodes = t[tf.index('nodes')].items; idx = t[tf.index('index')]
        rv = r.ret
        out = []
        grew = len(nodes) == N + 1
        out.append(('table only ever grows by at most one node', BoolVal(len(nodes) in (N, N + 1))))
        out.append(('zero-suppression: hi = Empty returns lo and stores nothing', Implies(hi.disc == 0, And(ref_eq(rv, lo), BoolVal(not grew)))))
        for i in range(N):
            out.append(('an existing triple (id %d) is returned, not duplicated' % i, Implies(And(hi.disc != 0, exists[i]), And(rv.disc == 2, rid(rv) == i, BoolVal(not grew)))))
        fresh = And(hi.disc != 0, Not(Or(*exists)) if exists else BoolVal(True))
        out.append(('a new triple is appended with the next id and returned', Implies(fresh, And(BoolVal(grew), rv.disc == 2, rid(rv) == N))))
        if grew:
            nd = nodes[N]
            out.append(('the appended node is exactly (var, lo, hi)', And(nd[0] == v, ref_eq(nd[1], lo), ref_eq(nd[2], hi))))
            ok_idx = len(idx.inserted) == 1
            out.append(('the index records the new triple under the new id (invariant d)', And(BoolVal(ok_idx), (And(idx.inserted[0][0][0] == v, ref_eq(idx.inserted[0][0][1], lo), ref_eq(idx.inserted[0][0][2], hi), idx.inserted[0][1] == N) if ok_idx else BoolVal(False)))))
            out.append(('no stored node has an empty include-branch (reducedness, invariant a)', nd[2].disc != 0))
        else:
            out.append(('nothing is inserted into the index when no node is created', BoolVal(len(idx.inserted) == 0)))
        for i in range(N):
            out.append(('existing node %d is untouched' % i, And(nodes[i][0] == T.var[i], ref_eq(nodes[i][1], T.lo[i]), ref_eq(nodes[i][2], T.hi[i]))))
        return out
    return ex, results, post


# ------------------------------------------------------------------------------------------ 1b. gc remap on the concrete table
class AssocMap:
    """HashMap<u32, ZddRef> memo of gc: association list with symbolic keys"""
    def __init__(self): self.items = []


def den_nodes(U, nodes):
    d = []
    def of(r):
        e = U.bv(0)
        for j in reversed(range(len(d))):
            e = If(rid(r) == j, d[j], e)
        return If(r.disc == 0, U.bv(0), If(r.disc == 1, U.bv(1), e))
    for nd in nodes:
        d.append(of(nd[1]) | U.addvar(of(nd[2]), nd[0]))
    return d, of


def job_remap(N, nv):
    """ZddArena::remap_to_new_table (the body of gc) unrolled on a concrete old table: the new table is canonical again
    (reduced, ordered, no duplicate triples, index complete) and the returned ref denotes the same family"""
    U = Universe(nv)
    T = Table(N, nv)
    tab, tf = table_obj(T)
    src = open(_MOD.src_dir + '/src/arena.rs').read()
    af = struct_fields(src, 'ZddArena')
    arena = [tab if x == 'table' else Opaque(x) for x in af]
    new_nodes = ListModel([])
    vals = {'nodes': new_nodes, 'index': IndexMap(new_nodes)}
    newtab = [vals[x] for x in tf]
    memo = AssocMap()
    root = sym_ref('root')

    def h_memo_get(ex, st, callee, args):
        m = ex.deref(args[0])
        if not isinstance(m, AssocMap): return NotImplemented
        k = ex.deref(args[1])
        alts = []; eqs = []
        for i, (kk, vv) in enumerate(m.items):
            eqs.append(kk == k)
            alts.append((kk == k, (lambda i: lambda ex, st, a: models.some(Ptr(ex.deref(a[0]).items[i], 1)))(i)))
        alts.append((Not(Or(*eqs)) if eqs else BoolVal(True), lambda ex, st, a: models.none()))
        return Fork(alts)

    def h_memo_insert(ex, st, callee, args):
        m = ex.deref(args[0])
        if not isinstance(m, AssocMap): return NotImplemented
        m.items.append([args[1], args[2]])
        return models.none()
    hk = [(re.compile(r'^HashMap::<u32, ZddRef, FxBuildHasher>::get::<u32>$'), h_memo_get), (re.compile(r'^HashMap::<u32, ZddRef, FxBuildHasher>::insert$'), h_memo_insert)]
    hk += [(re.compile(p), f) for p, f in hooks()] + containers.container_hooks() + models.generic_hooks()
    ex = Exec([_MOD], hk, variants=dict(VARIANTS), loop_bound=40, step_budget=60000)
    st = State(roots={'new': newtab, 'memo': memo})
    st.path.assume(And(T.invariant(), ref_ok(root, N)))
    results = ex.run('ZddArena::remap_to_new_table', [box(arena), root, box(newtab), box(memo)], st=st)
    d_old, of_old = T.den(U)

    def post(r):
        nt = r.st.roots['new']
        nn = nt[tf.index('nodes')].items; idx = nt[tf.index('index')]
        out = []
        d_new, of_new = den_nodes(U, nn)
        rv = r.ret
        out.append(('gc remap: the new ref denotes the same family as the old one', of_new(rv) == of_old(root)))
        out.append(('gc remap: returned ref points into the new table', Implies(rv.disc == 2, ULT(rid(rv), len(nn))) if nn else rv.disc != 2))
        for i, nd in enumerate(nn):
            out.append(('new table node %d is reduced (include-branch not empty)' % i, nd[2].disc != 0))
            for ch in (nd[1], nd[2]):
                out.append(('new table node %d: children have smaller ids' % i, Implies(ch.disc == 2, ULT(rid(ch), i))))
                for j in range(i):
                    out.append(('new table node %d: variables increase along the path' % i, Implies(And(ch.disc == 2, rid(ch) == j), UGT(nn[j][0], nd[0]))))
            for j in range(i):
                out.append(('new table holds no duplicate triple (ids %d, %d)' % (j, i), Not(And(nd[0] == nn[j][0], ref_eq(nd[1], nn[j][1]), ref_eq(nd[2], nn[j][2])))))
        ok = len(idx.inserted) == len(nn)
        out.append(('every node copied by gc is registered in the new hash index (later get_or_create finds it: canonicity survives gc)', BoolVal(ok)))
        if ok:
            for k, (key, val) in enumerate(idx.inserted):
                out.append(('index entry %d maps the stored triple to its id' % k, And(key[0] == nn[k][0], ref_eq(key[1], nn[k][1]), ref_eq(key[2], nn[k][2]), val == k)))
        return out
    return ex, results, post


# ------------------------------------------------------------------------------------------ 2. lemmas
def lemma_queries(N, nv):
    U = Universe(nv)
    T = Table(N, nv, tag='m')
    d, of = T.den(U)
    inv = T.invariant()
    qs = []
    for i in range(N):
        qs.append(('node %d denotes neither the empty family nor {{}}' % i, And(inv, Or(d[i] == 0, d[i] == 1))))
        qs.append(('node %d: var is the smallest variable of its family, lo/hi are its decomposition' % i,
                   And(inv, Or(U.minvar(d[i]) != T.var[i], U.lo(d[i]) != of(T.lo[i]), U.hi(d[i]) != of(T.hi[i])))))
        for j in range(i):
            qs.append(('canonicity: ids %d and %d denote different families' % (j, i), And(inv, d[i] == d[j])))
    return qs


# ------------------------------------------------------------------------------------------ 3. iteration
def job_iter(which, N, nv):
    ex = mk_exec(loop_bound=6 * (nv + 2))
    U = Universe(nv)
    T = Table(N, nv)
    tab, tf = table_obj(T)
    root = sym_ref('root')
    src = open(_MOD.src_dir + ('/src/arena.rs' if which == 'arena' else '/src/iter.rs')).read()
    if which == 'arena':
        af = struct_fields(src, 'ZddArena')
        arena = [tab if x == 'table' else Opaque(x) for x in af]
        fn_new, fn_next = 'ArenaIterator::new', '<ArenaIterator as Iterator>::next'
        new_args = [box(arena), [root]]
    else:
        zsrc = open(_MOD.src_dir + '/src/zdd.rs').read()
        zf = struct_fields(zsrc, 'Zdd')
        zdd = [root if x == 'root' else tab for x in zf]
        fn_new, fn_next = 'ZddIterator::new', '<ZddIterator as Iterator>::next'
        new_args = [box(zdd)]
    st0 = State(roots={})
    st0.path.assume(And(T.invariant(), ref_ok(root, N)))
    d, of = T.den(U)
    want = of(root)
    # construct the iterator with the real constructor, then call next() until it returns None
    f_new = ex.find_func(fn_new); f_next = ex.find_func(fn_next)
    if f_new is None or isinstance(f_new, list) or f_next is None or isinstance(f_next, list):
        raise Unsupported('iterator functions not found: %s / %s' % (fn_new, fn_next))
    ex.run(f_new, new_args, st=st0)
    pending = [(r.st, r.ret, []) for r in ex.results if r.status == 'return']
    bad_status = [r for r in ex.results if r.status != 'return']
    ex.results = []
    done = []
    limit = (1 << nv) + 1
    while pending:
        st, itv, emitted = pending.pop()
        if len(emitted) > limit:
            raise Unsupported('iteration does not terminate within 2^n + 1 emissions')
        st.frames = []
        st.roots['it'] = itv
        ex.results = []
        ex.run(f_next, [box(itv)], st=st)
        for r in ex.results:
            if r.status != 'return': bad_status.append(r); continue
            rv = r.ret
            dd = z3.simplify(rv.disc)
            if z3.is_bv_value(dd) and dd.as_long() == 0:
                done.append((r.st, emitted))
            else:
                vec = rv.fields['Some'][0]
                pending.append((r.st, r.st.roots['it'], emitted + [list(vec.items)]))
    ex.results = []
    verdict_items = []
    for stf, emitted in done:
        pc = stf.path.pc
        masks = []
        conds = []
        for vec in emitted:
            asc = And(*[ULT(vec[i], vec[i + 1]) for i in range(len(vec) - 1)]) if len(vec) > 1 else BoolVal(True)
            inr = And(*[ULT(x, nv) for x in vec]) if vec else BoolVal(True)
            conds.append(('each emitted set lists its elements in strictly ascending order, inside the universe', And(asc, inr)))
            m = BitVecVal(0, nv)
            for x in vec: m = m | (BitVecVal(1, nv) << z3.Extract(nv - 1, 0, x))
            masks.append(m)
        fam = U.bv(0)
        for m in masks: fam = fam | (U.bv(1) << z3.ZeroExt(U.W - nv, m))
        for i in range(len(masks)):
            for j in range(i):
                conds.append(('no member set is emitted twice', masks[i] != masks[j]))
        conds.append(('the emitted sets are exactly the family the root denotes', fam == want))
        verdict_items.append((pc, conds, stf.path.obl))
    return ex, verdict_items, bad_status, len(done)


def job_contains(which, N, nv, L):
    """contains_sorted on a concrete table: membership of a strictly ascending element list equals the family's membership bit"""
    ex = mk_exec(loop_bound=3 * (nv + L + 2))
    U = Universe(nv)
    T = Table(N, nv)
    tab, tf = table_obj(T)
    root = sym_ref('root')
    els = [BitVec('q%d' % i, 32) for i in range(L)]
    st = State(roots={})
    # queries may mention one variable beyond those of the table (nv): such a set is never a member
    st.path.assume(And(T.invariant(), ref_ok(root, N), *([ULE(e, nv) for e in els] + [ULT(els[i], els[i + 1]) for i in range(L - 1)])))
    slice_ = Ptr([ListModel(list(els))], 0, meta=BitVecVal(L, 64))
    if which == 'arena':
        src = open(_MOD.src_dir + '/src/arena.rs').read()
        af = struct_fields(src, 'ZddArena')
        arena = [tab if x == 'table' else Opaque(x) for x in af]
        results = ex.run('ZddArena::contains_sorted', [box(arena), [root], slice_], st=st)
    else:
        zsrc = open(_MOD.src_dir + '/src/zdd.rs').read()
        zf = struct_fields(zsrc, 'Zdd')
        zdd = [root if x == 'root' else tab for x in zf]
        results = ex.run('Zdd::contains_sorted', [box(zdd), slice_], st=st)
    d, of = T.den(U)
    fam = of(root)
    inside = And(*[ULT(e, nv) for e in els]) if els else BoolVal(True)
    m = BitVecVal(0, U.W)
    for e in els: m = m | (BitVecVal(1, U.W) << z3.ZeroExt(U.W - 32, e) if U.W > 32 else BitVecVal(1, U.W) << z3.Extract(U.W - 1, 0, e))
    bit = z3.Extract(0, 0, z3.LShR(fam, m)) == 1
    want = And(inside, bit)

    def post(r):
        return [('membership answer equals membership in the denoted family', r.ret == want)]
    return ex, results, post


def discharge_items(ex, items, timeout_ms=60000):
    out = []
    for pc, conds, obls in items:
        todo = [(o.name, o.cond, pc[:o.pclen], o.kind) for o in obls] + [(n, c, pc, 'post') for n, c in conds]
        for name, cond, p, kind in todo:
            s = z3.Solver(); s.set('timeout', timeout_ms); s.add(*p); s.add(Not(cond))
            t0 = time.time(); rc = s.check(); ex.queries += 1; dt = time.time() - t0; ex.solver_s += dt
            out.append({'name': name, 'status': 'proved' if rc == z3.unsat else ('violated' if rc == z3.sat else 'unknown'), 'secs': dt, 'kind': kind,
                        'witness': (str(s.model())[:600] if rc == z3.sat else None)})
    return out


def _worker(spec):
    kind = spec[0]
    t0 = time.time()
    try:
        if kind in ('goc', 'remap', 'contains'):
            ex, results, post = job_contains(*spec[1:]) if kind == 'contains' else (job_goc if kind == 'goc' else job_remap)(spec[1], spec[2])
            vs = discharge(ex, results, post)
            out = [{'name': v.name, 'status': v.status, 'secs': v.secs, 'kind': v.kind, 'witness': (str(v.model)[:600] if v.model is not None else None)} for v in vs]
            return {'spec': spec, 'paths': len(results), 'verdicts': out, 'queries': ex.queries, 'solver_s': ex.solver_s, 'inconclusive': list(ex.inconclusive), 'wall_s': time.time() - t0}
        if kind == 'lemma':
            out = []; q = 0; ss = 0.0
            for name, f in lemma_queries(spec[1], spec[2]):
                s = z3.Solver(); s.set('timeout', 120000); s.add(f)
                t1 = time.time(); rc = s.check(); q += 1; dt = time.time() - t1; ss += dt
                out.append({'name': name, 'status': 'proved' if rc == z3.unsat else ('violated' if rc == z3.sat else 'unknown'), 'secs': dt, 'kind': 'lemma'})
            return {'spec': spec, 'paths': 0, 'verdicts': out, 'queries': q, 'solver_s': ss, 'inconclusive': [], 'wall_s': time.time() - t0}
        ex, items, bad, npaths = job_iter(spec[1], spec[2], spec[3])
        out = discharge_items(ex, items)
        inc = list(ex.inconclusive)
        for r in bad:
            for o in r.path.obl:
                pass
        if bad:
            out += discharge_items(ex, [(r.path.pc, [], r.path.obl) for r in bad])
        return {'spec': spec, 'paths': npaths, 'verdicts': out, 'queries': ex.queries, 'solver_s': ex.solver_s, 'inconclusive': inc, 'wall_s': time.time() - t0}
    except Exception as e:
        import traceback; traceback.print_exc()
        return {'spec': spec, 'error': '%s: %s' % (type(e).__name__, e), 'verdicts': [], 'paths': 0, 'queries': 0, 'solver_s': 0, 'inconclusive': []}


def run(ctx):
    global _MOD
    from concurrent.futures import ProcessPoolExecutor
    import multiprocessing as mp
    from vlib import replay
    from vlib.driver import Finding
    _MOD, info = mirdump.load('zdd')
    ctx.engines.append('M (MIR symbolic execution -> Z3)')
    ctx.functions.append({'crate': info['crate'], 'source_hash': info['source_hash'], 'mir_functions': info['functions'], 'dump_s': info['dump_s']})
    quick = ctx.tier == 'quick'
    NG = 3 if quick else 4           # table size for get_or_create
    LN, LV = (5, 4) if quick else (6, 4)   # lemma bound: nodes / variables
    IN, IV = (2, 3) if quick else (3, 3)   # iteration bound: nodes / variables
    ctx.bounds = {'get_or_create': 'tables of 0..%d symbolic nodes over 4 variables' % NG, 'lemmas': 'tables of <= %d nodes over %d variables' % (LN, LV),
                  'iteration': 'tables of <= %d symbolic nodes over %d variables, any root, next() driven to exhaustion (loop bound %d)' % (IN, IV, 6 * (IV + 2)),
                  'gc': 'see C06 (0..2 live handles, remap step over all families)', 'outside': 'SharedArena locking; tables above the bounds'}
    ctx.assumptions += ['hash index model: get(node) finds an id iff that id stores the same triple (invariant d), insert records the pair',
                        'get_or_create callers pass ordered arguments (var < top var of lo and hi): emitted as obligations at every call site in C06']
    tasks = [('goc', n, 4) for n in range(0, NG + 1)] + [('lemma', LN, LV)] + [('remap', n, 3) for n in range(0, (3 if quick else 4))]
    tasks += [('iter', w, n, IV) for w in ('arena', 'zdd') for n in range(0, IN + 1)]
    tasks += [('contains', w, n, 3, l) for w in ('arena', 'zdd') for n in range(0, IN + 1) for l in range(0, 4)]
    with ProcessPoolExecutor(max_workers=14, mp_context=mp.get_context('fork')) as pool:
        res = list(pool.map(_worker, tasks))
    # gc obligations (shared with C06)
    from props import c06
    c06._MOD = _MOD; c06._N = 5
    gcres = []
    Ugc = Universe(5)
    for L in c06.GC_LIVE:
        try:
            info_, ex_, vs_ = c06.run_gc_job(_MOD, Ugc, L)
            gcres.append((L, info_, ex_, vs_))
        except Exception as e:
            ctx.inconclusive.append('gc (%d live handles): %s' % (L, e))
    binp = None
    seen = set()
    for r in res:
        sp = r['spec']
        tgt = {'goc': 'UniqueTable::get_or_create', 'remap': 'ZddArena::remap_to_new_table (gc)', 'contains': ('ZddArena::contains_sorted' if sp[1] == 'arena' else 'Zdd::contains_sorted'), 'lemma': 'table/family abstraction lemmas (model side)', 'iter': ('ArenaIterator::next' if len(sp) > 1 and sp[1] == 'arena' else 'ZddIterator::next')}[sp[0]]
        cls = {'goc': 'table of %s nodes' % sp[1], 'remap': 'old table of %s nodes' % sp[1], 'contains': 'table of %s nodes, query of %s elements' % (sp[2], sp[4] if len(sp) > 4 else '?'), 'lemma': '<= %s nodes, %s variables' % (sp[1], sp[2]), 'iter': 'table of %s nodes' % (sp[2] if len(sp) > 2 else '?')}[sp[0]]
        if r.get('error'):
            ctx.inconclusive.append('%s (%s): %s' % (tgt, cls, r['error'])); continue
        for why in r['inconclusive']: ctx.inconclusive.append('%s (%s): %s' % (tgt, cls, why))
        ctx.queries += r['queries']; ctx.solver_s += r['solver_s']
        ctx.add_obligations(tgt, r['verdicts'], cls=cls)
        ctx.samples.append({'target': tgt, 'class': cls, 'paths': r['paths'], 'obligations': len(r['verdicts'])})
        for v in r['verdicts']:
            if v['status'] != 'violated': continue
            key = '%s:%s' % (tgt, v['name'][:70])
            if key in seen: continue
            seen.add(key)
            if sp[0] == 'lemma':
                ctx.inconclusive.append('model-side lemma violated (the abstraction is wrong, not the repository): %s' % v['name']); continue
            if binp is None: binp = replay.build('zdd')
            ctx.findings.append(Finding(key, '%s on %s: %s violated (witness %s)' % (tgt, cls, v['name'], v.get('witness')), [binp, 'canon', '4', '400'], {'witness': v.get('witness')}))
    for L, info_, ex_, vs_ in gcres:
        ctx.queries += ex_.queries; ctx.solver_s += ex_.solver_s
        vd = [{'name': v.name, 'status': v.status, 'secs': v.secs, 'kind': v.kind} for v in vs_]
        ctx.add_obligations('ZddArena::gc', vd, cls='%d live handles' % L)
        for why in ex_.inconclusive: ctx.inconclusive.append('gc: ' + why)
        for v in vs_:
            if v.status == 'violated':
                key = 'ZddArena::gc:%s' % v.name[:50]
                if key in seen: continue
                seen.add(key)
                if binp is None: binp = replay.build('zdd')
                ctx.findings.append(Finding(key, 'ZddArena::gc with %d live handles: %s' % (L, v.name), [binp, 'gcseq', '5', '60', '40'], {}))
    ctx.models += ['Vec<ZddNode> as ListModel, FxHashMap<ZddNode,u32> as index-map model (invariant d)'] + sorted(models.USED)
