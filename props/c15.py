"""C15 — joins correlate exactly the same-key events that are within the window: the correlate and expiry steps (engine M).

Executed from the MIR of varpulis-runtime/src/join.rs on a two-source JoinBuffer whose per-key buffers hold 0..2 (thorough 3) events with
symbolic timestamps IN ANY ORDER (arrival order is the vector order; timestamps are not assumed sorted), chrono times as 64-bit nanoseconds:
  try_correlate(key, now)     a joined event is produced iff every source has, for this key, an event with timestamp >= now - window;
                              the event taken from each source is the most recently ARRIVED one that qualifies
  cleanup_expired(now)        with one due entry in the expiry queue: no event with timestamp >= now - window is removed (an expired sweep
                              must not lose in-window events), the other source / key is untouched, and the standard library's own
                              precondition for partition_point (the vector is partitioned by the predicate) holds
The third obligation is how the solver exposes the defect: with out-of-order arrivals the per-key vector is not sorted by timestamp,
partition_point is unspecified, and the drain removes events that are still inside the window.
"""
import itertools
import re
import time

import z3
from z3 import BitVec, BitVecVal, And, Or, Not, If, BoolVal, Implies

from vlib import mirdump, models, containers
from vlib.symex import Ptr, Opaque, box, State, Enum, Exec, Unsupported, Fork, discharge
from vlib.containers import ListModel, Iter
from vlib.models import some, none, option
from props.zddmodel import struct_fields
from props import winmodel as W
from props import valmodel as V

_MOD = None
T_MAX, D_MAX = W.T_MAX, W.D_MAX
SRC_A, SRC_B, KEY, KEY2 = 11, 12, 21, 22


def load(ctx=None):
    global _MOD
    m, info = mirdump.load('runtime', closures=True)
    _MOD = m
    if ctx is not None:
        ctx.functions.append({'crate': info['crate'], 'source_hash': info['source_hash'], 'mir_functions': info['functions'], 'dump_s': info['dump_s']})


class MapM:
    def __init__(self, entries): self.entries = entries          # [[key token, value]]


def tok(a):
    v = a
    while isinstance(v, Ptr): v = v.get()
    if isinstance(v, V.StrTok): return v.tok
    raise Unsupported('string token expected, got %r' % (v,))


def hooks():
    def mp(a):
        v = a
        while isinstance(v, Ptr): v = v.get()
        if isinstance(v, MapM): return v
        raise Unsupported('map model expected, got %r' % (v,))

    def h_get(ex, st, callee, args):
        m = mp(args[0]); k = tok(args[1])
        alts = [(tok(e[0]) == k, (lambda i: lambda ex, st, a: some(Ptr(mp(a[0]).entries[i], 1)))(i)) for i, e in enumerate(m.entries)]
        alts.append((And(*[tok(e[0]) != k for e in m.entries]) if m.entries else BoolVal(True), lambda ex, st, a: none()))
        if len(alts) == 1: return alts[0][1](ex, st, args)
        return Fork(alts)

    def h_remove(ex, st, callee, args):
        m = mp(args[0]); k = tok(args[1])
        def rm(i):
            def t(ex, st, a):
                mm = mp(a[0]); v = mm.entries[i][1]; del mm.entries[i]
                return some(v)
            return t
        alts = [(tok(e[0]) == k, rm(i)) for i, e in enumerate(m.entries)]
        alts.append((And(*[tok(e[0]) != k for e in m.entries]) if m.entries else BoolVal(True), lambda ex, st, a: none()))
        if len(alts) == 1: return alts[0][1](ex, st, args)
        return Fork(alts)

    def heap(a):
        v = a
        while isinstance(v, Ptr): v = v.get()
        if isinstance(v, ListModel) and v.kind == 'Heap': return v
        raise Unsupported('heap model expected, got %r' % (v,))

    def entry_time(e):
        # Reverse((time, source, key)) is kept as [[time, source, key]]
        t = e
        while isinstance(t, list) and len(t) == 1: t = t[0]
        return t[0]

    def h_peek(ex, st, callee, args):
        h = heap(args[0]); n = len(h.items)
        if n == 0: return none()
        alts = []
        for i in range(n):
            c = And(*[entry_time(h.items[i]) < entry_time(h.items[j]) for j in range(n) if j != i]) if n > 1 else BoolVal(True)     # distinct expiry times (stated)
            alts.append((c, (lambda i: lambda ex, st, a: some(Ptr(heap(a[0]).items, i)))(i)))
        if len(alts) == 1: return alts[0][1](ex, st, args)
        return Fork(alts)

    def h_pop(ex, st, callee, args):
        h = heap(args[0]); n = len(h.items)
        if n == 0: return none()
        def pop(i):
            def t(ex, st, a):
                hh = heap(a[0]); v = hh.items[i]; del hh.items[i]
                return some(v)
            return t
        alts = []
        for i in range(n):
            c = And(*[entry_time(h.items[i]) < entry_time(h.items[j]) for j in range(n) if j != i]) if n > 1 else BoolVal(True)
            alts.append((c, pop(i)))
        if len(alts) == 1: return alts[0][1](ex, st, args)
        return Fork(alts)

    def h_correlated(ex, st, callee, args):
        lst = args[1]
        while isinstance(lst, Ptr): lst = lst.get()
        chosen = []
        for it in lst.items:
            ev = it[1]
            while isinstance(ev, Ptr) and isinstance(ev.get(), Ptr): ev = ev.get()
            e = ev.get() if isinstance(ev, Ptr) else ev
            chosen.append(e[-1])
        return ['joined', chosen]

    def h_as_str(ex, st, callee, args): return args[0]

    S = r'(?:std::string::)?String'
    VEC = r'Vec<\(DateTime<Utc>, (?:event::)?Event\)>'
    return [
        (r'^HashMap::<%s, HashMap<%s, %s, FxBuildHasher>, FxBuildHasher>::(?:get|get_mut)::<.*>$' % (S, S, VEC), h_get),
        (r'^HashMap::<%s, %s, FxBuildHasher>::(?:get|get_mut)::<.*>$' % (S, VEC), h_get),
        (r'^HashMap::<%s, %s, FxBuildHasher>::remove::<.*>$' % (S, VEC), h_remove),
        (r'^BinaryHeap::<Reverse<\(DateTime<Utc>, %s, %s\)>>::peek$' % (S, S), h_peek),
        (r'^BinaryHeap::<Reverse<\(DateTime<Utc>, %s, %s\)>>::pop$' % (S, S), h_pop),
        (r'^(?:join::)?JoinBuffer::create_correlated_event$', h_correlated),
        (r'^%s::as_str$' % S, h_as_str),
    ]


def mk_exec():
    hk = [(re.compile(p), f) for p, f in hooks() + W.HOOKS] + containers.container_hooks() + models.generic_hooks()
    return Exec([_MOD], hk, variants=V.variants(), loop_bound=8, step_budget=200000)


def mk_entry(tag):
    ts = BitVec('ts_' + tag, 64)
    ev = [Opaque('type'), ts, Opaque('data'), '#' + tag]
    return [ts, ev], ts, And(ts >= 0, ts < T_MAX)


def engine(nA, nB, heap_entries, window, last_gc_opt, gc_interval):
    src = open(mirdump.crate_dir('runtime') + '/src/join.rs').read()
    jf = struct_fields(src, 'JoinBuffer')
    need = {'buffers', 'sources', 'join_keys', 'window_duration', 'max_events_per_key', 'expiry_queue', 'last_gc', 'gc_interval'}
    if not jf or set(jf) != need: raise Unsupported('JoinBuffer fields changed: %s' % jf)
    cons = []; A = []; B = []
    for i in range(nA):
        e, ts, c = mk_entry('a%d' % i); A.append((e, ts)); cons.append(c)
    for i in range(nB):
        e, ts, c = mk_entry('b%d' % i); B.append((e, ts)); cons.append(c)
    bufA = MapM([[V.StrTok(BitVecVal(KEY, 16)), ListModel([e for e, _ in A])]]) if nA else MapM([])
    bufB = MapM([[V.StrTok(BitVecVal(KEY, 16)), ListModel([e for e, _ in B])]]) if nB else MapM([])
    buffers = MapM([[V.StrTok(BitVecVal(SRC_A, 16)), bufA], [V.StrTok(BitVecVal(SRC_B, 16)), bufB]])
    vals = {'buffers': buffers, 'sources': ListModel([V.StrTok(BitVecVal(SRC_A, 16)), V.StrTok(BitVecVal(SRC_B, 16))]), 'join_keys': Opaque('join_keys'), 'window_duration': window,
            'max_events_per_key': BitVecVal(1000, 64), 'expiry_queue': ListModel(heap_entries, kind='Heap'), 'last_gc': last_gc_opt, 'gc_interval': gc_interval}
    return [vals[f] for f in jf], jf, A, B, cons


def prove(pc, cond, nm, wit, verdicts, stats):
    s = z3.Solver(); s.set('timeout', 30000); s.add(*pc); s.add(Not(cond))
    t = time.time(); rc = s.check(); dt = time.time() - t; stats['q'] += 1; stats['s'] += dt
    d = {'name': nm, 'status': 'proved' if rc == z3.unsat else ('violated' if rc == z3.sat else 'unknown'), 'secs': dt, 'kind': 'post'}
    if rc == z3.sat: d['witness'] = wit(s.model())
    verdicts.append(d)


def find_fn(name):
    f = [x for x in _MOD.funcs if re.search(r'^join::<impl at [^>]*>::%s$' % name, x)]
    if len(f) != 1: raise Unsupported('function %s: %s' % (name, f))
    return _MOD.funcs[f[0]]


def job(spec):
    op, nA, nB = spec
    t0 = time.time(); ex = mk_exec(); verdicts = []; stats = {'q': 0, 's': 0.0}
    window = BitVec('window', 64); now = BitVec('now', 64)
    base = [window >= 1, window < D_MAX, now >= 0, now < T_MAX]
    if op == 'correlate':
        eng, jf, A, B, cons = engine(nA, nB, [], window, none(), BitVecVal(0, 64))
        cell = [eng]
        st0 = State(roots={'cell': cell}); st0.path.assume(And(*(base + cons)))
        res = ex.run(find_fn('try_correlate'), [Ptr(cell, 0), box(V.StrTok(BitVecVal(KEY, 16))), now], st=st0)
        cutoff = now - window
        def wit(m):
            return {'op': op, 'window': m.eval(window, True).as_signed_long(), 'now': m.eval(now, True).as_signed_long(), 'A': [m.eval(t, True).as_signed_long() for _, t in A], 'B': [m.eval(t, True).as_signed_long() for _, t in B]}
        def has(L): return Or(*[t >= cutoff for _, t in L]) if L else BoolVal(False)
        def last_ok(L, tag):
            # tag is the most recently arrived event with ts >= cutoff
            alts = []
            for i, (e, t) in enumerate(L):
                alts.append(And(BoolVal(e[1][-1] == tag), t >= cutoff, *[Not(t2 >= cutoff) for _, t2 in L[i + 1:]]))
            return Or(*alts) if alts else BoolVal(False)
        for r in res:
            if r.status != 'return': continue
            pc = r.path.pc; ret = r.ret
            joined = z3.simplify(ret.disc == 1)
            prove(pc, (ret.disc == 1) == And(has(A), has(B)), 'correlate: a joined event is produced iff every source has an in-window event for the key', wit, verdicts, stats)
            if z3.is_true(joined):
                chosen = ret.fields['Some'][0][1]
                ok = BoolVal(len(chosen) == 2)
                if len(chosen) == 2: ok = And(last_ok(A, chosen[0]), last_ok(B, chosen[1]))
                prove(pc, ok, 'correlate: each source contributes its most recently arrived in-window event', wit, verdicts, stats)
    else:
        # one due expiry entry for (A, KEY); B untouched
        exp = BitVec('expiry', 64)
        heap_entries = [[[exp, V.StrTok(BitVecVal(SRC_A, 16)), V.StrTok(BitVecVal(KEY, 16))]]]
        eng, jf, A, B, cons = engine(nA, nB, heap_entries, window, none(), BitVec('gc_interval', 64))
        cell = [eng]
        st0 = State(roots={'cell': cell}); st0.path.assume(And(*(base + cons + [exp >= 0, exp < T_MAX])))
        res = ex.run(find_fn('cleanup_expired'), [Ptr(cell, 0), now], st=st0)
        cutoff = now - window
        def wit(m):
            return {'op': op, 'window': m.eval(window, True).as_signed_long(), 'now': m.eval(now, True).as_signed_long(), 'expiry': m.eval(exp, True).as_signed_long(), 'A': [m.eval(t, True).as_signed_long() for _, t in A], 'B': [m.eval(t, True).as_signed_long() for _, t in B]}
        for r in res:
            if r.status != 'return': continue
            pc = r.path.pc
            engf = r.st.roots['cell'][0]
            bufs = engf[jf.index('buffers')]
            def remaining(src_tok):
                for e in bufs.entries:
                    if z3.is_true(z3.simplify(tok(e[0]) == src_tok)):
                        out = []
                        for ke in e[1].entries:
                            lst = ke[1]
                            while isinstance(lst, Ptr): lst = lst.get()
                            out += [x[1][-1] for x in lst.items]
                        return out
                return []
            remA, remB = remaining(SRC_A), remaining(SRC_B)
            for i, (e, t) in enumerate(A):
                tag = e[1][-1]
                prove(pc, Implies(t >= cutoff, BoolVal(tag in remA)), 'expiry: no event that is still inside the window is removed', wit, verdicts, stats)
            prove(pc, BoolVal(remB == [e[1][-1] for e, _ in B]), 'expiry: the other source is untouched', wit, verdicts, stats)
            sorted_in = And(*[A[i][1] <= A[i + 1][1] for i in range(len(A) - 1)]) if len(A) > 1 else BoolVal(True)
            for i, (e, t) in enumerate(A):
                tag = e[1][-1]
                prove(pc, Implies(And(sorted_in, exp <= now, t < cutoff), BoolVal(tag not in remA)), 'expiry: with in-order arrivals a due sweep removes every expired event of the key', wit, verdicts, stats)
    for v in discharge(ex, res, None, timeout_ms=30000):
        d = {'name': v.name, 'status': v.status, 'secs': v.secs, 'kind': v.kind}
        if v.model is not None:
            try: d['witness'] = wit(v.model)
            except Exception: pass
        verdicts.append(d)
    return {'spec': [str(x) for x in spec], 'verdicts': verdicts, 'paths': len(res), 'queries': ex.queries + stats['q'], 'solver_s': ex.solver_s + stats['s'], 'inconclusive': list(ex.inconclusive), 'wall_s': time.time() - t0}


def _worker(spec):
    try:
        return job(spec)
    except Exception as e:
        import traceback; traceback.print_exc()
        return {'spec': [str(x) for x in spec], 'error': '%s: %s' % (type(e).__name__, e), 'verdicts': [], 'paths': 0, 'queries': 0, 'solver_s': 0, 'inconclusive': []}


def run(ctx):
    from concurrent.futures import ProcessPoolExecutor
    import multiprocessing as mp
    from vlib import replay
    from vlib.driver import Finding
    load(ctx)
    ctx.engines.append('M (MIR symbolic execution -> Z3)')
    nmax = 3 if ctx.tier == 'thorough' else 2
    ctx.bounds = {'buffers': 'two sources, one key, 0..%d buffered events per source with symbolic timestamps in any order (0 <= t < 2^61 ns), symbolic window (1 ns .. 2^50 ns) and current time' % nmax,
                  'outside': 'add_event as a whole (key extraction through Value::to_partition_key / format!, the max_events trimming loop, the expiry push), create_correlated_event (field merging through format!), several keys per source, more than two sources, equal expiry times in the queue, checkpoint/restore'}
    ctx.assumptions += ['chrono times as 64-bit nanosecond counts', 'nested FxHashMaps as entry lists', 'the expiry queue as a list with distinct expiry times', 'tracing macros cut at the level check']
    tasks = [(op, a, b) for op in ('correlate', 'cleanup') for a in range(0, nmax + 1) for b in range(0, nmax + 1) if not (op == 'cleanup' and a == 0)]
    with ProcessPoolExecutor(max_workers=14, mp_context=mp.get_context('fork')) as pool:
        res = list(pool.map(_worker, tasks))
    binp = None; seen = set()
    for r in res:
        tgt = 'JoinBuffer::try_correlate' if r['spec'][0] == 'correlate' else 'JoinBuffer::cleanup_expired'; cls = 'A=%s B=%s' % (r['spec'][1], r['spec'][2])
        if r.get('error'):
            ctx.inconclusive.append('%s (%s): %s' % (tgt, cls, r['error'])); continue
        for why in sorted(set(r['inconclusive'])): ctx.inconclusive.append('%s (%s): %s' % (tgt, cls, why))
        ctx.queries += r['queries']; ctx.solver_s += r['solver_s']
        ctx.add_obligations(tgt, r['verdicts'], cls=cls)
        ctx.samples.append({'class': tgt + ' ' + cls, 'paths': r['paths']})
        for v in r['verdicts']:
            if v['status'] != 'violated': continue
            key = '%s:%s' % (tgt.split('::')[1], v['name'].split(':')[0])
            if key in seen: continue
            seen.add(key)
            w = v.get('witness') or {}
            if binp is None: binp = replay.build('rt')
            # replay as an arrival history: the buffered A and B events in vector order (their timestamps, in ms granularity the probe scales to), then the arriving event
            # the witness is a buffer STATE (which arrival history produced it is not part of it): the replay is the bounded differential probe of the
            # public add_event API over every arrival history of <= 4 events, against the windowed-join specification
            a = [binp, 'join', 'probe']
            ctx.findings.append(Finding(key, '%s %s: %s (witness %s)' % (tgt, cls, v['name'], w), a, w))
    ctx.models += sorted(models.USED)
