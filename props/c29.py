"""C29 — the access decision behind every cluster endpoint: key comparison, authentication and the role order (engine M).

Executed from the MIR:
  varpulis_core::security::constant_time_compare   on two byte strings of 0..3 (thorough 4) symbolic bytes each: true iff same length and same bytes
  RbacConfig::authenticate                          on key tables of 0..2 (thorough 3) entries with symbolic roles, allow_anonymous / anonymous_role
                                                   symbolic, the provided key absent or an arbitrary string: the role of the stored key equal to the
                                                   provided one, nothing for an unknown key, the anonymous role exactly when anonymous access is
                                                   allowed and (no key is provided or no key is configured)
  Role::has_permission                              for all nine (role, required) pairs: role >= required in Viewer < Operator < Admin
  decision                                          the match that every with_rbac filter applies to these two results: served iff a role is found and
                                                   it has the required permission; otherwise Forbidden (role too low) or Unauthorized (no role)
The warp filter plumbing (which route carries which required role, header extraction, the async wrapper) is outside the encoding.
"""
import itertools
import re
import time

import z3
from z3 import BitVec, BitVecVal, And, Or, Not, If, BoolVal, Implies

from vlib import mirdump, models, containers, maps
from vlib.symex import Ptr, Opaque, box, State, Enum, Exec, Unsupported, Fork, discharge
from vlib.containers import ListModel, Iter
from vlib.models import some, none
from props.zddmodel import struct_fields
from props import valmodel as V

_MODS = None
ROLES = ['Viewer', 'Operator', 'Admin']


def load(ctx=None):
    global _MODS
    mods = []
    for c in ('cluster', 'core'):
        m, info = mirdump.load(c, closures=(c == 'cluster'))
        mods.append(m)
        if ctx is not None:
            ctx.functions.append({'crate': info['crate'], 'source_hash': info['source_hash'], 'mir_functions': info['functions'], 'dump_s': info['dump_s']})
    _MODS = mods


class Bytes:
    """a &str seen only through as_bytes(): a list of symbolic bytes"""
    def __init__(self, bs): self.bs = bs


def hooks(token_compare):
    def h_as_bytes(ex, st, callee, args):
        v = args[0]
        while isinstance(v, Ptr): v = v.get()
        if isinstance(v, Bytes): return box(ListModel(list(v.bs), kind='Slice'))
        raise Unsupported('as_bytes of %r' % (v,))

    def h_expose(ex, st, callee, args):
        v = args[0]
        while isinstance(v, Ptr): v = v.get()
        if isinstance(v, list) and len(v) == 1: v = v[0]
        return box(v)

    def h_ctc(ex, st, callee, args):
        a, b = maps.key_tok(args[0]), maps.key_tok(args[1])
        models.USED.add('constant_time_compare as string equality (proved separately on byte strings in this check)')
        return a == b

    hk = [(r'^(?:core::)?str::<impl str>::as_bytes$', h_as_bytes), (r'^(?:varpulis_core::security::)?SecretString::expose$', h_expose)]
    if token_compare: hk.append((r'^(?:varpulis_core::security::)?constant_time_compare$', h_ctc))
    hk += maps.hooks(r'HashMap::<SecretString, ApiKeyEntry>')
    hk.append((r'^<&HashMap<SecretString, ApiKeyEntry> as IntoIterator>::into_iter$', lambda ex, st, callee, args: Iter(ListModel(maps.as_map(args[0]).entries, kind='MapIter'), pairs=True)))
    return hk


def mk_exec(token_compare=True):
    variants = dict(V.variants()); variants['Role'] = list(ROLES)
    hk = [(re.compile(p), f) for p, f in hooks(token_compare)] + containers.container_hooks() + models.generic_hooks()
    return Exec(_MODS, hk, variants=variants, loop_bound=12, step_budget=100000)


def prove(pc, cond, nm, wit, verdicts, stats):
    s = z3.Solver(); s.set('timeout', 30000); s.add(*pc); s.add(Not(cond))
    t = time.time(); rc = s.check(); dt = time.time() - t; stats['q'] += 1; stats['s'] += dt
    d = {'name': nm, 'status': 'proved' if rc == z3.unsat else ('violated' if rc == z3.sat else 'unknown'), 'secs': dt, 'kind': 'post'}
    if rc == z3.sat: d['witness'] = wit(s.model())
    verdicts.append(d)


def find(mod, pattern):
    f = [x for x in mod.funcs if re.search(pattern, x)]
    if len(f) != 1: raise Unsupported('function %s: %s' % (pattern, f))
    return mod.funcs[f[0]]


def role(tag):
    d = BitVec(tag, 64)
    return Enum('Role', d, {r: [] for r in ROLES}), d, z3.ULT(d, 3)


def job(spec):
    op = spec[0]; t0 = time.time(); verdicts = []; stats = {'q': 0, 's': 0.0}
    if op == 'compare':
        la, lb = spec[1], spec[2]
        ex = mk_exec(token_compare=False)
        a = [BitVec('a%d' % i, 8) for i in range(la)]; b = [BitVec('b%d' % i, 8) for i in range(lb)]
        res = ex.run(find(_MODS[1], r'^(?:security::)?constant_time_compare$'), [box(Bytes(a)), box(Bytes(b))], st=State())
        def wit(m): return {'op': op, 'a': [m.eval(x, True).as_long() for x in a], 'b': [m.eval(x, True).as_long() for x in b]}
        for r in res:
            if r.status != 'return': continue
            same = And(*[x == y for x, y in zip(a, b)]) if la == lb else BoolVal(False)
            prove(r.path.pc, r.ret == same, 'constant_time_compare is string equality', wit, verdicts, stats)
    elif op == 'permission':
        ex = mk_exec()
        r1, d1, c1 = role('role'); r2, d2, c2 = role('required')
        st0 = State(); st0.path.assume(And(c1, c2))
        res = ex.run(find(_MODS[0], r'^rbac::<impl at [^>]*>::has_permission$'), [box(r1), r2], st=st0)
        def wit(m): return {'op': op, 'role': ROLES[m.eval(d1, True).as_long()], 'required': ROLES[m.eval(d2, True).as_long()]}
        for r in res:
            if r.status != 'return': continue
            prove(r.path.pc, r.ret == z3.UGE(d1, d2), 'has_permission(role, required) = role >= required in Viewer < Operator < Admin', wit, verdicts, stats)
    else:
        n, provided = spec[1], spec[2]
        ex = mk_exec()
        src = open(mirdump.crate_dir('cluster') + '/src/rbac.rs').read()
        cf = struct_fields(src, 'RbacConfig'); kf = struct_fields(src, 'ApiKeyEntry')
        if cf != ['keys', 'allow_anonymous', 'anonymous_role'] or kf != ['role', 'name']: raise Unsupported('rbac.rs structs changed: %s %s' % (cf, kf))
        keys = [BitVec('key%d' % i, 16) for i in range(n)]; roles = []; cons = [keys[a] != keys[b] for a in range(n) for b in range(a + 1, n)]
        entries = []
        for i in range(n):
            rv, d, c = role('role%d' % i); roles.append(d); cons.append(c)
            entries.append([[V.StrTok(keys[i])], [rv, Opaque('name%d' % i)]])
        anon = z3.Bool('allow_anonymous'); ar, ad, c = role('anonymous_role'); cons.append(c)
        cfg = [maps.MapM(entries), anon, ar]
        pk = BitVec('provided', 16)
        popt = some(box(V.StrTok(pk))) if provided else none()
        st0 = State(); st0.path.assume(And(*cons))
        res = ex.run(find(_MODS[0], r'^rbac::<impl at [^>]*>::authenticate$'), [box(cfg), popt], st=st0)
        def wit(m): return {'op': op, 'keys': [[m.eval(k, True).as_long(), ROLES[m.eval(r_, True).as_long()]] for k, r_ in zip(keys, roles)], 'provided': (m.eval(pk, True).as_long() if provided else None),
                            'allow_anonymous': bool(z3.is_true(m.eval(anon, True))), 'anonymous_role': ROLES[m.eval(ad, True).as_long()]}
        # specification
        if provided:
            hit = Or(*[k == pk for k in keys]) if keys else BoolVal(False)
            hit_role = BitVecVal(0, 64)
            for k, r_ in zip(keys, roles): hit_role = If(k == pk, r_, hit_role)
            exp_some = Or(And(anon, BoolVal(n == 0)), hit); exp_role = If(And(anon, BoolVal(n == 0)), ad, hit_role)
        else:
            exp_some = anon; exp_role = ad
        for r in res:
            if r.status != 'return': continue
            got_some = r.ret.disc == 1
            pay = (r.ret.fields.get('Some') or [None])[0]
            got_role = pay.disc if isinstance(pay, Enum) else BitVecVal(0, 64)
            prove(r.path.pc, And(got_some == exp_some, Implies(exp_some, got_role == exp_role)), 'authenticate: the role of the matching key, the anonymous role exactly when allowed, nothing otherwise', wit, verdicts, stats)
            # the decision every with_rbac filter takes on top of it, for every required role
            for req in range(3):
                served = And(got_some, z3.UGE(got_role, req))
                spec_served = And(exp_some, z3.UGE(exp_role, req))
                prove(r.path.pc, served == spec_served, 'decision: served iff the credential grants the required role (%s)' % ROLES[req], wit, verdicts, stats)
    for v in discharge(ex, res, None, timeout_ms=30000):
        verdicts.append({'name': v.name, 'status': v.status, 'secs': v.secs, 'kind': v.kind})
    return {'spec': [str(x) for x in spec], 'verdicts': verdicts, 'paths': len(res), 'queries': ex.queries + stats['q'], 'solver_s': ex.solver_s + stats['s'], 'inconclusive': list(ex.inconclusive), 'wall_s': time.time() - t0}


def _worker(spec):
    try:
        return job(spec)
    except Exception as e:
        import traceback; traceback.print_exc()
        return {'spec': [str(x) for x in spec], 'error': '%s: %s' % (type(e).__name__, e), 'verdicts': [], 'paths': 0, 'queries': 0, 'solver_s': 0, 'inconclusive': []}


def run(ctx):
    from concurrent.futures import ProcessPoolExecutor
    import multiprocessing as mp
    from vlib import replay
    from vlib.driver import Finding
    load(ctx)
    ctx.engines.append('M (MIR symbolic execution -> Z3)')
    lmax = 4 if ctx.tier == 'thorough' else 3; nmax = 3 if ctx.tier == 'thorough' else 2
    ctx.bounds = {'compare': 'byte strings of 0..%d symbolic bytes each' % lmax, 'authenticate': 'key tables of 0..%d entries with distinct symbolic keys and symbolic roles, allow_anonymous and anonymous_role symbolic, key provided (arbitrary) or absent' % nmax,
                  'outside': 'the warp filter plumbing: which endpoint carries which required role (cluster, tenant, admin and Raft routes), header extraction, the async wrapper around the decision, "a rejected request never changes state" (the handlers run after the filter); RbacConfig::from_file / role parsing; the tenant / admin key checks of varpulis-cli'}
    ctx.assumptions += ['stored and provided keys are string tokens for authenticate (the byte-level comparison is proved separately in the same check)', 'HashMap<SecretString, ApiKeyEntry> as an entry list with distinct keys']
    tasks = [('compare', a, b) for a in range(lmax + 1) for b in range(lmax + 1)] + [('permission',)] + [('authenticate', n, p) for n in range(nmax + 1) for p in (True, False)]
    with ProcessPoolExecutor(max_workers=12, mp_context=mp.get_context('fork')) as pool:
        res = list(pool.map(_worker, tasks))
    binp = None; seen = set()
    names = {'compare': 'constant_time_compare', 'permission': 'Role::has_permission', 'authenticate': 'RbacConfig::authenticate'}
    for r in res:
        tgt = names[r['spec'][0]]; cls = ' '.join(r['spec'][1:]) or '-'
        if r.get('error'):
            ctx.inconclusive.append('%s (%s): %s' % (tgt, cls, r['error'])); continue
        for why in sorted(set(r['inconclusive'])): ctx.inconclusive.append('%s (%s): %s' % (tgt, cls, why))
        ctx.queries += r['queries']; ctx.solver_s += r['solver_s']
        ctx.add_obligations(tgt, r['verdicts'], cls=cls)
        ctx.samples.append({'class': tgt + ' ' + cls, 'paths': r['paths']})
        for v in r['verdicts']:
            if v['status'] != 'violated': continue
            key = '%s:%s' % (tgt, v['name'].split(':')[0][:40])
            if key in seen: continue
            seen.add(key)
            w = v.get('witness') or {}
            if binp is None: binp = replay.build('cl')
            ctx.findings.append(Finding(key, '%s %s: %s (witness %s)' % (tgt, cls, v['name'], w), [binp, 'rbac'], w))
    ctx.models += sorted(models.USED)
