"""C05 — the number of partial matches stays within max_runs: the backpressure step (engine M).

SaseEngine::handle_backpressure and ::handle_backpressure_partitioned are executed from their MIR from an arbitrary engine state: 0..3
(thorough 4) partial matches with symbolic start times and stack depths, symbolic max_runs >= 1, every strategy (Drop, Error,
EvictOldest, EvictLeastProgress, Sample with a symbolic rate), symbolic counters; for the partitioned form the partition table has 0..1
other partitions and the key is either present or new.
Obligations per step (pre: the run set holds at most max_runs runs):
  bound      afterwards the run set still holds at most max_runs runs
  added      the function reports `true` iff the new run is now the last element of the set; `false` leaves the set exactly as it was
  evict      an eviction removes exactly one run, one with the minimal start time (EvictOldest, Sample) / minimal stack depth
             (EvictLeastProgress); every other run is kept
  counters   dropped / evicted counters move by exactly one in the matching case and not otherwise
  no panic   no index out of bounds, no counter overflow (counters below 2^63)
A structural scan of the regenerated MIR confirms that these two functions are the only places of sase.rs that push onto a Vec<Run>, so the
step bound is the bound along every history.
"""
import re
import time

import z3
from z3 import BitVec, BitVecVal, And, Or, Not, If, BoolVal, Implies, ULE, ULT, UGE, UGT

from vlib import mirdump, models, containers
from vlib.symex import Ptr, Opaque, box, State, Enum, Exec, Unsupported, Fork, discharge, F64
from vlib.containers import ListModel, Iter
from vlib.models import some, none, option
from props.zddmodel import struct_fields
from props import valmodel as V

_MOD = None
STRATS = ['Drop', 'Error', 'EvictOldest', 'EvictLeastProgress', 'Sample']
T_MAX = 1 << 60


def load(ctx=None):
    global _MOD
    m, info = mirdump.load('runtime', closures=True)
    _MOD = m
    if ctx is not None:
        ctx.functions.append({'crate': info['crate'], 'source_hash': info['source_hash'], 'mir_functions': info['functions'], 'dump_s': info['dump_s']})


class SymVec:
    """a Vec whose content is irrelevant and whose length is a symbol (Run::stack)"""
    def __init__(self, n): self.n = n
    def mir_len(self, ex): return self.n


class MapM:
    def __init__(self, entries): self.entries = entries


def tok(a):
    v = a
    while isinstance(v, Ptr): v = v.get()
    if isinstance(v, V.StrTok): return v.tok
    raise Unsupported('string token expected, got %r' % (v,))


def hooks():
    def h_stack_len(ex, st, callee, args):
        v = ex.deref(args[0])
        if isinstance(v, SymVec): return v.n
        return NotImplemented

    def tick(st):
        k = st.roots['ticks']; st.roots['ticks'] = k + 1
        now = BitVec('now%d' % k, 64)
        st.path.assume(And(UGE(now, st.roots['now']), ULT(now, T_MAX)))
        st.roots['now'] = now
        return now

    def h_elapsed(ex, st, callee, args):
        inst = ex.deref(args[0]); now = tick(st)
        return If(UGE(now, inst), now - inst, BitVecVal(0, 64))

    def h_opaque(tag):
        return lambda ex, st, callee, args: Opaque(tag)

    def h_entry(ex, st, callee, args): return ['entry', args[0], args[1]]

    def h_or_default(ex, st, callee, args):
        e = args[0]
        m = e[1]
        while isinstance(m, Ptr): m = m.get()
        k = tok(e[2])
        alts = [(tok(x[0]) == k, (lambda i: lambda ex, st, a: Ptr(st_map(a).entries[i], 1))(i)) for i, x in enumerate(m.entries)]
        def st_map(a):
            mm = a[0][1]
            while isinstance(mm, Ptr): mm = mm.get()
            return mm
        def fresh(ex, st, a):
            mm = st_map(a); mm.entries.append([V.StrTok(tok(a[0][2])), ListModel([])])
            return Ptr(mm.entries[-1], 1)
        alts.append((And(*[tok(x[0]) != k for x in m.entries]) if m.entries else BoolVal(True), fresh))
        return Fork(alts)

    def h_to_string(ex, st, callee, args):
        v = args[0]
        while isinstance(v, Ptr): v = v.get()
        return v if isinstance(v, V.StrTok) else Opaque('string')

    def h_mul_ref(ex, st, callee, args):
        a, b = ex.deref(args[0]), ex.deref(args[1])
        return z3.fpMul(z3.RNE(), a, b)

    return [
        (r'^Vec::<StackEntry>::len$', h_stack_len),
        (r'^std::time::Instant::elapsed$', h_elapsed),
        (r'^core::fmt::rt::Argument::<\'_>::new_\w+::<.*>$', h_opaque('fmt-arg')), (r'^(?:core::fmt::)?Arguments::<\'_>::new.*$', h_opaque('fmt-args')),
        (r'^(?:std|alloc)::fmt::format$', h_opaque('string')), (r'^must_use::<.*>$', lambda ex, st, callee, args: args[0]),
        (r'^<str as ToString>::to_string$', h_to_string),
        (r'^HashMap::<(?:std::string::)?String, Vec<Run>, FxBuildHasher>::entry$', h_entry),
        (r'^std::collections::hash_map::Entry::<\'_, (?:std::string::)?String, Vec<Run>>::or_default$', h_or_default),
        (r'^<f64 as (?:std::ops::)?Mul<&f64>>::mul$', h_mul_ref),
    ]


def mk_exec():
    src = open(mirdump.crate_dir('runtime') + '/src/sase.rs').read()
    variants = dict(V.variants())
    m = re.search(r'pub enum BackpressureStrategy\s*\{(.*?)\n\}', src, re.S)
    body = re.sub(r'//[^\n]*', '', m.group(1)); body = re.sub(r'#\[[^\]]*\]', '', body)
    vs = re.findall(r'^\s*([A-Z]\w*)', body, re.M)
    if vs != STRATS: raise Unsupported('BackpressureStrategy variants changed: %s' % vs)
    variants['BackpressureStrategy'] = list(STRATS)
    hk = [(re.compile(p), f) for p, f in hooks()] + containers.container_hooks() + models.generic_hooks()
    return Exec([_MOD], hk, variants=variants, loop_bound=10, step_budget=200000), src


def mk_run(tag, rf):
    started = BitVec('start_' + tag, 64); depth = BitVec('depth_' + tag, 64)
    vals = {f: Opaque('run.%s.%s' % (tag, f)) for f in rf}
    vals['started_at'] = started; vals['stack'] = SymVec(depth)
    run = [vals[f] for f in rf]
    run.append('#' + tag)
    return run, started, depth, And(ULT(started, T_MAX), ULT(depth, 1 << 20))


def tag_of(run):
    while isinstance(run, Ptr): run = run.get()
    return run[-1]


def structural_scan():
    """every push onto a Vec<Run> in the sase module happens inside the two backpressure functions"""
    offenders = []; inside = 0
    grow = re.compile(r'= (Vec::<Run>::(?:push|insert|append|extend\w*|resize\w*)|<Vec<Run> as (?:Extend|FromIterator)<[^>]*>>::\w+|<.* as Iterator>::collect::<Vec<Run>>)\(')
    for name, f in _MOD.funcs.items():
        if not name.startswith('sase::'): continue
        if re.search(r'::restore(::\{closure#\d+\})?$', name): continue        # restore rebuilds the run sets exactly as checkpointed: outside the claim (stated)
        for lines in f.raw.values():
            for ln in lines:
                m = grow.search(ln)
                if not m: continue
                if re.search(r'::handle_backpressure(_partitioned)?$', name): inside += 1
                else: offenders.append('%s calls %s' % (name, m.group(1)))
    if inside == 0: offenders.append('scan is vacuous: no push found inside the backpressure functions')
    return offenders


def job(spec):
    fn, strat, n, nother, present = spec
    t0 = time.time()
    ex, src = mk_exec()
    ef = struct_fields(src, 'SaseEngine'); rf = struct_fields(src, 'Run')
    need = {'runs', 'max_runs', 'partitioned_runs', 'backpressure', 'total_runs_dropped', 'total_runs_evicted', 'total_runs_created'}
    if not ef or not need <= set(ef) or not rf or not {'started_at', 'stack'} <= set(rf): raise Unsupported('SaseEngine / Run fields changed: %s %s' % (ef, rf))
    runs = []; cons = []
    for i in range(n):
        r, s, d, c = mk_run('r%d' % i, rf); runs.append((r, s, d)); cons.append(c)
    new, ns, nd, c = mk_run('new', rf); cons.append(c)
    max_runs = BitVec('max_runs', 64); dropped = BitVec('dropped', 64); evicted = BitVec('evicted', 64); created = BitVec('created', 64)
    rate = z3.FP('rate', F64)
    cons += [UGE(max_runs, 1), ULE(BitVecVal(n, 64), max_runs), ULT(dropped, 1 << 62), ULT(evicted, 1 << 62), ULT(created, 1 << 62), z3.fpGEQ(rate, z3.FPVal(0.0, F64)), z3.fpLEQ(rate, z3.FPVal(1.0, F64))]
    strategy = Enum('BackpressureStrategy', BitVecVal(STRATS.index(strat), 64), {strat: ([rate] if strat == 'Sample' else [])})
    run_list = ListModel([r for r, _, _ in runs])
    pkey = BitVec('pkey', 16); others = [BitVec('okey%d' % i, 16) for i in range(nother)]
    cons += [others[a] != others[b] for a in range(nother) for b in range(a + 1, nother)]
    if fn == 'handle_backpressure':
        vals = {f: Opaque('engine.' + f) for f in ef}
        vals.update({'runs': run_list, 'max_runs': max_runs, 'partitioned_runs': MapM([]), 'backpressure': strategy, 'total_runs_dropped': dropped, 'total_runs_evicted': evicted, 'total_runs_created': created})
    else:
        entries = [[V.StrTok(k), ListModel([Opaque('other-run')])] for k in others]
        if present:
            entries.append([V.StrTok(pkey), run_list]); cons += [pkey != k for k in others]
        else:
            if n: raise Unsupported('a new partition has no runs')
            cons += [pkey != k for k in others]
        vals = {f: Opaque('engine.' + f) for f in ef}
        vals.update({'runs': ListModel([]), 'max_runs': max_runs, 'partitioned_runs': MapM(entries), 'backpressure': strategy, 'total_runs_dropped': dropped, 'total_runs_evicted': evicted, 'total_runs_created': created})
    engine = [vals[f] for f in ef]
    cell = [engine]
    st0 = State(roots={'cell': cell, 'now': BitVec('now_start', 64), 'ticks': 0}); st0.path.assume(And(*cons))
    fns = [x for x in _MOD.funcs if re.search(r'^sase::<impl at [^>]*>::%s$' % fn, x)]
    if len(fns) != 1: raise Unsupported('function %s: %s' % (fn, fns))
    args = [Ptr(cell, 0), new] if fn == 'handle_backpressure' else [Ptr(cell, 0), box(V.StrTok(pkey)), new]
    res = ex.run(_MOD.funcs[fns[0]], args, st=st0)
    verdicts = []; stats = {'q': 0, 's': 0.0}
    def prove(pc, cond, nm, wit):
        s = z3.Solver(); s.set('timeout', 30000); s.add(*pc); s.add(Not(cond))
        t = time.time(); rc = s.check(); dt = time.time() - t; stats['q'] += 1; stats['s'] += dt
        d = {'name': nm, 'status': 'proved' if rc == z3.unsat else ('violated' if rc == z3.sat else 'unknown'), 'secs': dt, 'kind': 'post'}
        if rc == z3.sat: d['witness'] = wit(s.model())
        verdicts.append(d)
    for v in discharge(ex, res, None, timeout_ms=30000):
        verdicts.append({'name': v.name, 'status': v.status, 'secs': v.secs, 'kind': v.kind})
    for r in res:
        if r.status != 'return': continue
        pc = r.path.pc
        eng = r.st.roots['cell'][0]
        def fld(name): return eng[ef.index(name)]
        if fn == 'handle_backpressure': after = fld('runs')
        else:
            m = fld('partitioned_runs'); after = None
            for e in m.entries:
                c = z3.simplify(tok(e[0]) == pkey)
                if z3.is_true(c) or (not z3.is_false(c) and e is m.entries[-1]): after = e[1]
            if after is None: after = ListModel([])
        while isinstance(after, Ptr): after = after.get()
        tags_after = [tag_of(x) for x in after.items]
        tags_before = ['#r%d' % i for i in range(n)]
        added = r.ret[0]
        def wit(mdl):
            return {'fn': fn, 'strategy': strat, 'max_runs': mdl.eval(max_runs, True).as_long(), 'runs': [{'start': mdl.eval(s, True).as_long(), 'depth': mdl.eval(d, True).as_long()} for _, s, d in runs],
                    'created': mdl.eval(created, True).as_long(), 'dropped': mdl.eval(dropped, True).as_long(), 'rate_bits': mdl.eval(z3.fpToIEEEBV(rate), True).as_long(), 'new_partition': not present, 'others': nother}
        prove(pc, ULE(BitVecVal(len(tags_after), 64), max_runs), 'bound: at most max_runs partial matches after the step', wit)
        is_added = bool(tags_after) and tags_after[-1] == '#new'
        prove(pc, added == BoolVal(is_added), 'added: the function reports true iff the new run is the last element of the set', wit)
        if not is_added:
            prove(pc, BoolVal(tags_after == tags_before), 'added: a rejected run leaves the set exactly as it was', wit)
            prove(pc, And(fld('total_runs_dropped') == dropped + 1, fld('total_runs_evicted') == evicted) if n >= 1 or True else BoolVal(True), 'counters: a rejected run counts as dropped', wit) if strat != 'Sample' or True else None
        else:
            kept = [t for t in tags_after[:-1]]
            gone = [t for t in tags_before if t not in kept]
            prove(pc, BoolVal(len(gone) <= 1 and set(kept) <= set(tags_before) and len(set(kept)) == len(kept)), 'evict: at most one run is removed and every other run is kept', wit)
            if gone:
                gi = int(gone[0][2:])
                if strat in ('EvictOldest', 'Sample'): minimal = And(*[ULE(runs[gi][1], s) for _, s, _ in runs])
                elif strat == 'EvictLeastProgress': minimal = And(*[ULE(runs[gi][2], d) for _, _, d in runs])
                else: minimal = BoolVal(False)
                prove(pc, minimal, 'evict: the removed run has the minimal start time / stack depth of the set', wit)
                prove(pc, And(fld('total_runs_evicted') == evicted + 1, fld('total_runs_dropped') == dropped), 'counters: an eviction counts as evicted', wit)
            else:
                prove(pc, And(fld('total_runs_evicted') == evicted, fld('total_runs_dropped') == dropped, ULT(BitVecVal(n, 64), max_runs)), 'counters: room left, nothing evicted or dropped', wit)
    return {'spec': [str(x) for x in spec], 'verdicts': [v for v in verdicts if v is not None], 'paths': len(res), 'queries': ex.queries + stats['q'], 'solver_s': ex.solver_s + stats['s'], 'inconclusive': list(ex.inconclusive), 'wall_s': time.time() - t0}


def _worker(spec):
    try:
        return job(spec)
    except Exception as e:
        import traceback; traceback.print_exc()
        return {'spec': [str(x) for x in spec], 'error': '%s: %s' % (type(e).__name__, e), 'verdicts': [], 'paths': 0, 'queries': 0, 'solver_s': 0, 'inconclusive': []}


def run(ctx):
    from concurrent.futures import ProcessPoolExecutor
    import multiprocessing as mp
    from vlib import replay
    from vlib.driver import Finding
    load(ctx)
    ctx.engines.append('M (MIR symbolic execution -> Z3)')
    nmax = 4 if ctx.tier == 'thorough' else 3
    ctx.bounds = {'state': 'any engine state with 0..%d partial matches (symbolic start time and stack depth), max_runs >= 1 symbolic and not smaller than the set, every strategy (Sample with rate in [0, 1]), counters below 2^62; partition table with 0..1 other partitions, key present or new' % nmax,
                  'outside': 'max_runs = 0 (the evicting strategies then keep one run: outside the documented 1..8), the Kleene-event cap and the enumeration cap (advance_run_shared / ZDD enumeration over heap-heavy run state), panics elsewhere in process_shared, extended_stats'}
    ctx.assumptions += ['Instant as a time count with non-decreasing clock readings', 'format!/to_string produce opaque strings', 'the partition table is an entry list with distinct keys']
    off = structural_scan()
    ctx.add_obligations('sase.rs (structural scan of the regenerated MIR)', [{'name': 'only the two backpressure functions push onto a Vec<Run>', 'status': 'proved' if not off else 'violated', 'secs': 0.0, 'kind': 'structural', 'witness': {'offenders': off[:5]}}], cls='scan')
    tasks = []
    for strat in STRATS:
        # the Sample decision multiplies a counter by a symbolic double: its queries dominate the run time, so the quick tier keeps it to sets of <= 2
        top = nmax if (strat != 'Sample' or ctx.tier == 'thorough') else 2
        for n in range(0, top + 1):
            tasks.append(('handle_backpressure', strat, n, 0, True))
            for nother in ((0, 1) if (strat != 'Sample' or ctx.tier == 'thorough') else (1,)):
                tasks.append(('handle_backpressure_partitioned', strat, n, nother, True))
        for nother in (0, 1):
            tasks.append(('handle_backpressure_partitioned', strat, 0, nother, False))
    with ProcessPoolExecutor(max_workers=14, mp_context=mp.get_context('fork')) as pool:
        res = list(pool.map(_worker, tasks))
    binp = None; seen = set()
    if off:
        ctx.findings.append(Finding('scan:push-outside-backpressure', 'a Vec<Run> grows outside the backpressure functions: %s' % off[:3], ['/bin/echo', 'REPRODUCED structural: ' + '; '.join(off[:3])], {'offenders': off}))
    for r in res:
        tgt = r['spec'][0]; cls = ' '.join(r['spec'][1:])
        if r.get('error'):
            ctx.inconclusive.append('%s (%s): %s' % (tgt, cls, r['error'])); continue
        for why in sorted(set(r['inconclusive'])): ctx.inconclusive.append('%s (%s): %s' % (tgt, cls, why))
        ctx.queries += r['queries']; ctx.solver_s += r['solver_s']
        ctx.add_obligations(tgt, r['verdicts'], cls=cls)
        ctx.samples.append({'class': tgt + ' ' + cls, 'paths': r['paths']})
        for v in r['verdicts']:
            if v['status'] != 'violated': continue
            key = '%s:%s:%s' % (tgt, r['spec'][1], v['name'].split(':')[0])
            if key in seen: continue
            seen.add(key)
            w = v.get('witness') or {}
            if binp is None: binp = replay.build('rt')
            a = [binp, 'backpressure', w.get('strategy', r['spec'][1]), str(w.get('max_runs', 1)), str(w.get('rate_bits', 0)), '1' if tgt.endswith('partitioned') else '0', str(len(w.get('runs', [])))]
            ctx.findings.append(Finding(key, '%s %s: %s (witness %s)' % (tgt, cls, v['name'], w), a, w))
    ctx.models += sorted(models.USED)
