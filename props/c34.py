"""C34 (partial) — event routing is deterministic and balanced (engine M, strings in Z3's string theory).

* `event_type_matches(t, p)` against its specification ("*", trailing-"*" prefix, exact) for ALL strings t, p (unbounded length).
* `find_target_pipeline`: route tables of <= 2 routes x <= 2 patterns with symbolic strings: the target of the first route, in
  declaration order, one of whose patterns matches; the first pipeline when none does; None for an empty group.
* `ReplicaGroup::select_replica`, round-robin: one step from an arbitrary counter — replica index = counter mod n, counter' =
  counter + 1, empty replica list returns the pipeline name.  Consecutive counters give consecutive residues, hence loads over any
  run differ by at most one (until the usize counter wraps).
Outside: key-hash stickiness (serde_json rendering + SipHash), coordinator resolve_inject_target / inject_batch wrappers.
"""
import re
import time

import z3
from z3 import BitVec, BitVecVal, And, Or, Not, If, BoolVal, String, StringVal, Length, PrefixOf, SuffixOf, SubString, Implies, URem, ULT

from vlib import mirdump, symex, models, containers
from vlib.symex import Exec, Ptr, Opaque, box, State, Enum, Fork, Unsupported, discharge
from vlib.containers import ListModel
from props.zddmodel import struct_fields

_MOD = None


def sref(s):
    """a &str / &String argument holding the z3 string s"""
    return box(Str(s))


class Str:
    def __init__(self, s): self.s = s
    def mir_eq(self, ex, other): return self.s == other.s
    def __repr__(self): return 'Str(%s)' % self.s


def S(ex, v):
    v = ex.deref(v)
    if isinstance(v, Str): return v.s
    if isinstance(v, symex.StrConst): return StringVal(eval(v.lit))
    raise Unsupported('string expected, got %r' % (v,))


def hooks():
    def h_eq(ex, st, callee, args): return S(ex, args[0]) == S(ex, args[1])

    def h_strip_suffix(ex, st, callee, args):
        s = S(ex, args[0]); c = args[1]
        cs = z3.simplify(c)
        if not z3.is_bv_value(cs): raise Unsupported('strip_suffix with a symbolic char')
        suf = StringVal(chr(cs.as_long()))
        has = SuffixOf(suf, s)
        return Enum('Option', If(has, BitVecVal(1, 64), BitVecVal(0, 64)), {'Some': [box(Str(SubString(s, 0, Length(s) - 1)))], 'None': []})

    def h_starts_with(ex, st, callee, args): return PrefixOf(S(ex, args[1]), S(ex, args[0]))
    def h_ends_with(ex, st, callee, args): return SuffixOf(S(ex, args[1]), S(ex, args[0]))
    def h_contains(ex, st, callee, args): return z3.Contains(S(ex, args[0]), S(ex, args[1]))

    def h_len(ex, st, callee, args):
        # Rust's len() counts UTF-8 bytes, Z3's Length counts characters: equal on ASCII, which the path is restricted to (recorded)
        s = S(ex, args[0])
        models.USED.add('str::len as the character count (exact for ASCII strings; counterexamples are replayed natively)')
        return z3.Int2BV(Length(s), 64)

    def h_is_empty(ex, st, callee, args): return Length(S(ex, args[0])) == 0
    def h_deref(ex, st, callee, args): return args[0] if isinstance(ex.deref(args[0]), (Str, ListModel)) else NotImplemented
    def h_as_str(ex, st, callee, args): return args[0]

    def h_fetch_add(ex, st, callee, args):
        a = ex.deref(args[0])
        old = a[0]; a[0] = old + args[1]
        return old

    def h_store(ex, st, callee, args):
        ex.deref(args[0])[0] = args[1]
        return []

    def h_load(ex, st, callee, args): return ex.deref(args[0])[0]

    def h_arc_deref(ex, st, callee, args):
        p = args[0]; v = p.get() if isinstance(p, Ptr) else p
        return v if isinstance(v, Ptr) else NotImplemented
    return [
        (r'^<&?str as PartialEq(?:<&?str>)?>::eq$|^<&?(?:std::string::)?String as PartialEq<&?str>>::eq$|^<&?str as PartialEq<&?(?:std::string::)?String>>::eq$', h_eq),
        (r'^(?:core::)?str::<impl str>::strip_suffix::<char>$', h_strip_suffix), (r'^(?:core::)?str::<impl str>::starts_with::<&str>$', h_starts_with),
        (r'^(?:core::)?str::<impl str>::ends_with::<&str>$', h_ends_with), (r'^(?:core::)?str::<impl str>::contains::<&str>$', h_contains),
        (r'^(?:core::)?str::<impl str>::len$|^(?:std::string::)?String::len$', h_len), (r'^(?:core::)?str::<impl str>::is_empty$|^(?:std::string::)?String::is_empty$', h_is_empty),
        (r'^<(?:std::string::)?String as (?:std::ops::)?Deref>::deref$', h_deref), (r'^(?:std::string::)?String::as_str$', h_as_str),
        (r'^(?:std::sync::atomic::)?(?:AtomicUsize|Atomic::<usize>)::fetch_add$', h_fetch_add),
        (r'^(?:std::sync::atomic::)?(?:AtomicUsize|Atomic::<usize>)::store$', h_store), (r'^(?:std::sync::atomic::)?(?:AtomicUsize|Atomic::<usize>)::load$', h_load), (r'^<Arc<(?:std::sync::atomic::)?(?:AtomicUsize|Atomic<usize>)> as (?:std::ops::)?Deref>::deref$', h_arc_deref),
    ]


def mk_exec():
    hk = [(re.compile(p), f) for p, f in hooks()] + containers.container_hooks() + models.generic_hooks()
    from props import valmodel as V
    return Exec([_MOD], hk, variants=V.variants(), loop_bound=12)


def spec_match(t, p):
    return Or(p == StringVal('*'), And(SuffixOf(StringVal('*'), p), PrefixOf(SubString(p, 0, Length(p) - 1), t)), And(Not(SuffixOf(StringVal('*'), p)), t == p))


def job_matches():
    ex = mk_exec()
    t, p = String('event_type'), String('pattern')
    res = ex.run('event_type_matches', [sref(t), sref(p)])
    return ex, res, (lambda r: [('event_type_matches agrees with "*" / trailing-"*" prefix / exact', r.ret == spec_match(t, p))]), {'t': t, 'p': p}


def job_find(nr, npat, npipe):
    ex = mk_exec()
    src = open(_MOD.src_dir + '/src/pipeline_group.rs').read()
    t = String('event_type')
    routes = []; pats = []
    rf = struct_fields(src, 'InterPipelineRoute')
    for i in range(nr):
        ps = [String('r%d_p%d' % (i, j)) for j in range(npat)]
        pats.append(ps)
        vals = {'from_pipeline': Str(String('r%d_from' % i)), 'to_pipeline': Str(String('r%d_to' % i)), 'event_types': ListModel([Str(x) for x in ps]), 'nats_subject': Opaque('nats')}
        routes.append([vals[x] for x in rf])
    pf = struct_fields(src, 'PipelinePlacement')
    pipes = []
    for i in range(npipe):
        vals = {x: Opaque(x) for x in pf}; vals['name'] = Str(String('pipe%d' % i))
        pipes.append([vals[x] for x in pf])
    sf = struct_fields(src, 'PipelineGroupSpec')
    spec = [{'name': Str(String('gname')), 'pipelines': ListModel(pipes), 'routes': ListModel(routes)}[x] for x in sf]
    gf = struct_fields(src, 'DeployedPipelineGroup')
    group = [spec if x == 'spec' else Opaque(x) for x in gf]
    res = ex.run('find_target_pipeline', [box(group), sref(t)])
    # specification: first route (declaration order) with a matching pattern
    def post(r):
        rv = r.ret
        want_none = BoolVal(True)
        conds = []
        prev_none = BoolVal(True)
        expected = None
        for i in range(nr):
            m = Or(*[spec_match(t, x) for x in pats[i]]) if pats[i] else BoolVal(False)
            conds.append((And(prev_none, m), String('r%d_to' % i)))
            prev_none = And(prev_none, Not(m))
        out = []
        got_s = None
        if isinstance(rv, Enum) and rv.fields.get('Some'):
            try: got_s = S(ex, rv.fields['Some'][0])
            except Unsupported: got_s = None
        for i, (c, tgt) in enumerate(conds):
            out.append(('route %d is the first match => its target is returned' % i, Implies(c, And(rv.disc == 1, (got_s == tgt) if got_s is not None else BoolVal(False)))))
        if npipe:
            out.append(('no route matches => the first pipeline of the group', Implies(prev_none, And(rv.disc == 1, (got_s == String('pipe0')) if got_s is not None else BoolVal(False)))))
        else:
            out.append(('no route matches and no pipeline => None', Implies(prev_none, rv.disc == 0)))
        return out
    return ex, res, post, {'t': t}


def job_rr(n):
    ex = mk_exec()
    src = open(_MOD.src_dir + '/src/pipeline_group.rs').read()
    gf = struct_fields(src, 'ReplicaGroup')
    c = BitVec('counter', 64)
    names = [Str(String('replica%d' % i)) for i in range(n)]
    counter_cell = [c]
    from props import valmodel as V
    strat = Enum('PartitionStrategy', BitVecVal(V.variants()['PartitionStrategy'].index('RoundRobin'), 64), {'RoundRobin': []})
    vals = {'pipeline_name': Str(String('pipeline')), 'replica_names': ListModel(names), 'strategy': strat, 'counter': Ptr([counter_cell], 0), 'missing_field_warned': Opaque('flag')}
    grp = [vals[x] for x in gf]
    st = State(roots={'cell': counter_cell})
    res = ex.run('ReplicaGroup::select_replica', [box(grp), box(Opaque('fields'))], st=st)

    def post(r):
        got = S(ex, r.ret)
        out = []
        if n == 0:
            out.append(('no replicas => the pipeline name itself', got == String('pipeline')))
        else:
            for i in range(n):
                out.append(('counter mod n = %d selects replica %d' % (i, i), Implies(URem(c, BitVecVal(n, 64)) == i, got == String('replica%d' % i))))
            # the next pick is the next replica of the cycle (a bounded counter is as good as a free-running one); the wrap at 2^64 is outside the claim
            out.append(('the counter advances to the next position of the cycle', Implies(c != BitVecVal(2 ** 64 - 1, 64), URem(r.st.roots['cell'][0], BitVecVal(n, 64)) == URem(c + 1, BitVecVal(n, 64)))))
        return out
    return ex, res, post, {'counter': c}


def _worker(spec):
    t0 = time.time()
    try:
        if spec[0] == 'matches': ex, res, post, syms = job_matches()
        elif spec[0] == 'find': ex, res, post, syms = job_find(*spec[1:])
        else: ex, res, post, syms = job_rr(spec[1])
        vs = discharge(ex, res, post, timeout_ms=120000)
        out = []
        for v in vs:
            d = {'name': v.name, 'status': v.status, 'secs': v.secs, 'kind': v.kind}
            if v.model is not None: d['witness'] = {k: str(v.model.eval(s, True)) for k, s in syms.items()}; d['model'] = str(v.model)[:400]
            out.append(d)
        return {'spec': spec, 'paths': len(res), 'verdicts': out, 'queries': ex.queries, 'solver_s': ex.solver_s, 'inconclusive': list(ex.inconclusive), 'wall_s': time.time() - t0}
    except Exception as e:
        import traceback; traceback.print_exc()
        return {'spec': spec, 'error': '%s: %s' % (type(e).__name__, e), 'verdicts': [], 'paths': 0, 'queries': 0, 'solver_s': 0, 'inconclusive': []}


def run(ctx):
    global _MOD
    from concurrent.futures import ProcessPoolExecutor
    import multiprocessing as mp
    from vlib import replay
    from vlib.driver import Finding
    _MOD, info = mirdump.load('cluster')
    ctx.engines.append('M (MIR symbolic execution -> Z3, string theory)')
    ctx.functions.append({'crate': info['crate'], 'source_hash': info['source_hash'], 'mir_functions': info['functions'], 'dump_s': info['dump_s']})
    big = ctx.tier == 'thorough'
    ctx.bounds = {'event_type_matches': 'all strings (unbounded length, Z3 string theory)', 'find_target_pipeline': 'route tables of <= %d routes x <= 2 patterns, <= 2 pipelines, all strings symbolic' % (3 if big else 2),
                  'select_replica': 'round-robin, 0..5 replicas, any counter value, one step', 'outside': 'HashKey partitioning (serde_json rendering + SipHash), single-vs-batch key rendering, coordinator wrappers, counter wrap at 2^64'}
    ctx.assumptions += ['str ==, strip_suffix(char), starts_with as the corresponding Z3 string operations; AtomicUsize::fetch_add / load / store as operations on a cell (sequential: one caller)']
    tasks = [('matches',)] + [('find', nr, npat, npipe) for nr in range(0, (4 if big else 3)) for npat in (1, 2) for npipe in (0, 1, 2) if not (nr == 0 and npat == 2)] + [('rr', n) for n in range(0, 6)]
    with ProcessPoolExecutor(max_workers=14, mp_context=mp.get_context('fork')) as pool:
        res = list(pool.map(_worker, tasks))
        from props import c34inject
        ires = list(pool.map(c34inject._worker, c34inject.tasks(ctx.tier)))
    ctx.bounds['resolve_inject_target'] = 'Coordinator::resolve_inject_target with 0..2 groups, 0..2 (thorough 3) replica groups and placements of the addressed group under distinct symbolic names; find_target_pipeline and select_replica cut to arbitrary answers'
    binp = None; seen = set()
    for r in ires:
        tgt = 'Coordinator::resolve_inject_target'; cls = 'groups / replica groups / placements = %s' % ' / '.join(r['spec'][1:])
        if r.get('error'):
            ctx.inconclusive.append('%s (%s): %s' % (tgt, cls, r['error'])); continue
        for why in sorted(set(r['inconclusive'])): ctx.inconclusive.append('%s (%s): %s' % (tgt, cls, why))
        ctx.queries += r['queries']; ctx.solver_s += r['solver_s']
        ctx.add_obligations(tgt, r['verdicts'], cls=cls)
        ctx.samples.append({'target': tgt, 'class': cls, 'paths': r['paths'], 'obligations': len(r['verdicts'])})
        for v in r['verdicts']:
            if v['status'] != 'violated': continue
            key = '%s:%s' % (tgt, v['name'].split(':')[0])
            if key in seen: continue
            seen.add(key)
            if binp is None: binp = replay.build('cl')
            ctx.findings.append(Finding(key, '%s (%s): %s violated (witness %s)' % (tgt, cls, v['name'], v.get('witness')), [binp, 'inject'], {'witness': v.get('witness')}))
    for r in res:
        sp = r['spec']
        tgt = {'matches': 'event_type_matches', 'find': 'find_target_pipeline', 'rr': 'ReplicaGroup::select_replica'}[sp[0]]
        cls = {'matches': 'all strings', 'find': '%s routes x %s patterns, %s pipelines' % tuple(sp[1:] + (None,) * (4 - len(sp))) if sp[0] == 'find' else '', 'rr': '%s replicas' % (sp[1] if len(sp) > 1 else '')}[sp[0]]
        if r.get('error'):
            ctx.inconclusive.append('%s (%s): %s' % (tgt, cls, r['error'])); continue
        for why in r['inconclusive']: ctx.inconclusive.append('%s (%s): %s' % (tgt, cls, why))
        ctx.queries += r['queries']; ctx.solver_s += r['solver_s']
        ctx.add_obligations(tgt, r['verdicts'], cls=cls)
        ctx.samples.append({'target': tgt, 'class': cls, 'paths': r['paths'], 'obligations': len(r['verdicts'])})
        for v in r['verdicts']:
            if v['status'] != 'violated': continue
            key = '%s:%s' % (tgt, v['name'][:60])
            if key in seen: continue
            seen.add(key)
            if binp is None: binp = replay.build('cl')
            w = v.get('witness') or {}
            ctx.findings.append(Finding(key, '%s (%s): %s violated (witness %s)' % (tgt, cls, v['name'], v.get('model')), [binp, 'routing'], {'witness': w, 'model': v.get('model')}))
    ctx.models += sorted(models.USED)
