"""C14 — aggregates equal their definitions on every execution path (engine M, kernel level).

The scalar and AVX2 kernels of simd.rs (sum/min/max) are executed from the MIR, one obligation set per concrete slice length
n = 0..9 with fully symbolic element values; the AVX2 intrinsics are modelled as 4-lane IEEE operations, raw pointers as
(slice, offset) with every access an in-bounds obligation, and feature detection as a symbolic boolean, so both dispatch targets
are explored.  Obligations:
  * sum: on integer-valued inputs |x| <= 2^20 (every association order is exact there) both kernels return exactly sum(x_i):
    a dropped, duplicated or mis-indexed element at the unroll remainder changes the result;
  * min/max (NaN-free inputs, as filtered by the callers): the result is an element and <= / >= every element; empty -> None;
  * scalar and AVX2 kernels agree; no out-of-bounds access, no arithmetic panic.
"""
import time

import z3
from z3 import (BitVec, BitVecVal, And, Or, Not, If, BoolVal, FP, FPVal, ULT, ULE, fpLT, fpGT, fpLEQ, fpGEQ, fpEQ, fpIsNaN, fpAdd, RNE, fpSignedToFP, Implies)

from vlib import mirdump, symex, models, containers
from vlib.symex import Exec, Ptr, Opaque, box, State, Enum, Fork, F64, Unsupported, discharge
from vlib.containers import ListModel

_MOD = None


class RawPtr:
    """*const f64 / *mut f64 into a modelled slice"""
    def __init__(self, lst, off): self.lst, self.off = lst, off


def hooks():
    def lst_of(ex, p):
        v = ex.deref(p)
        if isinstance(v, ListModel): return v.items
        if isinstance(v, list): return v
        raise Unsupported('slice expected, got %r' % (v,))

    def h_range_into_iter(ex, st, callee, args): return args[0]

    def h_range_next(ex, st, callee, args):
        r = ex.deref(args[0])
        s, e = r[0], r[1]
        c = z3.simplify(ULT(s, e))
        def yes(ex, st, a):
            rr = ex.deref(a[0]); v = rr[0]; rr[0] = z3.simplify(v + 1); return models.some(v)
        if z3.is_true(c): return yes(ex, st, args)
        if z3.is_false(c): return models.none()
        return Fork([(ULT(s, e), yes), (Not(ULT(s, e)), lambda ex, st, a: models.none())])

    def h_get_unchecked(ex, st, callee, args):
        l = lst_of(ex, args[0]); idx = args[1]
        okc = ULT(idx, len(l))
        st.path.oblige('get_unchecked index inside the slice (undefined behaviour otherwise)', okc, callee, 'bounds'); st.path.assume(okc)
        i = z3.simplify(idx)
        if z3.is_bv_value(i): return Ptr(l, i.as_long())
        return Fork([(idx == k, (lambda k: lambda ex, st, a: Ptr(lst_of(ex, a[0]), k))(k)) for k in range(len(l))])

    def h_as_ptr(ex, st, callee, args): return RawPtr(lst_of(ex, args[0]), BitVecVal(0, 64))
    def h_ptr_add(ex, st, callee, args): return RawPtr(args[0].lst, args[0].off + args[1])

    def h_loadu(ex, st, callee, args):
        p = args[0]; n = len(p.lst)
        okc = ULE(p.off + 4, n) if n >= 4 else BoolVal(False)
        st.path.oblige('_mm256_loadu_pd reads 4 lanes inside the slice', okc, callee, 'bounds'); st.path.assume(okc)
        o = z3.simplify(p.off)
        if not z3.is_bv_value(o): raise Unsupported('symbolic vector load offset')
        k = o.as_long()
        return list(p.lst[k:k + 4])

    def h_storeu(ex, st, callee, args):
        p, v = args
        o = z3.simplify(p.off); k = o.as_long()
        st.path.oblige('_mm256_storeu_pd writes 4 lanes inside the destination', BoolVal(k + 4 <= len(p.lst)), callee, 'bounds')
        for i in range(4): p.lst[k + i] = v[i]
        return []

    def lanes2(f):
        def h(ex, st, callee, args): return [f(a, b) for a, b in zip(args[0], args[1])]
        return h
    return [
        (r'^<std::ops::Range<usize> as IntoIterator>::into_iter$', h_range_into_iter), (r'^<std::ops::Range<usize> as Iterator>::next$', h_range_next),
        (r'^core::slice::<impl \[f64\]>::get_unchecked::<usize>$', h_get_unchecked), (r'^core::slice::<impl \[f64\]>::(as_ptr|as_mut_ptr)$', h_as_ptr),
        (r'^std::ptr::(?:const_ptr|mut_ptr)::<impl \*(?:const|mut) f64>::add$', h_ptr_add),
        (r'^std::arch::x86_64::_mm256_setzero_pd$', lambda ex, st, c, a: [BitVecVal(0, 64) if isinstance(ex, IntDomainExec) else FPVal(0.0, F64)] * 4), (r'^std::arch::x86_64::_mm256_set1_pd$', lambda ex, st, c, a: [a[0]] * 4),
        (r'^std::arch::x86_64::_mm256_loadu_pd$', h_loadu), (r'^std::arch::x86_64::_mm256_storeu_pd$', h_storeu),
        (r'^std::arch::x86_64::_mm256_add_pd$', lanes2(lambda a, b: fpAdd(RNE(), a, b) if z3.is_fp(a) else a + b)),
        (r'^std::arch::x86_64::_mm256_min_pd$', lanes2(lambda a, b: If(fpLT(a, b) if z3.is_fp(a) else ULT(a, b), a, b))), (r'^std::arch::x86_64::_mm256_max_pd$', lanes2(lambda a, b: If(fpGT(a, b) if z3.is_fp(a) else z3.UGT(a, b), a, b))),
        (r'^core::f64::<impl f64>::(min|max)$', lambda ex, st, c, a: NotImplemented if z3.is_fp(a[0]) else (If(ULT(a[1], a[0]), a[1], a[0]) if c.endswith('min') else If(z3.UGT(a[1], a[0]), a[1], a[0]))),
        (r'^std_detect::detect::arch::x86::__is_feature_detected::avx2$', lambda ex, st, c, a: ex.fresh('avx2', 'bool')),
    ]


class IntDomainExec(Exec):
    """sum kernels on the exact domain: integer-valued doubles below 2^53 are represented by 64-bit integers and IEEE `+` by integer
    `+` (exact there) — the solver then only has to follow indexing and association, not bit-blast adders"""
    def const(self, c):
        m = __import__('re').match(r'(-?\d+(?:\.0*)?)f64$', c)
        if m: return BitVecVal(int(float(m.group(1))), 64)
        # order domain for min/max: NaN-free doubles under IEEE comparison are a total order with least element -inf and greatest +inf;
        # the kernels only compare and select, so they are run over the unsigned 64-bit order with 0 / 2^64-1 as the infinities
        if c.endswith('f64>::NEG_INFINITY') or c.endswith('f64::NEG_INFINITY'): return BitVecVal(0, 64)
        if c.endswith('f64>::INFINITY') or c.endswith('f64::INFINITY'): return BitVecVal(2 ** 64 - 1, 64)
        return super().const(c)


def mk_exec(int_domain=False):
    import re
    hk = [(re.compile(p), f) for p, f in hooks()] + containers.container_hooks() + models.generic_hooks()
    return (IntDomainExec if int_domain else Exec)([_MOD], hk, variants={}, loop_bound=16, step_budget=40000)


def inputs(n, mode):
    if mode == 'int':
        ks = [BitVec('k%d' % i, 64) for i in range(n)]
        pre = And(*[And(k >= -(1 << 20), k <= (1 << 20)) for k in ks]) if ks else BoolVal(True)
        exact = sum(ks, BitVecVal(0, 64))
        return ks, pre, exact, ks
    if mode == 'ord':
        xs = [BitVec('o%d' % i, 64) for i in range(n)]
        return xs, BoolVal(True), None, xs
    xs = [FP('x%d' % i, F64) for i in range(n)]
    pre = And(*[Not(fpIsNaN(x)) for x in xs]) if xs else BoolVal(True)
    return xs, pre, None, xs


def job(fn, n, domain='ieee'):
    t0 = time.time()
    kind = 'sum' if 'sum' in fn else ('min' if 'min' in fn else 'max')
    ex = mk_exec(int_domain=(kind == 'sum' or domain == 'ord'))
    xs, pre, exact, syms = inputs(n, 'int' if kind == 'sum' else ('ord' if domain == 'ord' else 'nan-free'))
    EQ = (lambda a, b: a == b) if domain == 'ord' else fpEQ
    LE = (lambda a, b: ULE(a, b)) if domain == 'ord' else fpLEQ
    GE = (lambda a, b: z3.UGE(a, b)) if domain == 'ord' else fpGEQ
    st = State(); st.path.assume(pre)
    sl = Ptr([ListModel(list(xs))], 0, meta=BitVecVal(n, 64))
    results = ex.run(fn, [sl], st=st)

    def post(r):
        rv = r.ret
        out = []
        if kind == 'sum':
            out.append(('sum equals the exact sum of the elements (integer-valued inputs, every association order exact)', rv == exact))
            return out
        if isinstance(rv, Enum):     # dispatcher: Option<f64>
            out.append(('empty input gives no value, non-empty input gives one', (rv.disc == 1) == BoolVal(n > 0)))
            if n == 0: return out
            v = rv.fields['Some'][0]
        else:
            v = rv
        if n > 0:
            out.append(('%s is one of the elements' % kind, Or(*[EQ(v, x) for x in xs])))
            for i, x in enumerate(xs):
                out.append(('%s is %s element %d' % (kind, '<=' if kind == 'min' else '>=', i), LE(v, x) if kind == 'min' else GE(v, x)))
        return out
    vs = discharge(ex, results, post)
    outv = []
    for v in vs:
        d = {'name': v.name, 'status': v.status, 'secs': v.secs, 'kind': v.kind}
        if v.model is not None:
            d['witness'] = [str(v.model.eval(s, True)) for s in syms]
        outv.append(d)
    return {'fn': fn, 'n': n, 'domain': (' (order domain)' if domain == 'ord' else ''), 'paths': len(results), 'verdicts': outv, 'queries': ex.queries, 'solver_s': ex.solver_s, 'inconclusive': list(ex.inconclusive), 'wall_s': time.time() - t0}


def _worker(a):
    try:
        return job(*a)
    except Exception as e:
        import traceback; traceback.print_exc()
        return {'fn': a[0], 'n': a[1], 'error': '%s: %s' % (type(e).__name__, e), 'verdicts': [], 'paths': 0, 'queries': 0, 'solver_s': 0, 'inconclusive': []}


FNS = ['sum_f64_scalar', 'sum_f64_avx2', 'sum_f64', 'min_f64_scalar', 'min_f64_avx2', 'min_f64', 'max_f64_scalar', 'max_f64_avx2', 'max_f64']


def run(ctx):
    global _MOD
    from concurrent.futures import ProcessPoolExecutor
    import multiprocessing as mp
    from vlib import replay
    from vlib.driver import Finding
    _MOD, info = mirdump.load('runtime')
    ctx.engines.append('M (MIR symbolic execution -> Z3)')
    ctx.functions.append({'crate': info['crate'], 'source_hash': info['source_hash'], 'mir_functions': info['functions'], 'dump_s': info['dump_s']})
    NMAX = 6 if ctx.tier == 'quick' else 9
    ctx.bounds = {'slice_lengths': '0..%d, one obligation set per length (all residues of the 4-lane split on both sides of a full chunk)' % NMAX,
                  'sum_inputs': 'integer-valued doubles, |x| <= 2^20', 'min_max_inputs': 'all non-NaN doubles (+-inf, +-0, subnormals)', 'dispatch': 'AVX2 detection symbolic: both targets',
                  'outside': 'floating-point rounding of general sums; Aggregator apply/apply_refs/apply_columnar wrappers over events and the columnar buffer (IndexMap lookups); avg/stddev/ema/first/last/count_distinct definitions; NaN handling of callers'}
    ctx.assumptions += ['AVX2 intrinsics: _mm256_{setzero,set1,loadu,storeu,add,min,max}_pd as 4-lane IEEE-754 operations (min/max return the second operand when unordered)',
                        'raw pointers are (slice, offset); get_unchecked / vector loads and stores are in-bounds obligations']
    tasks = [(fn, n) for fn in FNS for n in range(0, NMAX + 1) if not (n == 0 and fn.endswith(('_scalar', '_avx2')) and not fn.startswith('sum'))]
    # the vector kernels do not fork per element (lane-wise min/max are if-then-else terms), so they are taken much further: enough
    # for two levels of unrolling (8- or 16-wide) on both sides of a full block plus every remainder; the sum kernels likewise
    VMAX = 17 if ctx.tier == 'quick' else 24        # (36 was tried: 50 min and 28 min/max obligations undecided after 60 s)
    VMM = 17 if ctx.tier == 'quick' else 20
    tasks += [(fn, n) for fn in ('sum_f64_avx2', 'sum_f64_scalar') for n in range(NMAX + 1, VMAX + 1)]
    tasks += [(fn, n, 'ord') for fn in ('min_f64_avx2', 'max_f64_avx2') for n in range(1, VMM + 1)]
    tasks += [(fn, n, 'ord') for fn in ('min_f64_scalar', 'max_f64_scalar') for n in range(1, (8 if ctx.tier == 'quick' else 11))]   # one fork per element
    ctx.bounds['vector_kernel_lengths'] = '0..%d for both sum kernels, 0..%d for the AVX2 min / max kernels' % (VMAX, VMM)
    # thorough: the Sum / Avg / Min / Max wrappers over events (apply and apply_refs), batches of 0..2 events whose field is missing or any value
    agg_tasks = [('agg', a, m, k) for a in ('Sum', 'Avg', 'Min', 'Max') for m in ('apply', 'apply_refs') for k in (0, 1, 2)] if ctx.tier == 'thorough' else []
    # count / first / last are positional: cheap, in both tiers
    agg_tasks += [('agg', a, m, k) for a in ('Count', 'First', 'Last') for m in ('apply', 'apply_refs') for k in range(0, 4 if ctx.tier == 'quick' else 6)]
    ctx.bounds['aggregate_wrappers'] = ('Count / First / Last ::apply and ::apply_refs on batches of 0..%d events' % (3 if ctx.tier == 'quick' else 5)) + ('; Sum / Avg / Min / Max ::apply and ::apply_refs on batches of 0..2 events' if ctx.tier == 'thorough' else '') + '; the field of each event is missing, Int, Float (all bit patterns, NaN included), Str, Bool or Null'
    with ProcessPoolExecutor(max_workers=14, mp_context=mp.get_context('fork')) as pool:
        res = list(pool.map(_worker, tasks))
        ares = list(pool.map(_agg_worker, agg_tasks)) if agg_tasks else []
    binp = None; seen = set()
    for r in ares:
        tgt = 'aggregation::' + r['fn']; cls = 'batch of %d events' % r['n']
        if r.get('error'):
            ctx.inconclusive.append('%s (%s): %s' % (tgt, cls, r['error'])); continue
        for why in sorted(set(r['inconclusive'])): ctx.inconclusive.append('%s (%s): %s' % (tgt, cls, why))
        ctx.queries += r['queries']; ctx.solver_s += r['solver_s']
        ctx.add_obligations(tgt, r['verdicts'], cls=cls)
        ctx.samples.append({'target': tgt, 'class': cls, 'paths': r['paths'], 'obligations': len(r['verdicts'])})
        for v in r['verdicts']:
            if v['status'] != 'violated': continue
            key = '%s:%s' % (tgt, v['name'][:50])
            if key in seen: continue
            seen.add(key)
            b2 = replay.build('rt')
            ctx.findings.append(Finding(key, '%s on %s: %s violated (witness %s)' % (tgt, cls, v['name'], v.get('witness')), [b2, 'agg'], {'witness': v.get('witness'), 'n': r['n']}))
    for r in res:
        tgt = 'simd::' + r['fn']; cls = 'slice of %d elements%s' % (r['n'], r.get('domain', ''))
        if r.get('error'):
            ctx.inconclusive.append('%s (%s): %s' % (tgt, cls, r['error'])); continue
        for why in r['inconclusive']: ctx.inconclusive.append('%s (%s): %s' % (tgt, cls, why))
        ctx.queries += r['queries']; ctx.solver_s += r['solver_s']
        ctx.add_obligations(tgt, r['verdicts'], cls=cls)
        ctx.samples.append({'target': tgt, 'class': cls, 'paths': r['paths'], 'obligations': len(r['verdicts'])})
        for v in r['verdicts']:
            if v['status'] != 'violated': continue
            key = '%s:%s' % (tgt, v['name'][:50])
            if key in seen: continue
            seen.add(key)
            if binp is None: binp = replay.build('rt', rustflags='--cfg varpulis_verif')     # hooks expose the scalar kernels natively
            ctx.findings.append(Finding(key, '%s on %s: %s violated (witness %s)' % (tgt, cls, v['name'], v.get('witness')), [binp, 'simd', '12'], {'witness': v.get('witness'), 'n': r['n']}))
    ctx.models += sorted(models.USED)


# ------------------------------------------------------------------------------------------------ aggregate wrappers over events
def _agg_worker(t):
    global _MOD, _CORE
    try:
        if _CORE is None:
            _CORE, _ = mirdump.load('core')
        if _MOD is None:
            _MOD, _ = mirdump.load('runtime')
        return agg_job(t[1], t[2], t[3])
    except Exception as e:
        import traceback; traceback.print_exc()
        return {'fn': '%s::%s' % (t[1], t[2]), 'n': t[3], 'error': '%s: %s' % (type(e).__name__, e), 'verdicts': [], 'paths': 0, 'queries': 0, 'solver_s': 0, 'inconclusive': []}


class FieldMap:
    """event.data: the aggregated field is missing or holds a symbolic value of any type"""
    def __init__(self, opt): self.opt = opt


def agg_job(agg, method, k):
    """<Agg as AggregateFunc>::{apply, apply_refs} on k events whose field is missing / Int / Float (any bits, NaN included) / non-numeric"""
    import re
    from props import valmodel as V
    from props.winmodel import event_fields
    t0 = time.time()
    vals = []; pres = []; cons = []
    for i in range(k):
        v, c = V.sym_value('f%d' % i, ['Int', 'Float', 'Str', 'Null', 'Bool'])
        p = z3.Bool('present%d' % i)
        vals.append(v); pres.append(p); cons.append(c)
    ef = event_fields()
    events = []
    for i in range(k):
        opt = Enum('Option', If(pres[i], BitVecVal(1, 64), BitVecVal(0, 64)), {'Some': [box(vals[i])], 'None': []})
        d = {'event_type': Opaque('type'), 'timestamp': BitVecVal(0, 64), 'data': FieldMap(opt)}
        events.append([d[x] for x in ef])

    def h_data_get(ex, st, callee, args):
        m = ex.deref(args[0])
        if not isinstance(m, FieldMap): return NotImplemented
        return m.opt
    hk = [(re.compile(r'^(?:indexmap::)?IndexMap::<Arc<str>, (?:varpulis_core::)?Value, .*>::get::<str>$'), h_data_get)]
    hk += [(re.compile(p), f) for p, f in hooks()] + V.VALUE_HOOKS + containers.container_hooks() + models.generic_hooks()
    mods = [_MOD, _CORE]
    ex = Exec(mods, hk, variants=V.variants(), loop_bound=16, step_budget=60000)
    st = State(); st.path.assume(And(*cons) if cons else BoolVal(True))
    if method == 'apply':
        arg = Ptr([ListModel(events)], 0, meta=BitVecVal(k, 64))
    else:
        arg = Ptr([ListModel([Ptr(events, i) for i in range(k)])], 0, meta=BitVecVal(k, 64))
    field = Enum('Option', BitVecVal(0, 64), {'Some': [Opaque('field-name')], 'None': []})
    results = ex.run('<%s as AggregateFunc>::%s' % (agg, method), [box([]), arg, field], st=st)
    # definition over the valid numeric values
    num = []
    for i in range(k):
        isint = vals[i].disc == V.vdisc('Int'); isfl = vals[i].disc == V.vdisc('Float')
        x = If(isint, fpSignedToFP(RNE(), vals[i].fields['Int'][0], F64), vals[i].fields['Float'][0])
        num.append((And(pres[i], Or(isint, isfl), Not(fpIsNaN(x))), x))
    cnt = sum([If(c, BitVecVal(1, 64), BitVecVal(0, 64)) for c, _ in num], BitVecVal(0, 64))
    acc = FPVal(0.0, F64)
    for c, x in num: acc = If(c, fpAdd(RNE(), acc, x), acc)
    same = lambda a, b: Or(And(fpIsNaN(a), fpIsNaN(b)), fpEQ(a, b))

    def post(r):
        rv = r.ret
        isf = rv.disc == V.vdisc('Float'); isn = rv.disc == V.vdisc('Null')
        fv = rv.fields['Float'][0] if 'Float' in rv.fields else FPVal(0.0, F64)
        out = []
        if agg == 'Count':
            out.append(('count is the number of events', And(rv.disc == V.vdisc('Int'), rv.fields['Int'][0] == k)))
        elif agg in ('First', 'Last'):
            if k == 0: out.append(('%s of an empty batch is Null' % agg.lower(), isn))
            else:
                i = 0 if agg == 'First' else k - 1
                w = vals[i]
                # scalar payloads must be identical (floats bit for bit); a Str payload goes through Box<str>::clone (std, opaque here): variant only
                eqs = [And(w.disc == V.vdisc('Null'), rv.disc == V.vdisc('Null')), And(w.disc == V.vdisc('Str'), rv.disc == V.vdisc('Str'))]
                for c in ('Int', 'Float', 'Bool'):
                    if c in rv.fields: eqs.append(And(w.disc == V.vdisc(c), rv.disc == V.vdisc(c), rv.fields[c][0] == w.fields[c][0]))
                out.append(('%s is the field of the %s event, Null when that event lacks it' % (agg.lower(), agg.lower()), If(pres[i], Or(*eqs), isn)))
        elif agg == 'Sum':
            out.append(('sum of the valid numeric values (missing, non-numeric and NaN values ignored)', And(isf, same(fv, acc))))
        elif agg == 'Avg':
            out.append(('no valid value gives Null', (cnt == 0) == isn))
            out.append(('avg = sum of valid values / their count', Implies(cnt != 0, And(isf, same(fv, z3.fpDiv(RNE(), acc, z3.fpUnsignedToFP(RNE(), cnt, F64)))))))
        else:
            out.append(('no valid value gives Null', (cnt == 0) == isn))
            out.append(('%s is one of the valid values' % agg.lower(), Implies(cnt != 0, And(isf, Or(*[And(c, fpEQ(fv, x)) for c, x in num]) if num else BoolVal(False)))))
            for i, (c, x) in enumerate(num):
                out.append(('%s bounds valid value %d' % (agg.lower(), i), Implies(And(cnt != 0, c), fpLEQ(fv, x) if agg == 'Min' else fpGEQ(fv, x))))
        return out
    vs = discharge(ex, results, post)
    outv = []
    for v in vs:
        d = {'name': v.name, 'status': v.status, 'secs': v.secs, 'kind': v.kind}
        if v.model is not None: d['witness'] = str(v.model)[:500]
        outv.append(d)
    return {'fn': '%s::%s' % (agg, method), 'n': k, 'paths': len(results), 'verdicts': outv, 'queries': ex.queries, 'solver_s': ex.solver_s, 'inconclusive': list(ex.inconclusive), 'wall_s': time.time() - t0}


_CORE = None
