"""C44 — event values keep their types and contents through the REST API (engine M).

The converters of varpulis-cli are executed symbolically from their MIR:
  api::json_to_runtime_value        JSON -> Value   (REST inject and inject-batch)
  websocket::json_to_value_bounded  JSON -> Value   (websocket inject; bounded depth)
  websocket::value_to_json          Value -> JSON   (REST inject responses)
  api::json_from_value              Value -> JSON   (REST log stream)
on symbolic JSON values / runtime values: every scalar class with symbolic payload (numbers as serde_json's own representation
N::{PosInt(u64), NegInt(i64), Float(f64)}), arrays and objects of <= 2 (thorough 3) symbolic scalars, one nesting level in thorough.
Obligations (Z3, all payloads):
  in    the converted value has the type and exactly the content of the JSON value (integers stay integers with the same value,
        floats keep their bits, strings/booleans/null unchanged, arrays keep order and length, objects keep their key -> value pairs)
  out   the JSON produced for a runtime value carries exactly its content
  round out(in(j)) == j and in(out(v)) == v on JSON-native values
A disagreement is replayed through the real REST route (warp test request against api_routes, pass-through pipeline).
"""
import time

import z3
from z3 import BitVec, BitVecVal, And, Or, Not, If, BoolVal, FP, Implies, fpToIEEEBV, ULE, UGT

from vlib import mirdump, symex, models, containers
from vlib.symex import Ptr, Opaque, box, State, Enum, F64, Unsupported, FnItem
from vlib.containers import ListModel, Iter
from vlib.models import some, none, option
from props import valmodel as V

_MODS = None
JV = ['Null', 'Bool', 'Number', 'String', 'Array', 'Object']
I64MAX = (1 << 63) - 1
POS, NEG, FLT = 0, 1, 2


def load(ctx=None):
    global _MODS
    mods = []
    for c in ('cli', 'core'):
        m, info = mirdump.load(c, closures=(c == 'cli'))
        mods.append(m)
        if ctx is not None:
            ctx.functions.append({'crate': info['crate'], 'source_hash': info['source_hash'], 'mir_functions': info['functions'], 'dump_s': info['dump_s']})
    _MODS = mods


class JNum:
    """serde_json::Number: N::PosInt(u64) | N::NegInt(i64) (always negative) | N::Float(f64) (always finite)"""
    def __init__(self, kind, n, f): self.kind, self.n, self.f = kind, n, f
    def valid(self):
        return And(ULE(self.kind, 2), Implies(self.kind == NEG, self.n < 0), Implies(self.kind == FLT, And(Not(z3.fpIsNaN(self.f)), Not(z3.fpIsInf(self.f)))))
    def __repr__(self): return 'JNum(%s,%s,%s)' % (self.kind, self.n, self.f)


def jval(var, *pay): return Enum('JValue', BitVecVal(JV.index(var), 64), {var: list(pay)})


def num_from_i64(i): return JNum(If(i < 0, BitVecVal(NEG, 8), BitVecVal(POS, 8)), i, z3.FPVal(0.0, F64))
def num_from_u64(u): return JNum(BitVecVal(POS, 8), u, z3.FPVal(0.0, F64))


def sym_jscalar(tag, classes=('Null', 'Bool', 'Number', 'String')):
    d = BitVec(tag + '_jd', 64)
    n = JNum(BitVec(tag + '_nk', 8), BitVec(tag + '_nn', 64), z3.fpBVToFP(BitVec(tag + '_nfbits', 64), F64))
    fields = {'Null': [], 'Bool': [z3.Bool(tag + '_jb')], 'Number': [n], 'String': [V.StrTok(BitVec(tag + '_js', 16))]}
    return Enum('JValue', d, {k: fields[k] for k in classes}), And(Or(*[d == JV.index(c) for c in classes]), n.valid())


def sym_vscalar(tag, classes):
    vs = V.variants()['Value']
    d = BitVec(tag + '_disc', 64)
    fields = {'Null': [], 'Bool': [z3.Bool(tag + '_b')], 'Int': [BitVec(tag + '_i', 64)], 'Float': [z3.fpBVToFP(BitVec(tag + '_fbits', 64), F64)],
              'Str': [box(V.StrTok(BitVec(tag + '_s', 16)))], 'Timestamp': [BitVec(tag + '_t', 64)], 'Duration': [BitVec(tag + '_d', 64)]}
    return Enum('Value', d, {k: fields[k] for k in classes}), Or(*[d == vs.index(c) for c in classes])


# ---------------------------------------------------------------- models of serde_json / string plumbing (trusted, from serde_json 1.0 number.rs / value/ser.rs)
def hooks():
    def num(ex, a):
        v = ex.deref(a)
        while isinstance(v, Ptr): v = v.get()
        if not isinstance(v, JNum): raise Unsupported('serde_json::Number expected, got %r' % (v,))
        return v

    def h_as_i64(ex, st, callee, args):
        n = num(ex, args[0])
        return option(Or(n.kind == NEG, And(n.kind == POS, ULE(n.n, BitVecVal(I64MAX, 64)))), n.n)

    def h_as_u64(ex, st, callee, args):
        n = num(ex, args[0]); return option(n.kind == POS, n.n)

    def h_as_f64(ex, st, callee, args):
        n = num(ex, args[0])
        f = If(n.kind == POS, z3.fpUnsignedToFP(z3.RNE(), n.n, F64), If(n.kind == NEG, z3.fpSignedToFP(z3.RNE(), n.n, F64), n.f))
        return some(f)

    def h_is(kind):
        def h(ex, st, callee, args):
            n = num(ex, args[0])
            return {'is_i64': Or(n.kind == NEG, And(n.kind == POS, ULE(n.n, BitVecVal(I64MAX, 64)))), 'is_u64': n.kind == POS, 'is_f64': n.kind == FLT}[kind]
        return h

    def ok(v): return Enum('Result', BitVecVal(0, 64), {'Ok': [v], 'Err': [Opaque('serde_json::Error')]})

    def scalar_arg(ex, a):
        v = ex.deref(a)
        while isinstance(v, Ptr): v = v.get()
        return v

    def h_to_value(ex, st, callee, args):
        t = callee.rsplit('::<', 1)[1].rstrip('>').lstrip('&')
        v = scalar_arg(ex, args[0])
        if t == 'i64': return ok(jval('Number', num_from_i64(v)))
        if t == 'u64': return ok(jval('Number', num_from_u64(v)))
        if t == 'f64':
            fin = And(Not(z3.fpIsNaN(v)), Not(z3.fpIsInf(v)))
            return ok(Enum('JValue', If(fin, BitVecVal(JV.index('Number'), 64), BitVecVal(JV.index('Null'), 64)), {'Number': [JNum(BitVecVal(FLT, 8), BitVecVal(0, 64), v)], 'Null': []}))
        if t == 'bool': return ok(jval('Bool', v))
        raise Unsupported('serde_json::to_value::<%s>' % t)

    def h_unwrap(ex, st, callee, args):
        r = args[0]
        return r.fields['Ok'][0]

    def tok(ex, a):
        v = ex.deref(a) if isinstance(a, Ptr) else a
        while isinstance(v, Ptr): v = v.get()
        if isinstance(v, V.StrTok): return v
        raise Unsupported('string token expected, got %r' % (v,))

    def h_str_val(ex, st, callee, args): return tok(ex, args[0])                 # owned String / Arc<str> result
    def h_str_box(ex, st, callee, args): return box(tok(ex, args[0]))            # Box<str> / &str result

    def as_entries(ex, a):
        v = ex.deref(a)
        while isinstance(v, Ptr): v = v.get()
        if isinstance(v, ListModel): return v
        raise Unsupported('map model expected, got %r' % (v,))

    def h_map_new(ex, st, callee, args): return ListModel([], kind='Map')

    def h_map_insert(ex, st, callee, args):
        m = as_entries(ex, args[0]); k = tok(ex, args[1])
        for e in m.items:
            st.path.assume(tok(ex, e[0]).tok != k.tok)       # object keys are distinct (serde_json::Map invariant)
        m.items.append([args[1], args[2]])
        return none()

    def h_map_iter(ex, st, callee, args): return Iter(as_entries(ex, args[0]), pairs=True)

    def h_map_len(ex, st, callee, args): return BitVecVal(len(as_entries(ex, args[0]).items), 64)

    def h_box_new(ex, st, callee, args): return box(args[0])

    return [
        (r'^serde_json::Number::as_i64$', h_as_i64), (r'^serde_json::Number::as_u64$', h_as_u64), (r'^serde_json::Number::as_f64$', h_as_f64),
        (r'^serde_json::Number::is_i64$', h_is('is_i64')), (r'^serde_json::Number::is_u64$', h_is('is_u64')), (r'^serde_json::Number::is_f64$', h_is('is_f64')),
        (r'^serde_json::to_value::<&?(i64|u64|f64|bool)>$', h_to_value),
        (r'^Result::<serde_json::Value, serde_json::Error>::unwrap$', h_unwrap),
        (r'^<(?:std::string::)?String as Clone>::clone$|^<Box<str> as ToString>::to_string$|^<Arc<str> as ToString>::to_string$|^<&str as Into<Arc<str>>>::into$|^<Arc<str> as (?:std::convert::)?From<&str>>::from$|^<str as ToString>::to_string$|^<&str as Into<(?:std::string::)?String>>::into$', h_str_val),
        (r'^<(?:std::string::)?String as Into<Box<str>>>::into$|^(?:std::string::)?String::as_str$|^<(?:std::string::)?String as Deref>::deref$|^<Box<str> as Deref>::deref$|^<Arc<str> as Deref>::deref$', h_str_box),
        (r'^IndexMap::<Arc<str>, (?:varpulis_core::)?Value, FxBuildHasher>::with_hasher$|^IndexMap::<Arc<str>, (?:varpulis_core::)?Value, FxBuildHasher>::with_capacity_and_hasher$|^serde_json::Map::<(?:std::string::)?String, serde_json::Value>::new$', h_map_new),
        (r'^IndexMap::<Arc<str>, (?:varpulis_core::)?Value, FxBuildHasher>::insert$|^serde_json::Map::<(?:std::string::)?String, serde_json::Value>::insert$', h_map_insert),
        (r'^IndexMap::<Arc<str>, (?:varpulis_core::)?Value, FxBuildHasher>::iter$|^serde_json::Map::<(?:std::string::)?String, serde_json::Value>::iter$|^<&serde_json::Map<(?:std::string::)?String, serde_json::Value> as IntoIterator>::into_iter$|^<&IndexMap<Arc<str>, (?:varpulis_core::)?Value, FxBuildHasher> as IntoIterator>::into_iter$', h_map_iter),
        (r'^IndexMap::<Arc<str>, (?:varpulis_core::)?Value, FxBuildHasher>::len$|^serde_json::Map::<(?:std::string::)?String, serde_json::Value>::len$', h_map_len),
        (r'^Box::<.*>::new$', h_box_new),
    ]


class JExec(V.ValExec):
    aliases = {'serde_json::Value': 'JValue'}

    def __init__(self, mods, hk):
        super().__init__(mods, hk)
        self.variants['JValue'] = list(JV)


def mk_exec():
    return JExec(_MODS, hooks() + [(rx.pattern, fn) for rx, fn in containers.container_hooks()])


# ---------------------------------------------------------------- specification: "same type and content"
def unbox(v):
    while isinstance(v, Ptr): v = v.get()
    return v


def vd(name): return V.vdisc(name)


def in_spec(j, v):
    """Z3 condition: runtime value v (concrete variant per path, symbolic payload) is the faithful image of JSON value j"""
    v = unbox(v); j = unbox(j)
    if not isinstance(v, Enum) or not isinstance(j, Enum): raise Unsupported('in_spec on %r / %r' % (j, v))
    alts = []
    for jc in j.fields:
        cond = j.disc == JV.index(jc)
        if jc == 'Null': alts.append(And(cond, v.disc == vd('Null')))
        elif jc == 'Bool': alts.append(And(cond, v.disc == vd('Bool'), vfield(v, 'Bool') == j.fields['Bool'][0]) if 'Bool' in v.fields else BoolVal(False))
        elif jc == 'String': alts.append(And(cond, v.disc == vd('Str'), unbox(vfield(v, 'Str')).tok == j.fields['String'][0].tok) if 'Str' in v.fields else BoolVal(False))
        elif jc == 'Number':
            n = j.fields['Number'][0]
            as_int = Or(n.kind == NEG, And(n.kind == POS, ULE(n.n, BitVecVal(I64MAX, 64))))
            int_ok = And(as_int, v.disc == vd('Int'), vfield(v, 'Int') == n.n) if 'Int' in v.fields else BoolVal(False)
            flt_ok = And(n.kind == FLT, v.disc == vd('Float'), fpToIEEEBV(vfield(v, 'Float')) == fpToIEEEBV(n.f)) if 'Float' in v.fields else BoolVal(False)
            # an unsigned integer above i64::MAX has no integer representation in Value: its content survives only if the float is exactly it
            if 'Float' in v.fields:
                f = vfield(v, 'Float')
                back = z3.fpToUBV(z3.RTZ(), f, z3.BitVecSort(64))
                big_ok = And(n.kind == POS, UGT(n.n, BitVecVal(I64MAX, 64)), v.disc == vd('Float'), z3.fpLT(f, z3.FPVal(2.0 ** 64, F64)), z3.fpGEQ(f, z3.FPVal(0.0, F64)), back == n.n,
                             z3.fpUnsignedToFP(z3.RNE(), back, F64) == f)
            else: big_ok = BoolVal(False)
            alts.append(And(cond, Or(int_ok, flt_ok, big_ok)))
        elif jc == 'Array':
            a = unbox(j.fields['Array'][0])
            if 'Array' not in v.fields: alts.append(BoolVal(False)); continue
            b = unbox(vfield(v, 'Array'))
            if not isinstance(b, ListModel) or len(b.items) != len(a.items): alts.append(BoolVal(False)); continue
            alts.append(And(cond, v.disc == vd('Array'), *[in_spec(x, y) for x, y in zip(a.items, b.items)]))
        elif jc == 'Object':
            a = unbox(j.fields['Object'][0])
            if 'Map' not in v.fields: alts.append(BoolVal(False)); continue
            b = unbox(vfield(v, 'Map'))
            if not isinstance(b, ListModel) or len(b.items) != len(a.items): alts.append(BoolVal(False)); continue
            alts.append(And(cond, v.disc == vd('Map'), *[And(unbox(x[0]).tok == unbox(y[0]).tok, in_spec(x[1], y[1])) for x, y in zip(a.items, b.items)]))
    return Or(*alts) if alts else BoolVal(False)


def vfield(v, name):
    return v.fields[name][0]


def out_spec(v, j):
    """Z3 condition: JSON value j carries exactly the content of runtime value v"""
    v = unbox(v); j = unbox(j)
    if not isinstance(v, Enum) or not isinstance(j, Enum): raise Unsupported('out_spec on %r / %r' % (v, j))
    def jnum(): return j.fields['Number'][0] if 'Number' in j.fields else None
    def int_is(n, i, signed):
        if n is None: return BoolVal(False)
        if signed: return And(j.disc == JV.index('Number'), Or(And(n.kind == NEG, n.n == i, i < 0), And(n.kind == POS, n.n == i, i >= 0)))
        return And(j.disc == JV.index('Number'), n.kind == POS, n.n == i)
    alts = []
    for vc in v.fields:
        cond = v.disc == vd(vc)
        if vc == 'Null': alts.append(And(cond, j.disc == JV.index('Null')))
        elif vc == 'Bool': alts.append(And(cond, j.disc == JV.index('Bool'), j.fields['Bool'][0] == vfield(v, 'Bool')) if 'Bool' in j.fields else BoolVal(False))
        elif vc == 'Str': alts.append(And(cond, j.disc == JV.index('String'), unbox(j.fields['String'][0]).tok == unbox(vfield(v, 'Str')).tok) if 'String' in j.fields else BoolVal(False))
        elif vc in ('Int', 'Timestamp'): alts.append(And(cond, int_is(jnum(), vfield(v, vc), True)))
        elif vc == 'Duration': alts.append(And(cond, int_is(jnum(), vfield(v, vc), False)))
        elif vc == 'Float':
            f = vfield(v, 'Float'); n = jnum()
            fin = And(Not(z3.fpIsNaN(f)), Not(z3.fpIsInf(f)))
            ok_fin = And(fin, j.disc == JV.index('Number'), n.kind == FLT, fpToIEEEBV(n.f) == fpToIEEEBV(f)) if n is not None else BoolVal(False)
            # NaN and the infinities are not JSON-representable: null is the documented stand-in (outside the claim, accepted)
            alts.append(And(cond, Or(ok_fin, And(Not(fin), j.disc == JV.index('Null')))))
        elif vc == 'Array':
            a = unbox(vfield(v, 'Array'))
            if 'Array' not in j.fields: alts.append(BoolVal(False)); continue
            b = unbox(j.fields['Array'][0])
            if not isinstance(b, ListModel) or len(a.items) != len(b.items): alts.append(BoolVal(False)); continue
            alts.append(And(cond, j.disc == JV.index('Array'), *[out_spec(x, y) for x, y in zip(a.items, b.items)]))
        elif vc == 'Map':
            a = unbox(vfield(v, 'Map'))
            if 'Object' not in j.fields: alts.append(BoolVal(False)); continue
            b = unbox(j.fields['Object'][0])
            if not isinstance(b, ListModel) or len(a.items) != len(b.items): alts.append(BoolVal(False)); continue
            alts.append(And(cond, j.disc == JV.index('Object'), *[And(unbox(x[0]).tok == unbox(y[0]).tok, out_spec(x[1], y[1])) for x, y in zip(a.items, b.items)]))
    return Or(*alts) if alts else BoolVal(False)


# ---------------------------------------------------------------- shapes
def jshape(kind, n, tier, tag='j'):
    """(JSON value, constraint, description)"""
    if kind == 'scalar':
        j, c = sym_jscalar(tag); return j, c
    elems, cs = [], []
    for i in range(n):
        if tier == 'thorough' and kind.endswith('+nest') and i == 0:
            e, c = jshape(kind.split('+')[0], 1, 'quick', '%s_%d' % (tag, i))
        else:
            e, c = sym_jscalar('%s_%d' % (tag, i))
        elems.append(e); cs.append(c)
    if kind.startswith('array'):
        return jval('Array', ListModel(elems)), And(*cs) if cs else BoolVal(True)
    keys = [V.StrTok(BitVec('%s_k%d' % (tag, i), 16)) for i in range(n)]
    dist = [keys[a].tok != keys[b].tok for a in range(n) for b in range(a + 1, n)]
    return jval('Object', ListModel([[k, e] for k, e in zip(keys, elems)], kind='Map')), And(*(cs + dist)) if (cs or dist) else BoolVal(True)


VSCALARS = ['Null', 'Bool', 'Int', 'Float', 'Str', 'Timestamp', 'Duration']


def vshape(kind, n, tier, tag='v'):
    vs = V.variants()['Value']
    if kind == 'scalar': return sym_vscalar(tag, VSCALARS)
    elems, cs = [], []
    for i in range(n):
        if tier == 'thorough' and kind.endswith('+nest') and i == 0:
            e, c = vshape(kind.split('+')[0], 1, 'quick', '%s_%d' % (tag, i))
        else:
            e, c = sym_vscalar('%s_%d' % (tag, i), VSCALARS)
        elems.append(e); cs.append(c)
    if kind.startswith('array'):
        return Enum('Value', BitVecVal(vs.index('Array'), 64), {'Array': [box(ListModel(elems))]}), And(*cs) if cs else BoolVal(True)
    keys = [V.StrTok(BitVec('%s_k%d' % (tag, i), 16)) for i in range(n)]
    dist = [keys[a].tok != keys[b].tok for a in range(n) for b in range(a + 1, n)]
    return Enum('Value', BitVecVal(vs.index('Map'), 64), {'Map': [box(ListModel([[k, e] for k, e in zip(keys, elems)], kind='Map'))]}), And(*(cs + dist)) if (cs or dist) else BoolVal(True)


IN_FUNCS = [('json_to_runtime_value', lambda j: [box(j)]), ('json_to_value_bounded', lambda j: [box(j), BitVecVal(8, 64)])]
OUT_FUNCS = [('value_to_json', lambda v: [box(v)]), ('json_from_value', lambda v: [box(v)])]


def solve(pc, neg, stats, timeout=60000):
    s = z3.Solver(); s.set('timeout', timeout); s.add(*pc); s.add(neg)
    t = time.time(); rc = s.check(); dt = time.time() - t
    stats['queries'] += 1; stats['solver_s'] += dt
    return rc, (s.model() if rc == z3.sat else None), dt


def job(spec):
    direction, fname, kind, n, tier = spec
    t0 = time.time()
    stats = {'queries': 0, 'solver_s': 0.0}
    ex = mk_exec()
    verdicts = []; inc = []
    st0 = State()
    if direction == 'in':
        src, c = jshape(kind, n, tier)
        args = dict(IN_FUNCS)[fname](src)
    else:
        src, c = vshape(kind, n, tier)
        args = dict(OUT_FUNCS)[fname](src)
    st0.path.assume(c)
    res = ex.run(ex.find_func(fname), args, st=st0)
    inc += ex.inconclusive
    stats['queries'] += ex.queries; stats['solver_s'] += ex.solver_s
    for r in res:
        if r.status != 'return':
            rc, m, dt = solve(r.path.pc, BoolVal(True), stats)
            verdicts.append({'name': '%s returns (no panic) [%s]' % (fname, r.status), 'status': 'proved' if rc == z3.unsat else 'violated', 'secs': dt, 'kind': 'panic', 'witness': None}); continue
        spec_c = in_spec(src, r.ret) if direction == 'in' else out_spec(src, r.ret)
        # inputs are split by cause so that the one known loss (unsigned integers above i64::MAX) cannot mask anything else
        classes = [('i64-or-float', Not(has_big(src))), ('integer-above-i64-max', has_big(src))] if direction == 'in' else [('any', BoolVal(True))]
        first_ok = False
        for ci, (cname, cc) in enumerate(classes):
            rc, m, dt = solve(r.path.pc + [cc], Not(spec_c), stats)
            d = {'name': '%s: the result has the type and exactly the content of its argument [%s]' % (fname, cname), 'cause': cname, 'status': 'proved' if rc == z3.unsat else ('violated' if rc == z3.sat else 'unknown'), 'secs': dt, 'kind': 'post'}
            if m is not None: d['witness'] = witness(m, src, direction)
            verdicts.append(d)
            if ci == 0: first_ok = rc == z3.unsat
        # round trip through the opposite converter (REST pair: json_to_runtime_value / value_to_json)
        if first_ok and fname in ('json_to_runtime_value', 'value_to_json'):
            back = 'value_to_json' if direction == 'in' else 'json_to_runtime_value'
            ex2 = mk_exec(); s2 = State(); s2.path.pc = list(r.path.pc) + [classes[0][1]]
            res2 = ex2.run(ex2.find_func(back), [box(r.ret)], st=s2)
            inc += ex2.inconclusive; stats['queries'] += ex2.queries; stats['solver_s'] += ex2.solver_s
            for r2 in res2:
                if r2.status != 'return': continue
                same = jeq(src, r2.ret) if direction == 'in' else veq(src, r2.ret)
                if direction == 'out':
                    same = Or(same, Not(json_native(src)))
                rc2, m2, dt2 = solve(r2.path.pc, Not(same), stats)
                d2 = {'name': 'round trip %s -> %s gives the value back' % (fname, back), 'status': 'proved' if rc2 == z3.unsat else ('violated' if rc2 == z3.sat else 'unknown'), 'secs': dt2, 'kind': 'post'}
                if m2 is not None: d2['witness'] = witness(m2, src, direction)
                verdicts.append(d2)
    return {'spec': list(spec), 'verdicts': verdicts, 'paths': len(res), 'queries': stats['queries'], 'solver_s': stats['solver_s'], 'inconclusive': inc, 'wall_s': time.time() - t0}


def jeq(a, b):
    a, b = unbox(a), unbox(b)
    alts = []
    for c in a.fields:
        if c not in b.fields: continue
        cond = And(a.disc == JV.index(c), b.disc == JV.index(c))
        if c == 'Null': alts.append(cond)
        elif c == 'Bool': alts.append(And(cond, a.fields[c][0] == b.fields[c][0]))
        elif c == 'String': alts.append(And(cond, unbox(a.fields[c][0]).tok == unbox(b.fields[c][0]).tok))
        elif c == 'Number':
            x, y = a.fields[c][0], b.fields[c][0]
            alts.append(And(cond, x.kind == y.kind, If(x.kind == FLT, fpToIEEEBV(x.f) == fpToIEEEBV(y.f), x.n == y.n)))
        else:
            x, y = unbox(a.fields[c][0]), unbox(b.fields[c][0])
            if len(x.items) != len(y.items): continue
            if c == 'Array': alts.append(And(cond, *[jeq(p, q) for p, q in zip(x.items, y.items)]))
            else: alts.append(And(cond, *[And(unbox(p[0]).tok == unbox(q[0]).tok, jeq(p[1], q[1])) for p, q in zip(x.items, y.items)]))
    return Or(*alts) if alts else BoolVal(False)


def veq(a, b):
    a, b = unbox(a), unbox(b)
    alts = []
    for c in a.fields:
        if c not in b.fields: continue
        cond = And(a.disc == vd(c), b.disc == vd(c))
        if c == 'Null': alts.append(cond)
        elif c in ('Bool', 'Int', 'Timestamp', 'Duration'): alts.append(And(cond, a.fields[c][0] == b.fields[c][0]))
        elif c == 'Float': alts.append(And(cond, fpToIEEEBV(a.fields[c][0]) == fpToIEEEBV(b.fields[c][0])))
        elif c == 'Str': alts.append(And(cond, unbox(a.fields[c][0]).tok == unbox(b.fields[c][0]).tok))
        else:
            x, y = unbox(a.fields[c][0]), unbox(b.fields[c][0])
            if len(x.items) != len(y.items): continue
            if c == 'Array': alts.append(And(cond, *[veq(p, q) for p, q in zip(x.items, y.items)]))
            else: alts.append(And(cond, *[And(unbox(p[0]).tok == unbox(q[0]).tok, veq(p[1], q[1])) for p, q in zip(x.items, y.items)]))
    return Or(*alts) if alts else BoolVal(False)


def json_native(v):
    """the runtime value (and its elements) is of a type JSON has: not Timestamp/Duration, floats finite"""
    v = unbox(v)
    cs = []
    for c in v.fields:
        if c in ('Timestamp', 'Duration'): cs.append(v.disc != vd(c))
        elif c == 'Float':
            f = v.fields[c][0]; cs.append(Implies(v.disc == vd(c), And(Not(z3.fpIsNaN(f)), Not(z3.fpIsInf(f)))))
        elif c == 'Array': cs += [json_native(x) for x in unbox(v.fields[c][0]).items]
        elif c == 'Map': cs += [json_native(x[1]) for x in unbox(v.fields[c][0]).items]
    return And(*cs) if cs else BoolVal(True)


def witness(m, src, direction):
    """concrete JSON text (in) or a description of the runtime value (out) from the model"""
    def ev(x): return m.eval(x, True)
    def jtxt(j):
        j = unbox(j); d = ev(j.disc).as_long(); c = JV[d] if d < len(JV) else '?'
        if c == 'Null': return 'null'
        if c == 'Bool': return 'true' if z3.is_true(ev(j.fields[c][0])) else 'false'
        if c == 'String': return '"s%d"' % ev(unbox(j.fields[c][0]).tok).as_long()
        if c == 'Number':
            n = j.fields[c][0]; k = ev(n.kind).as_long()
            if k == POS: return str(ev(n.n).as_long())
            if k == NEG: return str(ev(n.n).as_signed_long())
            import struct
            return repr(struct.unpack('<d', struct.pack('<Q', ev(fpToIEEEBV(n.f)).as_long()))[0])
        if c == 'Array': return '[' + ','.join(jtxt(x) for x in unbox(j.fields[c][0]).items) + ']'
        if c == 'Object': return '{' + ','.join('"k%d":%s' % (ev(unbox(x[0]).tok).as_long(), jtxt(x[1])) for x in unbox(j.fields[c][0]).items) + '}'
        return '?'
    def vtxt(v):
        v = unbox(v); vs = V.variants()['Value']; d = ev(v.disc).as_long(); c = vs[d] if d < len(vs) else '?'
        if c == 'Null': return 'Null'
        if c == 'Bool': return 'Bool:%s' % ('true' if z3.is_true(ev(v.fields[c][0])) else 'false')
        if c in ('Int', 'Timestamp'): return '%s:%d' % (c, ev(v.fields[c][0]).as_signed_long())
        if c == 'Duration': return 'Duration:%d' % ev(v.fields[c][0]).as_long()
        if c == 'Float':
            f = v.fields[c][0]
            bits = 0x7ff8000000000000 if z3.is_true(ev(z3.fpIsNaN(f))) else ev(fpToIEEEBV(f)).as_long()
            return 'Float:%d' % bits
        if c == 'Str': return 'Str:s%d' % ev(unbox(v.fields[c][0]).tok).as_long()
        if c == 'Array': return 'Array[' + ','.join(vtxt(x) for x in unbox(v.fields[c][0]).items) + ']'
        if c == 'Map': return 'Map{' + ','.join('k%d=%s' % (ev(unbox(x[0]).tok).as_long(), vtxt(x[1])) for x in unbox(v.fields[c][0]).items) + '}'
        return '?'
    return {'json': jtxt(src)} if direction == 'in' else {'value': vtxt(src)}


def _worker(spec):
    try:
        return job(spec)
    except Exception as e:
        import traceback; traceback.print_exc()
        return {'spec': list(spec), 'error': '%s: %s' % (type(e).__name__, e), 'verdicts': [], 'paths': 0, 'queries': 0, 'solver_s': 0, 'inconclusive': []}


def classify(spec, v):
    """finding key: converter, obligation and input class (by cause, decided in the query, not read off the witness)"""
    return '%s:%s:%s' % (spec[1], 'round-trip' if v['name'].startswith('round trip') else 'content', v.get('cause', 'i64-or-float'))


def has_big(j):
    """the JSON value contains an unsigned integer above i64::MAX somewhere"""
    j = unbox(j); alts = []
    for c in j.fields:
        if c == 'Number':
            n = j.fields[c][0]; alts.append(And(j.disc == JV.index(c), n.kind == POS, UGT(n.n, BitVecVal(I64MAX, 64))))
        elif c == 'Array': alts += [has_big(x) for x in unbox(j.fields[c][0]).items]
        elif c == 'Object': alts += [has_big(x[1]) for x in unbox(j.fields[c][0]).items]
    return Or(*alts) if alts else BoolVal(False)


def run(ctx):
    from concurrent.futures import ProcessPoolExecutor
    import multiprocessing as mp
    from vlib import replay
    from vlib.driver import Finding
    load(ctx)
    tier = ctx.tier
    ctx.engines.append('M (MIR symbolic execution -> Z3)')
    nmax = 3 if tier == 'thorough' else 2
    shapes = [('scalar', 0)] + [(k, n) for k in ('array', 'object') for n in range(0, nmax + 1)]
    if tier == 'thorough': shapes += [('array+nest', 2), ('object+nest', 2)]
    ctx.bounds = {'values': 'every scalar class with symbolic payload (JSON numbers as PosInt(u64) / NegInt(i64) / Float(f64), all 64-bit payloads; strings as identity tokens); arrays and objects of 0..%d symbolic scalars%s' % (nmax, ', one nesting level' if tier == 'thorough' else ''),
                  'converters': [f for f, _ in IN_FUNCS + OUT_FUNCS],
                  'outside': 'JSON text parsing/printing (serde_json from_slice / to_string), warp body handling and the tenant/pipeline plumbing between the converters (exercised only by the native replay), nesting deeper than the bound, duplicate object keys, websocket depth limit (depth 8 >= nesting bound)'}
    ctx.assumptions += ['serde_json::Number is PosInt(u64) | NegInt(i64 < 0) | Float(finite f64) with as_i64/as_f64/to_value as in serde_json 1.0 (models)', 'object keys distinct', 'NaN/inf -> null on output is accepted (not JSON-representable)']
    tasks = [('in', f, k, n, tier) for f, _ in IN_FUNCS for k, n in shapes] + [('out', f, k, n, tier) for f, _ in OUT_FUNCS for k, n in shapes]
    with ProcessPoolExecutor(max_workers=14, mp_context=mp.get_context('fork')) as pool:
        res = list(pool.map(_worker, tasks))
    binp = None; seen = set()
    for r in res:
        sp = r['spec']; tgt = sp[1]; cls = '%s %s n=%d' % (sp[0], sp[2], sp[3])
        if r.get('error'):
            ctx.inconclusive.append('%s (%s): %s' % (tgt, cls, r['error'])); continue
        for why in sorted(set(r['inconclusive'])): ctx.inconclusive.append('%s (%s): %s' % (tgt, cls, why))
        ctx.queries += r['queries']; ctx.solver_s += r['solver_s']
        ctx.add_obligations(tgt, r['verdicts'], cls=cls)
        ctx.samples.append({'class': tgt + ' ' + cls, 'paths': r['paths']})
        for v in r['verdicts']:
            if v['status'] != 'violated': continue
            key = classify(sp, v)
            if key in seen: continue
            seen.add(key)
            w = v.get('witness') or {}
            if binp is None: binp = replay.build('api', rustflags='--cfg varpulis_verif')     # hooks expose the two private converters
            a = [binp, 'json', sp[1], w.get('json') or w.get('value') or '?']
            ctx.findings.append(Finding(key, '%s %s: %s (witness %s)' % (tgt, cls, v['name'], w), a, w))
    ctx.models += sorted(models.USED)
