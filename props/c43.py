"""C43 — language-server requests never crash and report ranges inside the document (engine M, character-sequence strings).

The text-handling functions of varpulis-lsp are executed symbolically from their MIR on documents whose characters are symbols ranging over
an alphabet of class representatives (ASCII letter/digit/punctuation classes, 2-, 3- and 4-byte characters, non-ASCII letters, digits and
whitespace) with the newline structure enumerated:
  semantic::get_semantic_tokens (+ match_token)          no panic; every token lies inside its line
  completion::get_completion_context                      no panic for every cursor position
  hover::get_word_at_position, navigation::word_at_position   no panic
  diagnostics::position_to_line_col, navigation::byte_offset_to_position   no panic; the (line, column) exists in the document
  diagnostics::get_error_end_column                       no panic for every (line, column) the parser can report
Panics are the MIR asserts (overflow, bounds) plus the standard library's own checks modelled in vlib/strmodel.py (byte index on a char boundary).
Counterexamples are concrete documents + positions, replayed through the public request functions (replay-lsp).
"""
import itertools
import json
import subprocess
import time

import z3
from z3 import BitVec, BitVecVal, And, Or, Not, If, BoolVal, ULE, ULT, UGE

from vlib import mirdump, symex, models, containers, strmodel
from vlib.symex import Ptr, Opaque, box, State, Enum, Exec, Unsupported, discharge
from vlib.containers import ListModel
from vlib.strmodel import CStr, sref, blen, prefix, width

_MOD = None
_CHARS = None
ALPHABET = [0x61, 0x5a, 0x30, 0x5f, 0x20, 0x23, 0x22, 0x2e, 0x40, 0x28, 0xe9, 0xc9, 0x20ac, 0x1f600, 0x663, 0x2003]
EXTRA = [0xe9, 0xc9, 0x20ac, 0x1f600, 0x663, 0x2003]


def load(ctx=None):
    global _MOD, _CHARS
    m, info = mirdump.load('lsp', closures=True)
    _MOD = m
    if ctx is not None:
        ctx.functions.append({'crate': info['crate'], 'source_hash': info['source_hash'], 'mir_functions': info['functions'], 'dump_s': info['dump_s']})
    from vlib import replay
    b = replay.build('lsp', rustflags='--cfg varpulis_verif')      # hooks expose the private helpers to the replay
    out = subprocess.run([b, 'chartable'] + ['%x' % c for c in EXTRA], stdout=subprocess.PIPE, check=True).stdout
    _CHARS = strmodel.Chars(json.loads(out))
    return b


class Rec(dict):
    """a struct of another crate kept by field name (SymbolInformation / Location / Range / Position)"""
    def __init__(self, ty, fields): super().__init__(fields); self.ty = ty


class LspExec(Exec):
    def struct_hook(self, ty, names, vals):
        if ty == 'Range' and not (vals and isinstance(vals[0], Rec)): return None       # std::ops::Range, not lsp_types::Range
        if ty in ('SymbolInformation', 'Location', 'Range', 'Position'): return Rec(ty, dict(zip(names, vals)))
        return None


def mk_exec():
    import re
    url = [(r'^(?:tower_lsp::lsp_types::)?Url::parse$', lambda ex, st, callee, args: Enum('Result', BitVecVal(0, 64), {'Ok': [Opaque('url')], 'Err': [Opaque('err')]})),
           (r'^Result::<(?:tower_lsp::lsp_types::)?Url, url::parser::ParseError>::unwrap$', lambda ex, st, callee, args: args[0].fields['Ok'][0]),
           (r'^<(?:tower_lsp::lsp_types::)?Url as Clone>::clone$', lambda ex, st, callee, args: Opaque('url'))]
    hk = [(re.compile(p), f) for p, f in url + strmodel.hooks(_CHARS)] + containers.container_hooks() + models.generic_hooks()
    return LspExec([_MOD], hk, variants={}, loop_bound=80, step_budget=400000)


def sym_doc(shape, tag='c'):
    """shape: tuple of items, each 'S' (symbolic character), 'N' (newline) or an int code point; returns (chars, constraint)"""
    cs, cons = [], []
    for i, it in enumerate(shape):
        if it == 'S':
            c = BitVec('%s%d' % (tag, i), 32)
            cons.append(Or(*[c == a for a in ALPHABET]))
            cs.append(c)
        elif it == 'N': cs.append(BitVecVal(10, 32))
        else: cs.append(BitVecVal(it, 32))
    return cs, (And(*cons) if cons else BoolVal(True))


def doc_text(m, cs):
    out = ''
    for c in cs:
        v = m.eval(c, True).as_long()
        out += '\\n' if v == 10 else ('\\\\' if v == 92 else (chr(v) if 32 <= v < 127 else '\\u{%x}' % v))
    return out


def lines_of(cs):
    lines, cur = [], []
    for c in cs:
        s = z3.simplify(c)
        if z3.is_bv_value(s) and s.as_long() == 10: lines.append(cur); cur = []
        else: cur.append(c)
    lines.append(cur)
    return lines          # split('\n') view: the line after a trailing newline exists (empty)


def shape_name(shape): return ''.join(x if isinstance(x, str) else chr(x) for x in shape).replace('\n', 'N')


# ---------------------------------------------------------------- jobs
def run_target(fname, args, pre, post, cs, extra_witness=None, timeout_ms=20000):
    ex = mk_exec()
    st0 = State(); st0.path.assume(pre)
    t0 = time.time()
    res = ex.run(ex.find_func(fname), args, st=st0)
    verdicts = discharge(ex, res, post, timeout_ms=timeout_ms)
    out = []
    for v in verdicts:
        d = {'name': v.name, 'status': v.status, 'secs': v.secs, 'kind': v.kind}
        m = v.model
        if m is not None:
            d['witness'] = {'text': doc_text(m, cs)}
            if extra_witness: d['witness'].update(extra_witness(m))
        out.append(d)
    return {'verdicts': out, 'paths': len(res), 'queries': ex.queries, 'solver_s': ex.solver_s, 'inconclusive': list(ex.inconclusive), 'wall_s': time.time() - t0}


def job(spec):
    kind, shape = spec[0], spec[1]
    cs, pre = sym_doc(shape)
    doc = sref(cs)
    L = lines_of(cs)
    if kind in ('position_to_line_col', 'byte_offset_to_position'):
        pos = BitVec('pos', 64)
        def post(r):
            ln, col = r.ret[0], r.ret[1]
            ok = Or(*[And(ln == i, ULE(col, len(l))) for i, l in enumerate(L)])
            return [('the reported (line, column) exists in the document', ok)]
        return run_target(kind, [doc, pos], And(pre, ULE(pos, blen(cs))), post, cs, lambda m: {'pos': m.eval(pos, True).as_long()})
    if kind == 'get_error_end_column':
        line = spec[2]
        col = BitVec('col', 64)
        nchars = len(L[line]) if line < len(L) else 0
        return run_target(kind, [doc, BitVecVal(line, 64), col], And(pre, ULE(col, nchars)), None, cs, lambda m: {'line': line, 'col': m.eval(col, True).as_long()})
    if kind in ('get_completion_context', 'get_word_at_position', 'word_at_position'):
        line = spec[2]
        ch = BitVec('character', 32)
        position = [BitVecVal(line, 32), ch]
        return run_target(kind, [doc, position], pre, None, cs, lambda m: {'line': line, 'character': m.eval(ch, True).as_long()})
    if kind == 'get_semantic_tokens':
        def post(r):
            toks = r.ret
            while isinstance(toks, Ptr): toks = toks.get()
            conds = []
            line = BitVecVal(0, 32); start = BitVecVal(0, 32)
            for t in toks.items:
                dl, ds, ln = t[0], t[1], t[2]
                start = If(dl == 0, start + ds, ds); line = line + dl
                conds.append(Or(*[And(line == i, ULE(z3.ZeroExt(32, start) + z3.ZeroExt(32, ln), len(l))) for i, l in enumerate(L)]))
            return [('every semantic token lies inside its line', And(*conds) if conds else BoolVal(True))]
        return run_target(kind, [doc], pre, post, cs)
    if kind == 'get_document_symbols':
        def post(r):
            syms = r.ret
            while isinstance(syms, Ptr): syms = syms.get()
            conds = []
            for s_ in syms.items:
                rg = s_['location']['range']; a_, b_ = rg['start'], rg['end']
                conds.append(And(a_['line'] == b_['line'], ULE(a_['character'], b_['character']),
                                 Or(*[And(a_['line'] == i, ULE(z3.ZeroExt(32, b_['character']), blen(l))) for i, l in enumerate(L)])))
            return [('every symbol range lies inside its line', And(*conds) if conds else BoolVal(True))]
        return run_target(kind, [doc], pre, post, cs)
    raise ValueError(kind)


def _worker(spec):
    try:
        r = job(spec)
    except Exception as e:
        import traceback; traceback.print_exc()
        r = {'error': '%s: %s' % (type(e).__name__, e), 'verdicts': [], 'paths': 0, 'queries': 0, 'solver_s': 0, 'inconclusive': []}
    r['spec'] = [spec[0], shape_name(spec[1])] + list(spec[2:])
    return r


def shapes(nsym, prefixes):
    out = []
    for n in range(0, nsym + 1):
        for mask in itertools.product('SN', repeat=n):
            out.append(tuple(mask))
    for p in prefixes:
        for tail in (('S',), ('S', 'S'), ('N', 'S')):
            out.append(tuple(ord(c) for c in p) + tail)
    # dedupe, keep order
    seen = set(); res = []
    for s in out:
        if s not in seen: seen.add(s); res.append(s)
    return res


REQUEST = {'get_semantic_tokens': 'tokens', 'get_completion_context': 'completion', 'get_word_at_position': 'hover', 'word_at_position': 'definition',
           'position_to_line_col': None, 'byte_offset_to_position': None, 'get_error_end_column': None, 'get_document_symbols': 'symbols'}


def run(ctx):
    from concurrent.futures import ProcessPoolExecutor
    import multiprocessing as mp
    from vlib.driver import Finding
    binp = load(ctx)
    tier = ctx.tier
    ctx.engines.append('M (MIR symbolic execution -> Z3)')
    nsym = 4 if tier == 'thorough' else 3
    prefixes = ['if', '"', '1', '@', 'a.', '.from(', '.to(', 'stream ', 'event ', 'sum', '1.5', "'"]
    sh = shapes(nsym, prefixes)
    ctx.bounds = {'documents': 'every document of 0..%d characters, each a newline or a symbol over the alphabet %s, plus the concrete prefixes %s followed by 1-2 such characters' % (nsym, ['U+%04X' % a for a in ALPHABET], prefixes),
                  'positions': 'every line index 0..lines+1 with a fully symbolic u32 character; every byte position <= len',
                  'outside': 'the pest parser and everything behind it (get_diagnostics parse errors, symbol table, definition/reference lookup), get_completions item construction, carriage returns, documents longer than the bound, characters outside the alphabet classes'}
    ctx.assumptions += ['character predicates are tables read from the real std (replay-lsp chartable): exact for ASCII and the alphabet', 'symbolic characters are never line terminators: the newline structure is enumerated']
    tasks = []
    for s in sh:
        nl = sum(1 for x in s if x == 'N') + 1
        tasks.append(('get_semantic_tokens', s)); tasks.append(('get_document_symbols', s))
        tasks.append(('position_to_line_col', s)); tasks.append(('byte_offset_to_position', s))
        for line in range(nl + 1):
            tasks.append(('get_completion_context', s, line)); tasks.append(('get_word_at_position', s, line)); tasks.append(('word_at_position', s, line))
        for line in range(nl):
            tasks.append(('get_error_end_column', s, line))
    with ProcessPoolExecutor(max_workers=14, mp_context=mp.get_context('fork')) as pool:
        res = list(pool.map(_worker, tasks, chunksize=4))
    seen = set()
    for r in res:
        tgt = r['spec'][0]; cls = 'doc %s%s' % (r['spec'][1] or '<empty>', (' line %s' % r['spec'][2]) if len(r['spec']) > 2 else '')
        if r.get('error'):
            ctx.inconclusive.append('%s (%s): %s' % (tgt, cls, r['error'])); continue
        for why in sorted(set(r['inconclusive'])): ctx.inconclusive.append('%s (%s): %s' % (tgt, cls, why))
        ctx.queries += r['queries']; ctx.solver_s += r['solver_s']
        ctx.add_obligations(tgt, r['verdicts'], cls=cls)
        ctx.samples.append({'class': tgt + ' ' + cls, 'paths': r['paths']})
        for v in r['verdicts']:
            if v['status'] != 'violated': continue
            key = '%s:%s' % (tgt, v['name'])
            if key in seen: continue
            seen.add(key)
            w = v.get('witness') or {}
            req = 'tokens' if tgt == 'get_semantic_tokens' else ('symbols' if tgt == 'get_document_symbols' else tgt)
            a = [binp, req, str(w.get('line', 0)), str(w.get('character', w.get('col', w.get('pos', 0)))), w.get('text', '')]
            ctx.findings.append(Finding(key, '%s %s: %s (witness %s)' % (tgt, cls, v['name'], w), a, w))
    ctx.models += sorted(models.USED)
