"""C06 — ZDD operations implement set-family algebra exactly (engine M, one inductive step per operation)."""
import time

import z3
from z3 import BitVec, BitVecVal, And, Or, Not, If, ULT, ULE, UGE

from vlib import mirdump, symex
from vlib.symex import Ptr, Opaque, box, discharge, State
from props.zddmodel import Universe, ZRef, NodeId, Cache, ZddExec, struct_fields

ID = 'C06'


def _arena_obj(mod):
    src = open(mod.src_dir + '/src/arena.rs').read()
    fields = struct_fields(src, 'ZddArena') or ['table', 'union_cache', 'intersection_cache', 'difference_cache', 'count_cache']
    kinds = {'union_cache': 'union', 'intersection_cache': 'intersection', 'difference_cache': 'difference', 'count_cache': 'count'}
    return [Cache(kinds[f]) if f in kinds else Opaque(f) for f in fields], fields


def jobs(U):
    A, B = BitVec('A', U.W), BitVec('B', U.W)
    V = BitVec('V', 32)
    un = lambda a, b=None: a | b
    it = lambda a, b=None: a & b
    df = lambda a, b=None: a & ~b
    pr = lambda a, b=None: a | U.addvar(a, V)
    cn = lambda a, b=None: U.card(a)
    idn = lambda a, b=None: a
    jn = lambda a, b=None: U.join(a, b)
    J = []
    # (title, function, kind, spec, caches available)
    J.append(('arena union', 'ZddArena::union_refs', 'arena2', un))
    J.append(('arena intersection', 'ZddArena::intersection_refs', 'arena2', it))
    J.append(('arena difference', 'ZddArena::difference_refs', 'arena2', df))
    J.append(('arena product_with_optional', 'ZddArena::product_with_optional_rec', 'arena_prod', pr))
    J.append(('arena count (cached)', 'ZddArena::count_ref', 'arena_count', cn))
    J.append(('arena count (uncached)', 'ZddArena::count_ref_uncached', 'arena_count_u', cn))
    J.append(('standalone union', 'union_rec', 'free2', un))
    J.append(('standalone union helper', 'union_refs_rec', 'free2', un))
    J.append(('standalone intersection', 'intersection_rec', 'free2', it))
    J.append(('standalone difference', 'difference_rec', 'free2', df))
    J.append(('standalone product_with_optional', 'product_with_optional_rec', 'free_prod', pr))
    J.append(('standalone product', 'product_rec', 'free_join', jn))
    J.append(('standalone remap', 'remap_ref', 'free_remap', idn))
    J.append(('standalone count', 'Zdd::count_rec', 'zdd_count', cn))
    J.append(('arena gc remap', 'ZddArena::remap_to_new_table', 'arena_remap', idn))
    return J, (A, B, V)


GC_LIVE = [0, 1, 2]


def run_job(mod, U, job, syms, overflow_checks=True):
    title, fname, kind, spec = job
    A, B, V = syms
    specs = {'union': lambda a, b: a | b, 'intersection': lambda a, b: a & b, 'difference': lambda a, b: a & ~b,
             'count': lambda a: U.card(a), 'local': spec if kind not in ('arena2',) else None,
             'local1': (lambda a: spec(a)), 'remap': lambda a: a}
    ex = ZddExec(mod, U, specs, overflow_checks=overflow_checks, loop_bound=4)
    arena, fields = _arena_obj(mod)
    ar = box(arena)
    table = box(Opaque('table'))
    zdd = box([ZRef(U.bv(0)), Opaque('zdd-table')])
    meas0 = U.depth(A) + U.depth(B) if kind in ('arena2', 'free2', 'free_join') else U.depth(A)

    def Fof(x):
        x = ex.deref(x)
        return x.F if isinstance(x, (ZRef, NodeId)) else x

    def contract(spec2, argsel, same_var_idx=None, ret_count=False, measure=True):
        def c(ex_, st, callee, args):
            fs = [Fof(args[i]) for i in argsel]
            if measure:
                m = U.depth(fs[0]) + (U.depth(fs[1]) if len(fs) > 1 else BitVecVal(0, 32))
                st.path.oblige('recursion measure strictly decreases', ULT(m, meas0), callee, 'measure')
            if same_var_idx is not None:
                st.path.oblige('recursive call keeps the same variable (cache invariant is relative to it)', args[same_var_idx] == V, callee, 'cache')
            r = spec2(*fs)
            return r if ret_count else ZRef(r)
        return c

    un = lambda a, b: a | b
    # contracts for callees that are not the function under test are *proved* by their own job
    if kind == 'arena2':
        ex.contracts[fname] = contract(spec, (1, 2))
        args = [ar, ZRef(A), ZRef(B)]; goal = spec(A, B)
    elif kind == 'arena_prod':
        ex.specs['local'] = lambda a: spec(a)
        ex.contracts[fname] = contract(lambda a: spec(a), (1,), same_var_idx=2)
        ex.contracts['ZddArena::union_refs'] = contract(un, (1, 2), measure=False)
        args = [ar, ZRef(A), V, box(Cache('local'))]; goal = spec(A)
    elif kind == 'arena_count':
        ex.contracts[fname] = contract(lambda a: U.card(a), (1,), ret_count=True)
        args = [ar, ZRef(A)]; goal = U.card(A)
    elif kind == 'arena_count_u':
        ex.specs['local'] = lambda a: U.card(a)
        ex.contracts[fname] = contract(lambda a: U.card(a), (1,), ret_count=True)
        args = [ar, ZRef(A), box(Cache('local', count=True))]; goal = U.card(A)
    elif kind == 'free2':
        ex.specs['local'] = lambda a, b: spec(a, b)
        ex.contracts[fname] = contract(spec, (0, 1))
        args = [ZRef(A), ZRef(B), table, box(Cache('local'))]; goal = spec(A, B)
    elif kind == 'free_join':
        ex.specs['local'] = lambda a, b: spec(a, b)
        ex.contracts[fname] = contract(spec, (0, 1))
        ex.contracts['union_refs'] = contract(un, (0, 1), measure=False)
        args = [ZRef(A), ZRef(B), table, zdd, box(Opaque('node_map')), box(Cache('local'))]; goal = spec(A, B)
    elif kind == 'free_prod':
        ex.specs['local'] = lambda a: spec(a)
        ex.contracts[fname] = contract(lambda a: spec(a), (0,), same_var_idx=1)
        ex.contracts['union_refs'] = contract(un, (0, 1), measure=False)
        args = [ZRef(A), V, table, zdd, box(Cache('local'))]; goal = spec(A)
    elif kind == 'free_remap':
        ex.specs['local'] = lambda a: a
        ex.contracts[fname] = contract(lambda a: a, (0,))
        args = [ZRef(A), zdd, table, box(Cache('local'))]; goal = A
    elif kind == 'arena_remap':
        ex.specs['local'] = lambda a: a
        ex.contracts[fname] = contract(lambda a: a, (1,))
        args = [ar, ZRef(A), table, box(Cache('local'))]; goal = A
    elif kind == 'zdd_count':
        ex.specs['local'] = lambda a: U.card(a)
        ex.contracts[fname] = contract(lambda a: U.card(a), (1,), ret_count=True)
        args = [zdd, ZRef(A), box(Cache('local', count=True))]; goal = U.card(A)
    else:
        raise ValueError(kind)
    st = State()
    if 'prod' in kind: st.path.assume(ULT(V, U.N))
    if 'count' in kind: st.path.assume(U.card_facts(A))      # facts about |F| discharged by the separate cardinality-lemma queries
    t0 = time.time()
    f = ex.find_func(fname)
    if f is None or isinstance(f, list):
        return {'title': title, 'function': fname, 'error': 'function not found in MIR dump'}, ex, []
    # the recursive call inside `f` must hit the contract, the outer call must not: run the body directly
    results = ex.run(f, args, st=st)

    def post(r):
        rv = r.ret
        got = rv.F if isinstance(rv, ZRef) else rv
        if not z3.is_expr(got): return [('result equals the set-algebra specification', z3.BoolVal(False))]
        return [('result equals the set-algebra specification', got == goal)]
    verdicts = discharge(ex, results, post)
    info = {'title': title, 'function': fname, 'paths': len(results), 'obligations': len(verdicts), 'feasibility_queries': ex.queries,
            'wall_s': round(time.time() - t0, 2), 'solver_s': round(ex.solver_s, 2), 'inconclusive': list(ex.inconclusive)}
    return info, ex, verdicts


class NewTable:
    """the table built by gc (UniqueTable::with_capacity)"""
    def __repr__(self): return 'NewTable'


def run_gc_job(mod, U, L):
    """ZddArena::gc on L live handles denoting arbitrary families: the returned handles denote the same families (in the new table),
    the arena's table is the new one, and ALL operation caches are emptied (their entries are keyed by ids of the old table)."""
    from vlib.containers import ListModel
    fams = [BitVec('H%d' % i, U.W) for i in range(L)]
    cleared = []

    def h_len(ex, st, callee, args):
        v = ex.fresh('len', 64); st.path.assume(z3.ULE(v, BitVecVal(1 << 40, 64))); return v

    def h_clear(ex, st, callee, args):
        c = ex.deref(args[0])
        if not isinstance(c, Cache): raise symex.Unsupported('clear on %r' % (c,))
        c.cleared = True
        return []

    def h_retain(ex, st, callee, args):
        # retain keeps whatever its closure accepts: the cache is NOT known to be empty afterwards (every surviving key is an id of the old table)
        c = ex.deref(args[0])
        if not isinstance(c, Cache): raise symex.Unsupported('retain on %r' % (c,))
        c.cleared = False
        return []

    def h_default_map(ex, st, callee, args): return Cache('remap')
    def h_default_set(ex, st, callee, args): return Opaque('marked-set')
    def h_with_cap(ex, st, callee, args): return NewTable()
    def h_mark(ex, st, callee, args): return []
    hooks = [(r'^UniqueTable::len$|^HashMap::<.*>::len$|^HashSet::<.*>::len$', h_len), (r'^HashMap::<.*>::clear$', h_clear), (r'^HashMap::<.*>::retain::<.*>$', h_retain),
             (r'^<HashMap<u32, ZddRef, FxBuildHasher> as Default>::default$', h_default_map), (r'^<HashSet<.*> as Default>::default$', h_default_set),
             (r'^UniqueTable::with_capacity$', h_with_cap), (r'^ZddArena::mark_reachable$', h_mark)]
    specs = {'union': lambda a, b: a | b, 'intersection': lambda a, b: a & b, 'difference': lambda a, b: a & ~b, 'count': lambda a: U.card(a), 'remap': lambda a: a}
    ex = ZddExec(mod, U, specs, extra_hooks=hooks, loop_bound=L + 3)

    def c_remap(ex_, st, callee, args):
        r = ex.deref(args[1])
        nt = ex.deref(args[2])
        st.path.oblige('gc remaps into the NEW table', z3.BoolVal(isinstance(nt, NewTable)), callee, 'gc')
        return ZRef(r.F)
    ex.contracts['ZddArena::remap_to_new_table'] = c_remap
    arena, fields = _arena_obj(mod)
    for c in arena:
        if isinstance(c, Cache): c.cleared = False
    handles = ListModel([[ZRef(f)] for f in fams])
    st = State(roots={'arena': arena})
    t0 = time.time()
    results = ex.run('ZddArena::gc', [box(arena), Ptr([handles], 0, meta=BitVecVal(L, 64))], st=st)

    def post(r):
        ar = r.st.roots['arena']
        out = []
        for f, c in zip(fields, ar):
            if isinstance(c, Cache):
                out.append(('gc empties %s (its keys are ids of the old table)' % f, z3.BoolVal(bool(getattr(c, 'cleared', False)))))
        out.append(('gc installs the new table', z3.BoolVal(isinstance(ar[fields.index('table')], NewTable) if 'table' in fields else False)))
        rv = r.ret
        ok = isinstance(rv, list) and len(rv) == 2 and isinstance(rv[1], ListModel) and len(rv[1].items) == L
        out.append(('gc returns one handle per live handle', z3.BoolVal(ok)))
        if ok:
            for i, hnd in enumerate(rv[1].items):
                root = hnd[0] if isinstance(hnd, list) else hnd
                out.append(('handle %d denotes the same family after gc' % i, root.F == fams[i] if isinstance(root, ZRef) else z3.BoolVal(False)))
        return out
    verdicts = discharge(ex, results, post)
    info = {'title': 'arena gc (%d live handles)' % L, 'function': 'ZddArena::gc', 'paths': len(results), 'obligations': len(verdicts), 'feasibility_queries': ex.queries,
            'wall_s': round(time.time() - t0, 2), 'solver_s': round(ex.solver_s, 2), 'inconclusive': list(ex.inconclusive)}
    return info, ex, verdicts


# ------------------------------------------------------------------------------------------------ driver entry
_MOD = None
_N = None


def _fam_str(U, x):
    f = U.fam(x)
    return '-' if not f else ''.join('{%s}' % ','.join(map(str, s)) for s in f)


def _worker(idx):
    U = Universe(_N)
    J, syms = jobs(U)
    A, B, V = syms
    if idx >= len(J):
        L = GC_LIVE[idx - len(J)]
        job = ('arena gc (%d live handles)' % L, 'ZddArena::gc')
    else:
        job = J[idx]
    try:
        if idx >= len(J): info, ex, vs = run_gc_job(_MOD, U, L)
        else: info, ex, vs = run_job(_MOD, U, job, syms)
    except Exception as e:      # any failure of the machinery is inconclusive, never a pass
        return {'title': job[0], 'function': job[1], 'error': '%s: %s' % (type(e).__name__, e), 'verdicts': [], 'paths': 0, 'queries': 0, 'solver_s': 0}
    out = []
    for v in vs:
        d = {'name': v.name, 'status': v.status, 'secs': v.secs, 'kind': v.kind, 'where': v.where}
        if v.model is not None:
            m = v.model
            d['A'] = _fam_str(U, m.eval(A, True).as_long()); d['B'] = _fam_str(U, m.eval(B, True).as_long()); d['V'] = m.eval(V, True).as_long()
        out.append(d)
    info['verdicts'] = out
    info['queries'] = ex.queries
    info['funcs'] = sorted(ex.visited_funcs)
    return info


API = {'arena union': ('arena', 'union'), 'arena intersection': ('arena', 'intersection'), 'arena difference': ('arena', 'difference'),
       'arena product_with_optional': ('arena', 'product_with_optional'), 'arena count (cached)': ('arena', 'union'),
       'arena count (uncached)': ('arena', 'union'), 'standalone union': ('zdd', 'union'), 'standalone union helper': ('zdd', 'product'),
       'standalone intersection': ('zdd', 'intersection'), 'standalone difference': ('zdd', 'difference'),
       'standalone product_with_optional': ('zdd', 'product_with_optional'), 'standalone product': ('zdd', 'product'),
       'standalone remap': ('zdd', 'union'), 'standalone count': ('zdd', 'union'), 'arena gc remap': ('arena', 'union')}


def run(ctx):
    global _MOD, _N
    from concurrent.futures import ProcessPoolExecutor
    import multiprocessing as mp
    from vlib import replay, models
    from vlib.driver import Finding
    _N = 5 if ctx.tier == 'quick' else 6       # the property's own bound is 5 variables; thorough goes one beyond (64-bit family vectors)
    _MOD, info = mirdump.load('zdd')
    ctx.engines.append('M (MIR symbolic execution -> Z3)')
    ctx.functions.append({'crate': info['crate'], 'source_hash': info['source_hash'], 'mir_functions': info['functions'], 'dump_s': info['dump_s']})
    ctx.bounds = {'universe_variables': _N, 'family_bitvector_width': 1 << _N, 'loop_bound': 4,
                  'outside': 'universes with more variables; usize overflow of count; SharedArena locking; debug rendering'}
    ctx.assumptions += ['representation invariant of the unique table (ordered, reduced, hash-consed) — discharged by C07 on a bounded concrete table',
                        'recursive calls satisfy their contract (induction on the strictly decreasing measure, itself an obligation)',
                        'persistent caches satisfy "stored value = specification of its key" on entry; every insert re-establishes it (obligation)',
                        'product_with_optional: variable < universe size']
    U = Universe(_N)
    J, _ = jobs(U)
    with ProcessPoolExecutor(max_workers=min(14, len(J)), mp_context=mp.get_context('fork')) as pool:
        res = list(pool.map(_worker, range(len(J) + len(GC_LIVE))))
    J = J + [('arena gc (%d live handles)' % L, 'ZddArena::gc', 'gc', None) for L in GC_LIVE]
    # cardinality lemma (|F| := popcount satisfies the facts the count obligations assume), split on the top variable
    t0 = time.time()
    lem = []
    for name, q in U.card_lemma_queries():
        s = z3.Solver(); s.set('timeout', 120000); s.add(q)
        t1 = time.time(); rc = s.check(); ctx.queries += 1
        lem.append({'name': name, 'status': 'proved' if rc == z3.unsat else ('unknown' if rc == z3.unknown else 'violated'), 'secs': time.time() - t1, 'kind': 'lemma'})
    ctx.solver_s += time.time() - t0
    ctx.add_obligations('cardinality lemma (model side, no repository code)', lem, cls='all families over %d variables' % _N)
    if any(l['status'] == 'violated' for l in lem):
        ctx.inconclusive.append('cardinality lemma of the model is violated: the model is wrong, not the repository')
    binp = None
    for job, r in zip(J, res):
        title = job[0]
        if r.get('error'):
            ctx.inconclusive.append('%s: %s' % (title, r['error'])); continue
        for why in r.get('inconclusive', []):
            ctx.inconclusive.append('%s: %s' % (title, why))
        ctx.queries += r['queries']; ctx.solver_s += r['solver_s']
        ctx.add_obligations(r['function'], r['verdicts'], cls='all families over %d variables' % _N)
        ctx.functions.append({'function': r['function'], 'paths': r['paths'], 'inlined': r.get('funcs', [])})
        ctx.samples.append({'target': r['function'], 'paths': r['paths'], 'obligations': [v['name'] for v in r['verdicts']][:6]})
        bad = [v for v in r['verdicts'] if v['status'] == 'violated']
        if bad:
            v = bad[-1]
            if binp is None: binp = replay.build('zdd')
            if 'gc' in title:
                # the step witness is structural (a cache survives / a handle changes): natively it is reproduced by operation
                # sequences with interleaved collections, compared against explicit sets of sets
                f = Finding('ZddArena::gc:%s' % v['name'][:50], '%s: %s' % (title, v['name']), [binp, 'gcseq', '5', '60', '40'],
                            {'obligations': [b['name'] for b in bad]})
            else:
                api, op = API[title]
                f = Finding('%s:%s' % (r['function'], 'step'),
                            '%s: %s violated for A=%s B=%s var=%s' % (r['function'], v['name'], v['A'], v['B'], v['V']),
                            [binp, api, op, v['A'], v['B'], str(v['V'])], {'A': v['A'], 'B': v['B'], 'var': v['V'], 'obligations': [b['name'] for b in bad]})
            ctx.findings.append(f)
    ctx.models += ['UniqueTable::get_node: decomposition of the denoted family at its smallest variable',
                   'UniqueTable::get_or_create: lo | addvar(hi, var), zero-suppression, ordering obligation',
                   'HashMap get/insert on the operation caches: cache-invariant model',
                   '<ZddRef as PartialOrd>::le: arbitrary total order with Empty < Base < Node(_)'] + sorted(models.USED)
