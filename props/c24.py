"""C24 — per-source watermarks never regress and the effective watermark is their minimum (engine M, one inductive step).

PerSourceWatermarkTracker::{observe_event, advance_source_watermark, register_source, recompute_effective} are executed from
their MIR from an ARBITRARY tracker state with 0..3 registered sources (every field symbolic; the FxHashMap<String, _> is a list of
entries with distinct key tokens, iterated in every order), with a symbolic source name (one of the registered ones or a new one)
and a symbolic event time / watermark.  chrono DateTime/TimeDelta are 64-bit nanosecond counts (ranges stated).
Obligations per step:
  mono     every source's watermark is still present and not smaller than before
  exact    the touched source: max_timestamp' = max(max_timestamp, ts) and watermark' = max(watermark, ts - max_out_of_orderness) iff
           the maximum moved (observe); watermark' = max(watermark, wm) (advance); an unknown source is auto-registered with zero
           out-of-orderness (observe) / ignored (advance)
  frame    the other sources are untouched
  minimum  effective' = min over the sources that have a watermark (unchanged when none has one)
The invariant "effective = min whenever some source has a watermark" is established by every step, so it holds along any history.
"""
import itertools
import re
import time

import z3
from z3 import BitVec, BitVecVal, And, Or, Not, If, BoolVal, Implies, Bool

from vlib import mirdump, models, containers
from vlib.symex import Ptr, Opaque, box, State, Enum, Exec, Unsupported, Fork, discharge
from vlib.containers import ListModel, Iter
from vlib.models import some, none, option
from props.zddmodel import struct_fields
from props import winmodel as W
from props import valmodel as V

_MOD = None
T_MAX, D_MAX = W.T_MAX, W.D_MAX


def load(ctx=None):
    global _MOD
    m, info = mirdump.load('runtime', closures=True)
    _MOD = m
    if ctx is not None:
        ctx.functions.append({'crate': info['crate'], 'source_hash': info['source_hash'], 'mir_functions': info['functions'], 'dump_s': info['dump_s']})


class MapM:
    """FxHashMap<String, SourceWatermark>: entries [key token, value struct], keys distinct"""
    def __init__(self, entries): self.entries = entries


def tok(ex, a):
    v = a
    while isinstance(v, Ptr): v = v.get()
    if isinstance(v, V.StrTok): return v.tok
    raise Unsupported('string token expected, got %r' % (v,))


def hooks():
    def mp(ex, a):
        v = a
        while isinstance(v, Ptr): v = v.get()
        if isinstance(v, MapM): return v
        raise Unsupported('map model expected, got %r' % (v,))

    def h_get_mut(ex, st, callee, args):
        m = mp(ex, args[0]); k = tok(ex, args[1])
        alts = []
        for i, e in enumerate(m.entries):
            alts.append((e[0].tok == k, (lambda i: lambda ex, st, a: some(Ptr(mp(ex, a[0]).entries[i], 1)))(i)))
        alts.append((And(*[e[0].tok != k for e in m.entries]) if m.entries else BoolVal(True), lambda ex, st, a: none()))
        return Fork(alts)

    def h_insert(ex, st, callee, args):
        m = mp(ex, args[0]); k = tok(ex, args[1])
        alts = []
        for i, e in enumerate(m.entries):
            def rep(i):
                def t(ex, st, a):
                    mm = mp(ex, a[0]); old = mm.entries[i][1]; mm.entries[i][1] = a[2]
                    return some(old)
                return t
            alts.append((e[0].tok == k, rep(i)))
        def app(ex, st, a):
            mm = mp(ex, a[0]); mm.entries.append([V.StrTok(tok(ex, a[1])), a[2]])
            return none()
        alts.append((And(*[e[0].tok != k for e in m.entries]) if m.entries else BoolVal(True), app))
        return Fork(alts)

    def h_is_empty(ex, st, callee, args): return BoolVal(len(mp(ex, args[0]).entries) == 0)
    def h_values(ex, st, callee, args):
        m = mp(ex, args[0])
        return Iter(ListModel([Ptr(e, 1) for e in m.entries], kind='Values'), by_value=True)
    def h_to_string(ex, st, callee, args): return V.StrTok(tok(ex, args[0]))
    def h_opt_time_eq(ex, st, callee, args):
        a, b = ex.deref(args[0]), ex.deref(args[1])
        if not (isinstance(a, Enum) and isinstance(b, Enum)): return NotImplemented
        pa = (a.fields.get('Some') or [BitVecVal(0, 64)])[0]; pb = (b.fields.get('Some') or [BitVecVal(0, 64)])[0]
        e = And(a.disc == b.disc, Or(a.disc == 0, pa == pb))
        return Not(e) if callee.endswith('::ne') else e
    return [
        (r'^HashMap::<(?:std::string::)?String, SourceWatermark, FxBuildHasher>::get_mut::<str>$', h_get_mut),
        (r'^HashMap::<(?:std::string::)?String, SourceWatermark, FxBuildHasher>::insert$', h_insert),
        (r'^HashMap::<(?:std::string::)?String, SourceWatermark, FxBuildHasher>::is_empty$', h_is_empty),
        (r'^HashMap::<(?:std::string::)?String, SourceWatermark, FxBuildHasher>::values$', h_values),
        (r'^<std::collections::hash_map::Values<.*> as IntoIterator>::into_iter$', lambda ex, st, callee, args: args[0]),
        (r'^<str as ToString>::to_string$', h_to_string),
        (r'^(?:chrono::)?TimeDelta::zero$', lambda ex, st, callee, args: BitVecVal(0, 64)),
        (r'^std::time::Instant::now$', lambda ex, st, callee, args: Opaque('instant')),
        (r'^<(?:std::option::)?Option<(?:chrono::)?DateTime<(?:chrono::)?Utc>> as PartialEq>::(eq|ne)$', h_opt_time_eq),
    ]


def opt(tag, lo=0, hi=T_MAX):
    p = Bool(tag + '_some'); v = BitVec(tag, 64)
    return Enum('Option', If(p, BitVecVal(1, 64), BitVecVal(0, 64)), {'Some': [v], 'None': []}), p, v, Implies(p, And(v >= lo, v < hi))


def mk_state(n, order):
    src = open(mirdump.crate_dir('runtime') + '/src/watermark.rs').read()
    sf = struct_fields(src, 'SourceWatermark'); tf = struct_fields(src, 'PerSourceWatermarkTracker')
    if set(sf or []) != {'watermark', 'max_timestamp', 'max_out_of_orderness', 'last_event_time'} or set(tf or []) != {'sources', 'effective_watermark'}:
        raise Unsupported('watermark.rs structs changed: %s %s' % (sf, tf))
    srcs = []; cons = []
    for i in range(n):
        wm, wp, wv, c1 = opt('wm%d' % i, -D_MAX)
        mx, mp_, mv, c2 = opt('max%d' % i)
        ooo = BitVec('ooo%d' % i, 64)
        cons += [c1, c2, ooo >= 0, ooo < D_MAX]
        vals = {'watermark': wm, 'max_timestamp': mx, 'max_out_of_orderness': ooo, 'last_event_time': Opaque('last%d' % i)}
        srcs.append({'key': BitVec('key%d' % i, 16), 'wm': (wp, wv), 'max': (mp_, mv), 'ooo': ooo, 'struct': [vals[x] for x in sf]})
    cons += [srcs[a]['key'] != srcs[b]['key'] for a in range(n) for b in range(a + 1, n)]
    eff, ep, evv, c3 = opt('eff', -D_MAX)
    cons.append(c3)
    entries = [[V.StrTok(srcs[i]['key']), srcs[i]['struct']] for i in order]
    tvals = {'sources': MapM(entries), 'effective_watermark': eff}
    tracker = [tvals[x] for x in tf]
    return tracker, tf, sf, srcs, (ep, evv), And(*cons)


def read_opt(o):
    while isinstance(o, Ptr): o = o.get()
    if not o.fields.get('Some'): return o.disc == 1, BitVecVal(0, 64)        # a literal None
    return o.disc == 1, o.fields['Some'][0]


def minimum(items):
    """(any, min) over [(present, value)]"""
    anyp = Or(*[p for p, _ in items]) if items else BoolVal(False)
    m = None
    for p, v in items:
        m = v if m is None else m
    # fold: min over present ones
    acc_p, acc_v = BoolVal(False), BitVecVal(0, 64)
    for p, v in items:
        acc_v = If(And(p, Or(Not(acc_p), v < acc_v)), v, acc_v)
        acc_p = Or(acc_p, p)
    return anyp, acc_v


def job(spec):
    op, n, order = spec
    t0 = time.time()
    ex = Exec([_MOD], [(re.compile(p), f) for p, f in hooks() + W.HOOKS] + containers.container_hooks() + models.generic_hooks(), variants=V.variants(), loop_bound=8)
    tracker, tf, sf, srcs, (ep, ev), pre = mk_state(n, order)
    name = BitVec('name', 16); ts = BitVec('ts', 64); ooo_new = BitVec('ooo_new', 64)
    cell = [tracker]
    st0 = State(roots={'cell': cell}); st0.path.assume(And(pre, ts >= 0, ts < T_MAX, ooo_new >= 0, ooo_new < D_MAX))
    selfp = Ptr(cell, 0)
    fn = {'observe': 'observe_event', 'advance': 'advance_source_watermark', 'register': 'register_source'}[op]
    if op == 'register':
        st0.path.assume(And(*[name != s['key'] for s in srcs]) if srcs else BoolVal(True))     # claimed for fresh names only (re-registration resets a source by design)
        args = [selfp, box(V.StrTok(name)), ooo_new]
    else:
        args = [selfp, box(V.StrTok(name)), ts]
    f = [x for x in _MOD.funcs if re.search(r'^watermark::<impl at [^>]*>::%s$' % fn, x)]
    if len(f) != 1: raise Unsupported('function %s not found (%s)' % (fn, f))
    res = ex.run(_MOD.funcs[f[0]], args, st=st0)
    return ex, res, srcs, (ep, ev), name, ts, ooo_new, tf, sf, cell, t0


def run_job(spec):
    op, n, order = spec
    ex, res, srcs, (ep, ev), name, ts, ooo_new, tf, sf, cell, t0 = job(spec)
    iw, im, io = sf.index('watermark'), sf.index('max_timestamp'), sf.index('max_out_of_orderness')
    verdicts = []
    stats = {'q': 0, 's': 0.0}
    def prove(pc, cond, nm, wit):
        s = z3.Solver(); s.set('timeout', 30000); s.add(*pc); s.add(Not(cond))
        t = time.time(); rc = s.check(); dt = time.time() - t; stats['q'] += 1; stats['s'] += dt
        d = {'name': nm, 'status': 'proved' if rc == z3.unsat else ('violated' if rc == z3.sat else 'unknown'), 'secs': dt, 'kind': 'post'}
        if rc == z3.sat: d['witness'] = wit(s.model())
        verdicts.append(d)
    # panic obligations recorded by the executor
    for v in discharge(ex, res, None, timeout_ms=30000):
        verdicts.append({'name': v.name, 'status': v.status, 'secs': v.secs, 'kind': v.kind})
    for r in res:
        if r.status != 'return': continue
        tracker = r.st.roots['cell'][0]
        m = tracker[tf.index('sources')]; eff_p, eff_v = read_opt(tracker[tf.index('effective_watermark')])
        pc = r.path.pc
        ents = m.entries
        def wit(mdl):
            def o(p, v): return (mdl.eval(v, True).as_signed_long() if z3.is_true(mdl.eval(p, True)) else None)
            return {'op': op, 'sources': [{'key': mdl.eval(s['key'], True).as_long(), 'wm': o(*s['wm']), 'max': o(*s['max']), 'ooo': mdl.eval(s['ooo'], True).as_signed_long()} for s in srcs],
                    'order': list(order), 'effective': o(ep, ev), 'name': mdl.eval(name, True).as_long(), 'ts': mdl.eval(ts, True).as_signed_long(), 'ooo_new': mdl.eval(ooo_new, True).as_signed_long()}
        # map the final entries back to the initial sources by position (entries keep their position; an appended entry is new)
        init = [srcs[i] for i in order]
        if len(ents) < len(init): raise Unsupported('an entry disappeared')
        for j, s in enumerate(init):
            e = ents[j]
            wp2, wv2 = read_opt(e[1][iw]); mp2, mv2 = read_opt(e[1][im])
            wp, wv = s['wm']; mp_, mv = s['max']
            touched = s['key'] == name
            prove(pc, And(e[0].tok == s['key'], Implies(wp, And(wp2, wv2 >= wv))), 'mono: a source keeps its watermark and it does not decrease', wit)
            prove(pc, Implies(Not(touched), And(wp2 == wp, Implies(wp, wv2 == wv), mp2 == mp_, Implies(mp_, mv2 == mv), e[1][io] == s['ooo'])), 'frame: other sources are untouched', wit)
            if op == 'observe':
                moved = Or(Not(mp_), ts > mv)
                cand = ts - s['ooo']
                exp_wm_p = Or(wp, moved); exp_wm_v = If(And(moved, Or(Not(wp), cand > wv)), cand, wv)
                prove(pc, Implies(touched, And(mp2, mv2 == If(moved, ts, mv), wp2 == exp_wm_p, Implies(exp_wm_p, wv2 == exp_wm_v), e[1][io] == s['ooo'])),
                      'exact: observed source has max_timestamp = max(old, ts) and watermark = max(old, ts - out_of_orderness) iff the maximum moved', wit)
            elif op == 'advance':
                prove(pc, Implies(touched, And(wp2, wv2 == If(And(wp, wv >= ts), wv, ts), mp2 == mp_, Implies(mp_, mv2 == mv))), 'exact: advanced source has watermark = max(old, wm)', wit)
            else:
                prove(pc, Not(touched), 'register is exercised on fresh names only', wit)
        known = Or(*[s['key'] == name for s in init]) if init else BoolVal(False)
        if op == 'observe':
            if len(ents) == len(init):
                prove(pc, known, 'an unknown source is auto-registered (entry appended)', wit)
            else:
                e = ents[len(init)]
                wp2, wv2 = read_opt(e[1][iw]); mp2, mv2 = read_opt(e[1][im])
                prove(pc, And(Not(known), len(ents) == len(init) + 1, e[0].tok == name, e[1][io] == 0, mp2, mv2 == ts, wp2, wv2 == ts), 'exact: an unknown source is auto-registered with zero out-of-orderness and watermark = ts', wit)
        elif op == 'advance':
            prove(pc, BoolVal(len(ents) == len(init)), 'advance never registers a source', wit)
            eq_eff = And(eff_p == ep, Implies(ep, eff_v == ev))
            prove(pc, Implies(Not(known), eq_eff), 'advance of an unknown source changes nothing', wit)
        else:
            ok = BoolVal(len(ents) == len(init) + 1)
            if len(ents) == len(init) + 1:
                e = ents[-1]; wp2, _ = read_opt(e[1][iw]); mp2, _ = read_opt(e[1][im])
                ok = And(e[0].tok == name, Not(wp2), Not(mp2), e[1][io] == ooo_new, eff_p == ep, Implies(ep, eff_v == ev))
            prove(pc, ok, 'exact: register adds a source without watermark and leaves the effective watermark alone', wit)
        # minimum
        items = [read_opt(e[1][iw]) for e in ents]
        anyp, mn = minimum(items)
        recomputed = known if op == 'advance' else (BoolVal(True) if op == 'observe' else BoolVal(False))
        prove(pc, Implies(And(recomputed, anyp), And(eff_p, eff_v == mn)), 'minimum: effective watermark = min over the sources that have a watermark', wit)
        prove(pc, Implies(And(recomputed, Not(anyp)), And(eff_p == ep, Implies(ep, eff_v == ev))), 'minimum: no source has a watermark => effective watermark unchanged', wit)
        # the invariant is preserved by every operation (so it holds along histories): Inv = (some source has a watermark => effective = min)
        ianyp, imn = minimum([s['wm'] for s in init])
        inv0 = Implies(ianyp, And(ep, ev == imn))
        if op == 'register':
            prove(pc, Implies(inv0, Implies(anyp, And(eff_p, eff_v == mn))), 'invariant (effective = min) preserved', wit)
        else:
            prove(pc, Implies(inv0, Implies(anyp, And(eff_p, eff_v == mn))), 'invariant (effective = min) preserved', wit)
    return {'spec': [op, n, list(order)], 'verdicts': verdicts, 'paths': len(res), 'queries': ex.queries + stats['q'], 'solver_s': ex.solver_s + stats['s'], 'inconclusive': list(ex.inconclusive), 'wall_s': time.time() - t0}


def _worker(spec):
    try:
        return run_job(spec)
    except Exception as e:
        import traceback; traceback.print_exc()
        return {'spec': [spec[0], spec[1], list(spec[2])], 'error': '%s: %s' % (type(e).__name__, e), 'verdicts': [], 'paths': 0, 'queries': 0, 'solver_s': 0, 'inconclusive': []}


def run(ctx):
    from concurrent.futures import ProcessPoolExecutor
    import multiprocessing as mp
    from vlib import replay
    from vlib.driver import Finding
    load(ctx)
    ctx.engines.append('M (MIR symbolic execution -> Z3)')
    nmax = 3 if ctx.tier == 'thorough' else 2
    ctx.bounds = {'state': 'any tracker with 0..%d registered sources, every field symbolic (watermark / max timestamp present or not, out-of-orderness 0..2^50 ns, times 0..2^61 ns), the map iterated in every order' % nmax,
                  'step': 'observe_event / advance_source_watermark with a symbolic source name (registered or not) and time; register_source with a fresh name',
                  'outside': 'the late-data gate inside the async Engine::process_inner (drop / side-output decision against allowed_lateness), checkpoint/restore of the tracker (millisecond truncation), re-registration of an existing source (resets it by design), idle-source handling'}
    ctx.assumptions += ['chrono DateTime/TimeDelta as 64-bit nanosecond counts; Instant::now opaque', 'FxHashMap modelled as an entry list with distinct keys; get_mut/insert fork on key equality']
    tasks = [(op, n, order) for op in ('observe', 'advance', 'register') for n in range(0, nmax + 1) for order in itertools.permutations(range(n))]
    with ProcessPoolExecutor(max_workers=14, mp_context=mp.get_context('fork')) as pool:
        res = list(pool.map(_worker, tasks))
    binp = None; seen = set()
    for r in res:
        tgt = {'observe': 'observe_event', 'advance': 'advance_source_watermark', 'register': 'register_source'}[r['spec'][0]]
        cls = '%d sources order %s' % (r['spec'][1], r['spec'][2])
        if r.get('error'):
            ctx.inconclusive.append('%s (%s): %s' % (tgt, cls, r['error'])); continue
        for why in sorted(set(r['inconclusive'])): ctx.inconclusive.append('%s (%s): %s' % (tgt, cls, why))
        ctx.queries += r['queries']; ctx.solver_s += r['solver_s']
        ctx.add_obligations(tgt, r['verdicts'], cls=cls)
        ctx.samples.append({'class': tgt + ' ' + cls, 'paths': r['paths']})
        for v in r['verdicts']:
            if v['status'] != 'violated': continue
            key = '%s:%s' % (tgt, v['name'].split(':')[0])
            if key in seen: continue
            seen.add(key)
            w = v.get('witness') or {}
            if binp is None: binp = replay.build('rt')
            def o(x): return '-' if x is None else str(x)
            srcs_w = w.get('sources', []); order = w.get('order', [])
            a = [binp, 'watermark', str(w.get('op')), str(w.get('name', 0)), str(w.get('ts', 0)), str(w.get('ooo_new', 0)), str(len(order))]
            for i in order:
                s_ = srcs_w[i]; a += [str(s_['key']), o(s_['wm']), o(s_['max']), str(s_['ooo'])]
            ctx.findings.append(Finding(key, '%s %s: %s (witness %s)' % (tgt, cls, v['name'], w), a, w))
    ctx.models += sorted(models.USED)
