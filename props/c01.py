"""C01 — every reported sequence match is a genuine occurrence: the run-advance step and the step filter (engine M, one inductive step).

advance_run_shared (with event_matches_state, eval_predicate, Run::push_at, complete_run) is executed from its MIR on a partial match
sitting in a Normal state whose NFA successors are 1..2 (thorough 3) symbolic matching states (Normal or Accept), against a symbolic
event: symbolic event type, one symbolic field (missing / Int / Float / Str / Bool / Null), and per successor an optional expected type, an
optional alias and a step filter that is absent, a comparison with a literal (`x OP lit`) or a comparison with a field of an earlier
captured event (`x OP alias.y`, alias captured or not).
Obligations:
  genuine   the run advances through successor k only if the event has k's event type (when k names one) and satisfies k's filter
            evaluated against the captures made BEFORE this event — and no earlier successor accepted it (first match wins)
  order     advancing appends exactly this event (with k's alias) to the end of the stack, leaves the earlier entries alone, binds the alias
            to this event and keeps every other capture
  complete  an Accept successor yields Complete with the stack = old stack ++ [event] and the captures above; a Normal one yields Continue
  nomatch   if no successor accepts the event the run is returned untouched (NoMatch; Invalidate under strict contiguity)
  start     try_start_run_shared (the first step): a run is started iff some first-step candidate accepts the event (type and filter, with
            no captures yet: a reference filter cannot hold), through the first such candidate; its stack is exactly this event and the alias
            (if any) is bound to it
Every stack entry is put there by one of these two steps, so the stack of any reported plain-sequence match lists, in step order, events that
had their step's type and satisfied their step's filter against the earlier captures.
"""
import itertools
import re
import time

import z3
from z3 import BitVec, BitVecVal, And, Or, Not, If, BoolVal, Implies, ULT, UGE, FP

from vlib import mirdump, models, containers
from vlib.symex import Ptr, Opaque, box, State, Enum, Exec, Unsupported, Fork, discharge, F64
from vlib.containers import ListModel, Iter
from vlib.models import some, none, option
from props.zddmodel import struct_fields
from props import valmodel as V
from props.c11 import extra_hooks as std_hooks

_MODS = None
OPS = ['Eq', 'NotEq', 'Lt', 'Le', 'Gt', 'Ge']
LIT_CLASSES = ['Int', 'Str']
STATE_TYPES = ['Start', 'Normal', 'Kleene', 'Negation', 'And', 'Accept']
RESULTS = ['Continue', 'Complete', 'CompleteAndContinue', 'CompleteMulti', 'Invalidate', 'NoMatch']
T_MAX = 1 << 60


def load(ctx=None):
    global _MODS
    mods = []
    for c in ('runtime', 'core'):
        m, info = mirdump.load(c, closures=(c == 'runtime'))
        mods.append(m)
        if ctx is not None:
            ctx.functions.append({'crate': info['crate'], 'source_hash': info['source_hash'], 'mir_functions': info['functions'], 'dump_s': info['dump_s']})
    _MODS = mods


class EvData:
    """the field map of a modelled event: one field `x` (or `y` for captured events) that is present or not"""
    def __init__(self, opt): self.opt = opt


class MapM:
    """FxHashMap<String, SharedEvent>: entries [key token, Arc<Event>]"""
    def __init__(self, entries): self.entries = entries


def tok(a):
    v = a
    while isinstance(v, Ptr): v = v.get()
    if isinstance(v, V.StrTok): return v.tok
    raise Unsupported('string token expected, got %r' % (v,))


def hooks():
    def mp(a):
        v = a
        while isinstance(v, Ptr): v = v.get()
        if isinstance(v, MapM): return v
        raise Unsupported('capture map expected, got %r' % (v,))

    def h_event_get(ex, st, callee, args):
        e = args[0]
        while isinstance(e, Ptr) and isinstance(e.get(), Ptr): e = e.get()
        ev = e.get() if isinstance(e, Ptr) else e
        d = ev[2]
        if isinstance(d, EvData): return d.opt
        raise Unsupported('event data %r' % (d,))

    def h_map_get(ex, st, callee, args):
        m = mp(args[0]); k = tok(args[1])
        alts = [(tok(e[0]) == k, (lambda i: lambda ex, st, a: some(Ptr(mp(a[0]).entries[i], 1)))(i)) for i, e in enumerate(m.entries)]
        alts.append((And(*[tok(e[0]) != k for e in m.entries]) if m.entries else BoolVal(True), lambda ex, st, a: none()))
        if len(alts) == 1: return alts[0][1](ex, st, args)
        return Fork(alts)

    def h_map_insert(ex, st, callee, args):
        m = mp(args[0]); k = tok(args[1])
        alts = []
        for i, e in enumerate(m.entries):
            def rep(i):
                def t(ex, st, a):
                    mm = mp(a[0]); old = mm.entries[i][1]; mm.entries[i][1] = a[2]
                    return some(old)
                return t
            alts.append((tok(e[0]) == k, rep(i)))
        def app(ex, st, a):
            mp(a[0]).entries.append([V.StrTok(tok(a[1])), a[2]]); return none()
        alts.append((And(*[tok(e[0]) != k for e in m.entries]) if m.entries else BoolVal(True), app))
        if len(alts) == 1: return alts[0][1](ex, st, args)
        return Fork(alts)

    def h_map_len(ex, st, callee, args):
        n = len(mp(args[0]).entries)
        return BoolVal(n == 0) if callee.endswith('is_empty') else BitVecVal(n, 64)

    def h_map_contains(ex, st, callee, args):
        m = mp(args[0]); k = tok(args[1])
        return Or(*[tok(e[0]) == k for e in m.entries]) if m.entries else BoolVal(False)

    def h_arc_clone(ex, st, callee, args):
        p = args[0]
        v = p.get() if isinstance(p, Ptr) else p
        return v if isinstance(v, Ptr) else p

    def h_arc_deref(ex, st, callee, args):
        p = args[0]; v = p.get() if isinstance(p, Ptr) else p
        return v if isinstance(v, Ptr) else p

    def h_str_eq(ne):
        def h(ex, st, callee, args):
            e = tok(args[0]) == tok(args[1])
            return Not(e) if ne else e
        return h

    def h_str_clone(ex, st, callee, args): return V.StrTok(tok(args[0]))
    def h_str_ref(ex, st, callee, args): return box(V.StrTok(tok(args[0])))

    def h_opt_clone(ex, st, callee, args):
        o = ex.deref(args[0])
        if not isinstance(o, Enum): raise Unsupported('Option clone of %r' % (o,))
        return Enum('Option', o.disc, {k: list(v) for k, v in o.fields.items()})

    def h_take(ex, st, callee, args):
        p = args[0]; v = p.get()
        if isinstance(v, MapM): p.set(MapM([])) if hasattr(p, 'set') else None
        return NotImplemented

    def h_mem_take(ex, st, callee, args):
        p = args[0]
        c, k = p.c, p.k
        v = c[k]
        if isinstance(v, MapM): c[k] = MapM([]); return v
        if isinstance(v, ListModel): c[k] = ListModel([], v.kind); return v
        raise Unsupported('mem::take of %r' % (v,))

    def h_elapsed(ex, st, callee, args): return ex.fresh('elapsed', 64)
    def h_neg_iter(ex, st, callee, args): return NotImplemented

    S = r'(?:std::string::)?String'
    return [
        (r'^(?:event::)?Event::get(?:::<.*>)?$', h_event_get),
        (r'^HashMap::<%s, Arc<(?:event::)?Event>, FxBuildHasher>::get::<.*>$' % S, h_map_get),
        (r'^HashMap::<%s, Arc<(?:event::)?Event>, FxBuildHasher>::insert$' % S, h_map_insert),
        (r'^HashMap::<%s, Arc<(?:event::)?Event>, FxBuildHasher>::(?:len|is_empty)$' % S, h_map_len),
        (r'^HashMap::<%s, Arc<(?:event::)?Event>, FxBuildHasher>::contains_key::<.*>$' % S, h_map_contains),
        (r'^HashMap::<%s, Arc<(?:event::)?Event>, FxBuildHasher>::get_mut::<.*>$' % S, h_map_get),
        (r'^<Arc<(?:event::)?Event> as Clone>::clone$|^Arc::<(?:event::)?Event>::clone$', h_arc_clone),
        (r'^<Arc<(?:event::)?Event> as (?:std::ops::)?Deref>::deref$|^<Arc<str> as (?:std::ops::)?Deref>::deref$|^<%s as (?:std::ops::)?Deref>::deref$|^%s::as_str$' % (S, S), h_arc_deref),
        (r'^<&?str as PartialEq<&?%s>>::ne$|^<&?%s as PartialEq<&?str>>::ne$|^<&?str as PartialEq(?:<&?str>)?>::ne$|^<%s as PartialEq>::ne$' % (S, S, S), h_str_eq(True)),
        (r'^<&?str as PartialEq<&?%s>>::eq$|^<&?%s as PartialEq<&?str>>::eq$|^<&?str as PartialEq(?:<&?str>)?>::eq$|^<%s as PartialEq>::eq$' % (S, S, S), h_str_eq(False)),
        (r'^<%s as Clone>::clone$' % S, h_str_clone),
        (r'^<(?:std::option::)?Option<%s> as Clone>::clone$' % S, h_opt_clone),
        (r'^std::mem::take::<.*>$', h_mem_take),
        (r'^std::time::Instant::elapsed$', h_elapsed),
        (r'^std::time::Instant::now$', lambda ex, st, callee, args: ex.fresh('instant', 64)),
        (r'^<LazyLock<HashMap<%s, Arc<(?:event::)?Event>, FxBuildHasher>> as (?:std::ops::)?Deref>::deref$' % S, lambda ex, st, callee, args: box(MapM([]))),
        (r'^<HashMap<%s, Arc<(?:event::)?Event>, FxBuildHasher> as Default>::default$|^HashMap::<%s, Arc<(?:event::)?Event>, FxBuildHasher>::(?:new|default)$' % (S, S), lambda ex, st, callee, args: MapM([])),
    ]


def enum_list(src, name):
    m = re.search(r'enum %s\s*\{(.*?)\n\}' % name, src, re.S)
    body = re.sub(r'//[^\n]*', '', m.group(1)); body = re.sub(r'#\[[^\]]*\]', '', body)
    return re.findall(r'^\s*([A-Z]\w*)', body, re.M)


def mk_exec(src):
    variants = dict(V.variants())
    for name, exp in (('StateType', STATE_TYPES), ('RunAdvanceResult', RESULTS)):
        got = enum_list(src, name)
        if got != exp: raise Unsupported('%s variants changed: %s' % (name, got))
        variants[name] = list(exp)
    from props.c09 import str_hooks
    hk = [(re.compile(p), f) for p, f in hooks() + str_hooks() + std_hooks()] + containers.container_hooks() + models.generic_hooks()
    return V.ValExec(_MODS, [(p.pattern if hasattr(p, 'pattern') else p, f) for p, f in hk]) if False else Exec(_MODS, hk, variants=variants, loop_bound=8, step_budget=300000)


def mk_event(tag, field_classes):
    ty = BitVec('type_' + tag, 16)
    present = z3.Bool('has_' + tag)
    val, c = V.sym_value('v_' + tag, field_classes)
    opt = Enum('Option', If(present, BitVecVal(1, 64), BitVecVal(0, 64)), {'Some': [box(val)], 'None': []})
    cell = [[V.StrTok(ty), BitVec('ts_' + tag, 64), EvData(opt)]]
    cell[0].append('#' + tag)
    FIELDS[tag] = (present, val)
    return Ptr(cell, 0), ty, c


FIELDS = {}


def sase_cmp(a, b, op):
    """the documented comparison of two runtime values in a step filter, written independently of the code: numeric values compare numerically
    (Int with Float through f64, equality within f64::EPSILON as soon as a Float is involved), strings by content / lexicographic order,
    booleans by equality only; values of different kinds are never equal and never ordered"""
    from vlib import models as M
    fa, fb = a.fields, b.fields
    def is_(v, c): return v.disc == V.vdisc(c)
    def s_(v):
        p = v.fields['Str'][0]
        while isinstance(p, Ptr): p = p.get()
        return p.tok
    EPS = z3.FPVal(2.220446049250313e-16, F64)
    def f_of(v, c): return v.fields['Float'][0] if c == 'Float' else z3.fpSignedToFP(z3.RNE(), v.fields['Int'][0], F64)
    rank = M.uf('str_rank', z3.BitVecSort(16), z3.IntSort())
    eqs = [And(is_(a, 'Int'), is_(b, 'Int'), fa['Int'][0] == fb['Int'][0]), And(is_(a, 'Str'), is_(b, 'Str'), s_(a) == s_(b)), And(is_(a, 'Bool'), is_(b, 'Bool'), fa['Bool'][0] == fb['Bool'][0])]
    lts = [And(is_(a, 'Int'), is_(b, 'Int'), fa['Int'][0] < fb['Int'][0]), And(is_(a, 'Str'), is_(b, 'Str'), s_(a) != s_(b), rank(s_(a)) < rank(s_(b)))]
    gts = [And(is_(a, 'Int'), is_(b, 'Int'), fa['Int'][0] > fb['Int'][0]), And(is_(a, 'Str'), is_(b, 'Str'), s_(a) != s_(b), rank(s_(a)) > rank(s_(b)))]
    oeq = [And(is_(a, 'Int'), is_(b, 'Int'), fa['Int'][0] == fb['Int'][0]), And(is_(a, 'Str'), is_(b, 'Str'), s_(a) == s_(b))]
    for ca, cb in (('Float', 'Float'), ('Int', 'Float'), ('Float', 'Int')):
        x, y = f_of(a, ca), f_of(b, cb); both = And(is_(a, ca), is_(b, cb))
        eqs.append(And(both, z3.fpLT(z3.fpAbs(z3.fpSub(z3.RNE(), x, y)), EPS)))
        lts.append(And(both, z3.fpLT(x, y))); gts.append(And(both, z3.fpGT(x, y))); oeq.append(And(both, z3.fpEQ(x, y)))
    eq, lt, gt, oe = Or(*eqs), Or(*lts), Or(*gts), Or(*oeq)
    return {'Eq': eq, 'NotEq': Not(eq), 'Lt': lt, 'Le': Or(lt, oe), 'Gt': gt, 'Ge': Or(gt, oe)}[op]


def ev_tag(p):
    while isinstance(p, Ptr) and isinstance(p.get(), Ptr): p = p.get()
    e = p.get() if isinstance(p, Ptr) else p
    return e[-1]


def predicate(kind, op, src):
    """(Predicate value, description).  Field names are tokens: `x` on the current event, `y` on a captured one (the model's Event::get ignores the name)."""
    pv = V.variants()['Predicate']; cv = V.variants()['CompareOp']
    opv = Enum('CompareOp', BitVecVal(cv.index(op), 64), {op: []})
    if kind == 'lit':
        lit, c = V.sym_value('lit', LIT_CLASSES)
        PRED_INFO['lit'] = lit
        return Enum('Predicate', BitVecVal(pv.index('Compare'), 64), {'Compare': [V.StrTok(BitVecVal(1, 16)), opv, lit]}), c
    alias = V.StrTok(BitVec('ref_alias', 16))
    PRED_INFO['alias'] = alias.tok
    return Enum('Predicate', BitVecVal(pv.index('CompareRef'), 64), {'CompareRef': [V.StrTok(BitVecVal(1, 16)), opv, alias, V.StrTok(BitVecVal(2, 16))]}), BoolVal(True)


PRED_INFO = {}


def job(spec):
    nsucc, kinds, op, strict, tier = spec         # kinds: per successor 'none' | 'lit' | 'ref'
    global LIT_CLASSES
    LIT_CLASSES = ['Int', 'Float', 'Str', 'Bool'] if tier == 'thorough' else ['Int', 'Str']
    t0 = time.time()
    src = open(mirdump.crate_dir('runtime') + '/src/sase.rs').read()
    ex = mk_exec(src)
    sf = struct_fields(src, 'State'); rf = struct_fields(src, 'Run'); nf = struct_fields(src, 'Nfa'); kf = struct_fields(src, 'KleeneLimits'); ef = struct_fields(src, 'StackEntry'); mf = struct_fields(src, 'MatchResult')
    if not sf or not rf or nf != ['states', 'start_state', 'accept_states'] or ef != ['event', 'alias', 'timestamp'] or mf != ['captured', 'stack', 'duration']:
        raise Unsupported('sase.rs structs changed')
    # floating-point comparisons dominate the exploration time and are the subject of C09: the quick tier keeps fields to Int / Str / Null / missing
    classes = ['Int', 'Float', 'Str', 'Bool', 'Null'] if tier == 'thorough' else ['Int', 'Str', 'Null']
    cons = []
    event, ety, c = mk_event('e', classes); cons.append(c)
    cap_ev, cty, c = mk_event('cap', classes); cons.append(c)            # one earlier captured event under alias `cap_alias`
    old_ev, oty, c = mk_event('old', classes); cons.append(c)            # the entry already on the stack
    cap_alias = BitVec('cap_alias', 16)
    def state(i, stype, ev_type_opt, pred_opt, alias_opt, transitions):
        vals = {f: Opaque('state%d.%s' % (i, f)) for f in sf}
        vals.update({'id': BitVecVal(i, 64), 'state_type': Enum('StateType', stype, {t: [] for t in STATE_TYPES}), 'event_type': ev_type_opt, 'predicate': pred_opt, 'alias': alias_opt,
                     'epsilon_transitions': ListModel([]), 'transitions': ListModel([BitVecVal(t, 64) for t in transitions]), 'self_loop': BoolVal(False), 'timeout': none(), 'and_config': none(),
                     'negation_info': none(), 'postponed_predicate': none(), 'has_epsilon_to_accept': BoolVal(False)})
        return [vals[f] for f in sf]
    succ = []
    states = [state(0, BitVecVal(STATE_TYPES.index('Normal'), 64), none(), none(), none(), list(range(1, nsucc + 1)))]
    for i in range(1, nsucc + 1):
        has_ty = z3.Bool('s%d_has_type' % i); sty = BitVec('s%d_type' % i, 16)
        has_alias = z3.Bool('s%d_has_alias' % i); sal = BitVec('s%d_alias' % i, 16)
        accept = z3.Bool('s%d_accept' % i)
        k = kinds[i - 1]
        if k == 'none': pred_opt = none(); pv_ = None
        else:
            pv_, c = predicate(k, op, src); cons.append(c)
            pred_opt = some(pv_)
        st_ty = If(accept, BitVecVal(STATE_TYPES.index('Accept'), 64), BitVecVal(STATE_TYPES.index('Normal'), 64))
        states.append(state(i, st_ty, Enum('Option', If(has_ty, BitVecVal(1, 64), BitVecVal(0, 64)), {'Some': [V.StrTok(sty)], 'None': []}), pred_opt,
                            Enum('Option', If(has_alias, BitVecVal(1, 64), BitVecVal(0, 64)), {'Some': [V.StrTok(sal)], 'None': []}), []))
        succ.append({'has_ty': has_ty, 'ty': sty, 'has_alias': has_alias, 'alias': sal, 'accept': accept, 'kind': k, 'pred': pv_})
    nvals = {'states': ListModel(states), 'start_state': BitVecVal(0, 64), 'accept_states': ListModel([])}
    nfa = [nvals[f] for f in nf]
    captured = MapM([[V.StrTok(cap_alias), cap_ev]])
    old_entry = [old_ev, none(), BitVec('old_ts', 64)]
    rvals = {f: Opaque('run.%s' % f) for f in rf}
    rvals.update({'current_state': BitVecVal(0, 64), 'stack': ListModel([old_entry]), 'captured': captured, 'started_at': BitVec('started', 64), 'deadline': none(), 'event_time_started_at': none(),
                  'event_time_deadline': none(), 'partition_key': none(), 'invalidated': BoolVal(False), 'pending_negations': ListModel([]), 'and_state': none(), 'kleene_capture': none()})
    run = [rvals[f] for f in rf]
    sv = V.variants().get('SelectionStrategy')
    if not sv or 'StrictContiguous' not in sv: raise Unsupported('SelectionStrategy changed: %s' % sv)
    sname = 'StrictContiguous' if strict else [x for x in sv if x != 'StrictContiguous'][0]
    strategy = Enum('SelectionStrategy', BitVecVal(sv.index(sname), 64), {sname: []})
    limits = [BitVecVal(20, 32), BitVecVal(1000, 64)] if kf == ['max_events', 'max_results'] else None
    if limits is None: raise Unsupported('KleeneLimits changed: %s' % kf)
    cell = [run]
    st0 = State(roots={'cell': cell}); st0.path.assume(And(*cons))
    fns = [x for x in _MODS[0].funcs if re.search(r'^sase::advance_run_shared$|^advance_run_shared$', x)]
    if len(fns) != 1: raise Unsupported('advance_run_shared: %s' % fns)
    res = ex.run(_MODS[0].funcs[fns[0]], [box(nfa), strategy, Ptr(cell, 0), event, limits, BitVec('now', 64)], st=st0)
    # ---- reference: does successor k accept the event (types, and the filter against the captures BEFORE the event)?
    from props.c09 import job as _unused  # noqa: F401  (c09 shares the comparison semantics; the filter itself is re-executed below)
    verdicts = []; stats = {'q': 0, 's': 0.0}
    def prove(pc, cond, nm, wit):
        s = z3.Solver(); s.set('timeout', 120000); s.add(*pc); s.add(Not(cond))
        t = time.time(); rc = s.check(); dt = time.time() - t; stats['q'] += 1; stats['s'] += dt
        d = {'name': nm, 'status': 'proved' if rc == z3.unsat else ('violated' if rc == z3.sat else 'unknown'), 'secs': dt, 'kind': 'post'}
        if rc == z3.sat: d['witness'] = wit(s.model())
        verdicts.append(d)
    for v in discharge(ex, res, None, timeout_ms=30000):
        verdicts.append({'name': v.name, 'status': v.status, 'secs': v.secs, 'kind': v.kind})
    inc = list(ex.inconclusive)
    # the filter of successor k evaluated on its own (real eval_predicate) from the pre-state, for every result path: memoised per (k)
    def filter_paths(k):
        s = succ[k]
        if s['pred'] is None: return [([], BoolVal(True))]
        ex2 = mk_exec(src); s2 = State(); s2.path.assume(And(*cons))
        fn2 = [x for x in _MODS[0].funcs if re.search(r'^sase::eval_predicate$|^eval_predicate$', x)]
        r2 = ex2.run(_MODS[0].funcs[fn2[0]], [box(s['pred']), event, box(MapM([[V.StrTok(cap_alias), cap_ev]]))], st=s2)
        inc.extend(ex2.inconclusive); stats['q'] += ex2.queries; stats['s'] += ex2.solver_s
        return [(list(x.path.pc), x.ret) for x in r2 if x.status == 'return']
    fpaths = [filter_paths(k) for k in range(nsucc)]
    # the filter's value as one formula: its evaluation paths partition the inputs, so value = OR over paths of (path condition AND result)
    fvalue = [Or(*[And(And(*fp) if fp else BoolVal(True), ret) for fp, ret in fpaths[k]]) if fpaths[k] else BoolVal(False) for k in range(nsucc)]
    # the filter's meaning, written independently of the code (sase_cmp): a literal comparison needs the field; a reference comparison needs the
    # field, the alias among the EARLIER captures and the referenced field
    xp, xv = FIELDS['e']; yp, yv = FIELDS['cap']
    def spec_filter(k):
        kd = succ[k]['kind']
        if kd == 'none': return BoolVal(True)
        if kd == 'lit': return And(xp, sase_cmp(xv, PRED_INFO['lit'], op))
        return And(xp, PRED_INFO['alias'] == cap_alias, yp, sase_cmp(xv, yv, op))
    def accepts(k, combo=None):
        s = succ[k]
        return And(Or(Not(s['has_ty']), s['ty'] == ety), spec_filter(k))
    def accepts_code(k):
        s = succ[k]
        return And(Or(Not(s['has_ty']), s['ty'] == ety), fvalue[k])
    def wit(m):
        def val(tag):
            return {'type': m.eval(BitVec('type_' + tag, 16), True).as_long(), 'has_field': bool(z3.is_true(m.eval(z3.Bool('has_' + tag), True)))}
        return {'succ': [{'has_type': bool(z3.is_true(m.eval(s['has_ty'], True))), 'type': m.eval(s['ty'], True).as_long(), 'accept': bool(z3.is_true(m.eval(s['accept'], True))), 'filter': s['kind']} for s in succ], 'op': op, 'event': val('e'), 'strict': strict}
    for r in res:
        if r.status != 'return': continue
        runf = r.st.roots['cell'][0]
        def fld(n): return runf[rf.index(n)]
        ret = r.ret
        rd = z3.simplify(ret.disc)
        kind = RESULTS[rd.as_long()] if z3.is_bv_value(rd) else None
        if kind is None: raise Unsupported('symbolic result discriminant')
        cur = z3.simplify(fld('current_state'))
        stack = fld('stack'); caps = fld('captured')
        if kind == 'Complete':
            mres = ret.fields['Complete'][0]; stack = mres[mf.index('stack')]; caps = mres[mf.index('captured')]
        while isinstance(stack, Ptr): stack = stack.get()
        while isinstance(caps, Ptr): caps = caps.get()
        # each combination of filter-evaluation paths (their path conditions partition the input space)
        for combo in [None]:
            pc = list(r.path.pc)
            if kind in ('Continue', 'Complete'):
                k = cur.as_long() - 1 if z3.is_bv_value(cur) else None
                if k is None or not (0 <= k < nsucc):
                    prove(pc, BoolVal(False), 'genuine: the run advanced to a successor of its state', wit); continue
                s = succ[k]
                prove(pc, accepts(k, combo), 'genuine: the event has the successor\'s type and satisfies its filter against the earlier captures', wit)
                prove(pc, And(*[Not(accepts(j, combo)) for j in range(k)]) if k else BoolVal(True), 'genuine: no earlier successor accepted the event (first match wins)', wit)
                prove(pc, BoolVal(kind == 'Complete') == s['accept'] if True else BoolVal(True), 'complete: Complete exactly for an Accept successor', wit)
                tags = [ev_tag(x[0]) for x in stack.items]
                prove(pc, BoolVal(tags == ['#old', '#e']), 'order: the stack is the old stack followed by exactly this event', wit)
                if tags == ['#old', '#e']:
                    al = stack.items[1][1]
                    pay = (al.fields.get('Some') or [None])[0]
                    while isinstance(pay, Ptr): pay = pay.get()
                    same_alias = (pay.tok == s['alias']) if isinstance(pay, V.StrTok) else BoolVal(False)
                    prove(pc, And(al.disc == If(s['has_alias'], BitVecVal(1, 64), BitVecVal(0, 64)), Implies(s['has_alias'], same_alias)), 'order: the new entry carries the successor\'s alias', wit)
                prove(pc, accepts_code(k), 'genuine: the step evaluated eval_predicate on the captures made before this event', wit)
                # captures: alias -> this event; the earlier capture kept unless it has the same alias
                ents = caps.entries
                bound = Or(*[And(tok(e[0]) == s['alias'], BoolVal(ev_tag(e[1]) == '#e')) for e in ents]) if ents else BoolVal(False)
                kept = Or(*[And(tok(e[0]) == cap_alias, BoolVal(ev_tag(e[1]) == '#cap')) for e in ents]) if ents else BoolVal(False)
                prove(pc, And(Implies(s['has_alias'], bound), Implies(Or(Not(s['has_alias']), s['alias'] != cap_alias), kept), BoolVal(len(ents) <= 2)), 'order: the alias is bound to this event and the other captures are kept', wit)
            elif kind in ('NoMatch', 'Invalidate'):
                prove(pc, And(*[Not(accepts(j, combo)) for j in range(nsucc)]), 'nomatch: no successor accepts the event', wit)
                prove(pc, BoolVal((kind == 'Invalidate') == bool(strict)), 'nomatch: Invalidate exactly under strict contiguity', wit)
                tags = [ev_tag(x[0]) for x in stack.items]
                prove(pc, And(BoolVal(tags == ['#old']), cur == 0, BoolVal(len(caps.entries) == 1)), 'nomatch: the run is returned untouched', wit)
            else:
                prove(pc, BoolVal(False), 'a plain sequence step returns Continue, Complete, NoMatch or Invalidate (got %s)' % kind, wit)
    return {'spec': [str(x) for x in spec], 'verdicts': verdicts, 'paths': len(res), 'queries': ex.queries + stats['q'], 'solver_s': ex.solver_s + stats['s'], 'inconclusive': inc, 'wall_s': time.time() - t0}


def job_start(spec):
    """try_start_run_shared: the first step of a sequence.  spec = ('start', nsucc, kinds, op, event_time, tier)"""
    _, nsucc, kinds, op, event_time, tier = spec
    global LIT_CLASSES
    LIT_CLASSES = ['Int', 'Float', 'Str', 'Bool'] if tier == 'thorough' else ['Int', 'Str']
    t0 = time.time()
    src = open(mirdump.crate_dir('runtime') + '/src/sase.rs').read()
    ex = mk_exec(src)
    sf = struct_fields(src, 'State'); rf = struct_fields(src, 'Run'); nf = struct_fields(src, 'Nfa'); ef = struct_fields(src, 'StackEntry'); gf = struct_fields(src, 'SaseEngine')
    if not sf or not rf or nf != ['states', 'start_state', 'accept_states'] or ef != ['event', 'alias', 'timestamp'] or not gf or not {'nfa', 'time_semantics'} <= set(gf):
        raise Unsupported('sase.rs structs changed')
    ts_var = enum_list(src, 'TimeSemantics')
    if ts_var != ['ProcessingTime', 'EventTime']: raise Unsupported('TimeSemantics changed: %s' % ts_var)
    ex.variants['TimeSemantics'] = list(ts_var)
    classes = ['Int', 'Float', 'Str', 'Bool', 'Null'] if tier == 'thorough' else ['Int', 'Str', 'Null']
    cons = []
    event, ety, c = mk_event('e', classes); cons.append(c)
    def state(i, stype, ev_type_opt, pred_opt, alias_opt, transitions):
        vals = {f: Opaque('state%d.%s' % (i, f)) for f in sf}
        vals.update({'id': BitVecVal(i, 64), 'state_type': Enum('StateType', stype, {t: [] for t in STATE_TYPES}), 'event_type': ev_type_opt, 'predicate': pred_opt, 'alias': alias_opt,
                     'epsilon_transitions': ListModel([]), 'transitions': ListModel([BitVecVal(t, 64) for t in transitions]), 'self_loop': BoolVal(False), 'timeout': none(), 'and_config': none(),
                     'negation_info': none(), 'postponed_predicate': none(), 'has_epsilon_to_accept': BoolVal(False)})
        return [vals[f] for f in sf]
    succ = []
    states = [state(0, BitVecVal(STATE_TYPES.index('Start'), 64), none(), none(), none(), list(range(1, nsucc + 1)))]
    for i in range(1, nsucc + 1):
        has_ty = z3.Bool('s%d_has_type' % i); sty = BitVec('s%d_type' % i, 16); has_alias = z3.Bool('s%d_has_alias' % i); sal = BitVec('s%d_alias' % i, 16)
        k = kinds[i - 1]
        if k == 'none': pred_opt = none()
        else:
            pv_, c = predicate(k, op, src); cons.append(c); pred_opt = some(pv_)
        states.append(state(i, BitVecVal(STATE_TYPES.index('Normal'), 64), Enum('Option', If(has_ty, BitVecVal(1, 64), BitVecVal(0, 64)), {'Some': [V.StrTok(sty)], 'None': []}), pred_opt,
                            Enum('Option', If(has_alias, BitVecVal(1, 64), BitVecVal(0, 64)), {'Some': [V.StrTok(sal)], 'None': []}), []))
        succ.append({'has_ty': has_ty, 'ty': sty, 'has_alias': has_alias, 'alias': sal, 'kind': k})
    nvals = {'states': ListModel(states), 'start_state': BitVecVal(0, 64), 'accept_states': ListModel([])}
    gvals = {f: Opaque('engine.' + f) for f in gf}
    tsn = 'EventTime' if event_time else 'ProcessingTime'
    gvals.update({'nfa': [nvals[f] for f in nf], 'time_semantics': Enum('TimeSemantics', BitVecVal(ts_var.index(tsn), 64), {tsn: []})})
    # the rest of the engine the start decision must NOT depend on: whether the engine is partitioned, and one in-flight run (Kleene or not) whose
    # stack of two entries may end in this very event (the event has just advanced it) — symbolic, so a start that consults them forks here
    if 'partition_by' in gf: gvals['partition_by'] = Enum('Option', If(z3.Bool('engine_partitioned'), BitVecVal(1, 64), BitVecVal(0, 64)), {'Some': [V.StrTok(BitVec('engine_partition_field', 16))], 'None': []})
    if 'runs' in gf and {'stack', 'kleene_capture'} <= set(rf):
        ovals = {f: Opaque('other_run.' + f) for f in rf}
        other_ev, _oty, oc = mk_event('o', classes); cons.append(oc)
        ovals['kleene_capture'] = Enum('Option', If(z3.Bool('other_run_is_kleene'), BitVecVal(1, 64), BitVecVal(0, 64)), {'Some': [Opaque('other_run.capture')], 'None': []})
        ovals['stack'] = ListModel([[other_ev, Opaque('other.alias0'), Opaque('other.ts0')], [Ptr(event.c, event.k), Opaque('other.alias1'), Opaque('other.ts1')]])
        gvals['runs'] = ListModel([[ovals[f] for f in rf]])
        ex.hooks.insert(0, (re.compile(r'^<Vec<.*> as (?:std::ops::)?Deref>::deref$'), lambda ex, st, callee, args: args[0] if isinstance(ex.deref(args[0]), ListModel) else NotImplemented))
        ex.hooks.insert(0, (re.compile(r'^Arc::<(?:event::)?Event>::ptr_eq$'), lambda ex, st, callee, args: z3.Bool('other_run_top_is_this_event')))
    engine = [gvals[f] for f in gf]
    st0 = State(); st0.path.assume(And(*cons))
    fns = [x for x in _MODS[0].funcs if re.search(r'^sase::<impl at [^>]*>::try_start_run_shared$', x)]
    if len(fns) != 1: raise Unsupported('try_start_run_shared: %s' % fns)
    res = ex.run(_MODS[0].funcs[fns[0]], [box(engine), event], st=st0)
    verdicts = []; stats = {'q': 0, 's': 0.0}
    def prove(pc, cond, nm, wit):
        s = z3.Solver(); s.set('timeout', 120000); s.add(*pc); s.add(Not(cond))
        t = time.time(); rc = s.check(); dt = time.time() - t; stats['q'] += 1; stats['s'] += dt
        d = {'name': nm, 'status': 'proved' if rc == z3.unsat else ('violated' if rc == z3.sat else 'unknown'), 'secs': dt, 'kind': 'post'}
        if rc == z3.sat: d['witness'] = wit(s.model())
        verdicts.append(d)
    for v in discharge(ex, res, None, timeout_ms=30000):
        verdicts.append({'name': v.name, 'status': v.status, 'secs': v.secs, 'kind': v.kind})
    xp, xv = FIELDS['e']
    def accepts(k):
        s = succ[k]
        f = BoolVal(True) if s['kind'] == 'none' else (And(xp, sase_cmp(xv, PRED_INFO['lit'], op)) if s['kind'] == 'lit' else BoolVal(False))     # nothing is captured yet: a reference filter cannot hold
        return And(Or(Not(s['has_ty']), s['ty'] == ety), f)
    def wit(m):
        return {'start': True, 'succ': [{'has_type': bool(z3.is_true(m.eval(s['has_ty'], True))), 'type': m.eval(s['ty'], True).as_long(), 'filter': s['kind']} for s in succ], 'op': op,
                'event': {'type': m.eval(ety, True).as_long(), 'has_field': bool(z3.is_true(m.eval(xp, True)))}}
    for r in res:
        if r.status != 'return': continue
        pc = r.path.pc; ret = r.ret
        started = z3.simplify(ret.disc == 1)
        if z3.is_true(started):
            run = ret.fields['Some'][0]
            cur = z3.simplify(run[rf.index('current_state')])
            k = cur.as_long() - 1 if z3.is_bv_value(cur) else None
            if k is None or not (0 <= k < nsucc):
                prove(pc, BoolVal(False), 'start: the new run sits in a successor of the start state', wit); continue
            s = succ[k]
            prove(pc, accepts(k), 'start: the first event has the first step\'s type and satisfies its filter (no captures yet)', wit)
            prove(pc, And(*[Not(accepts(j)) for j in range(k)]) if k else BoolVal(True), 'start: no earlier successor accepted the event (first match wins)', wit)
            stack = run[rf.index('stack')]; caps = run[rf.index('captured')]
            while isinstance(stack, Ptr): stack = stack.get()
            while isinstance(caps, Ptr): caps = caps.get()
            tags = [ev_tag(x[0]) for x in stack.items]
            prove(pc, BoolVal(tags == ['#e']), 'start: the stack of the new run is exactly this event', wit)
            ents = caps.entries
            bound = Or(*[And(tok(e[0]) == s['alias'], BoolVal(ev_tag(e[1]) == '#e')) for e in ents]) if ents else BoolVal(False)
            prove(pc, And(Implies(s['has_alias'], bound), Implies(Not(s['has_alias']), BoolVal(len(ents) == 0)), BoolVal(len(ents) <= 1)), 'start: the alias (if any) is bound to this event and nothing else is captured', wit)
        else:
            prove(pc, And(*[Not(accepts(j)) for j in range(nsucc)]), 'start: no run is started only if no first step accepts the event', wit)
    return {'spec': [str(x) for x in spec], 'verdicts': verdicts, 'paths': len(res), 'queries': ex.queries + stats['q'], 'solver_s': ex.solver_s + stats['s'], 'inconclusive': list(ex.inconclusive), 'wall_s': time.time() - t0}


def _worker(spec):
    if spec and spec[0] == 'start':
        try:
            return job_start(spec)
        except Exception as e:
            import traceback; traceback.print_exc()
            return {'spec': [str(x) for x in spec], 'error': '%s: %s' % (type(e).__name__, e), 'verdicts': [], 'paths': 0, 'queries': 0, 'solver_s': 0, 'inconclusive': []}
    return _worker_step(spec)


def _worker_step(spec):
    try:
        return job(spec)
    except Exception as e:
        import traceback; traceback.print_exc()
        return {'spec': [str(x) for x in spec], 'error': '%s: %s' % (type(e).__name__, e), 'verdicts': [], 'paths': 0, 'queries': 0, 'solver_s': 0, 'inconclusive': []}


def run(ctx):
    from concurrent.futures import ProcessPoolExecutor
    import multiprocessing as mp
    from vlib import replay
    from vlib.driver import Finding
    load(ctx)
    ctx.engines.append('M (MIR symbolic execution -> Z3)')
    nmax = 3 if ctx.tier == 'thorough' else 2
    ctx.bounds = {'state': 'a partial match in a Normal state with one stack entry and one earlier capture, 1..%d successors (Normal or Accept, symbolic expected type / alias present or not)' % nmax,
                  'filters': 'absent, `x OP literal` (Int/Float/Str/Bool literal) or `x OP alias.y` (alias captured or not), OP over the six comparisons; event field and captured field missing or Int/Float/Str/Bool/Null with symbolic payload',
                  'outside': 'Kleene, AND and negation states, epsilon transitions, partitioned run sets, global negation invalidation, the VPL -> SASE translation, NfaCompiler::compile_pattern (step order of the compiled automaton), whole-stream completeness'}
    ctx.assumptions += ['Event::get returns the modelled field whatever its name (one field per event)', 'strings are identity tokens with one uninterpreted total order', 'capture map as an entry list']
    tasks = []
    for nsucc in range(1, nmax + 1):
        # thorough: one successor with every value class (Float / Bool included) and all operators; two and three successors on the Int / Str / Null classes
        # (the exploration multiplies per successor; floating-point comparisons of one filter are already covered at one successor and by C09)
        tier_n = 'thorough' if (ctx.tier == 'thorough' and nsucc == 1) else 'quick'
        kind_sets = ['none', 'lit', 'ref'] if nsucc <= 2 else ['none', 'lit']
        for kinds in itertools.product(kind_sets, repeat=nsucc):
            ops = OPS if any(k != 'none' for k in kinds) else ['Eq']
            if nsucc == 2: ops = ['Eq', 'Lt'] if any(k != 'none' for k in kinds) else ['Eq']
            if nsucc >= 3: ops = ['Lt'] if any(k != 'none' for k in kinds) else ['Eq']
            for op in ops:
                for strict in (False, True):
                    if strict and (nsucc > 1 or op not in ('Eq', 'Lt')): continue
                    tasks.append((nsucc, kinds, op, strict, tier_n))
    # the run start (first step): 1..2 first-step candidates, filters absent / literal / reference (which cannot hold: nothing is captured yet), both time semantics
    for nsucc in (1, 2):
        for kinds in itertools.product(['none', 'lit', 'ref'], repeat=nsucc):
            for op in (OPS if (nsucc == 1 and 'lit' in kinds) else ['Lt']):
                for event_time in (False, True):
                    tasks.append(('start', nsucc, kinds, op, event_time, ctx.tier if nsucc == 1 else 'quick'))
    # the `.not(...)` clause: check_global_negations marks a run invalidated iff the event has the forbidden type and satisfies the clause's
    # predicate, and (partitioned) only runs of the event's own partition — the job lives in props/c04neg.py (shared with C04)
    from props import c04neg
    ntasks = c04neg.tasks(ctx.tier)
    ctx.bounds['not-clause'] = 'check_global_negations with one clause (forbidden type symbolic, predicate absent or `x OP literal`), unpartitioned and partitioned (two partitions, one run each)'
    with ProcessPoolExecutor(max_workers=14, mp_context=mp.get_context('fork')) as pool:
        res = list(pool.map(_worker, tasks))
        nres = list(pool.map(c04neg._worker, ntasks))
    binp = None; seen = set()
    for r in nres:
        tgt = 'SaseEngine::check_global_negations'; cls = ' '.join(r['spec'][1:])
        if r.get('error'):
            ctx.inconclusive.append('%s (%s): %s' % (tgt, cls, r['error'])); continue
        for why in sorted(set(r['inconclusive'])): ctx.inconclusive.append('%s (%s): %s' % (tgt, cls, why))
        ctx.queries += r['queries']; ctx.solver_s += r['solver_s']
        ctx.add_obligations(tgt, r['verdicts'], cls=cls)
        for v in r['verdicts']:
            if v['status'] != 'violated': continue
            key = 'check_global_negations:%s' % v['name'].split(':')[0]
            if key in seen: continue
            seen.add(key)
            ctx.findings.append(Finding(key, '%s %s: %s (witness %s)' % (tgt, cls, v['name'], v.get('witness')), [replay.build('rt'), 'negpart'], v.get('witness') or {}))
    for r in res:
        tgt = 'try_start_run_shared' if r['spec'][0] == 'start' else 'advance_run_shared'; cls = ' '.join(r['spec'])
        if r.get('error'):
            ctx.inconclusive.append('%s (%s): %s' % (tgt, cls, r['error'])); continue
        for why in sorted(set(r['inconclusive'])): ctx.inconclusive.append('%s (%s): %s' % (tgt, cls, why))
        ctx.queries += r['queries']; ctx.solver_s += r['solver_s']
        ctx.add_obligations(tgt, r['verdicts'], cls=cls)
        ctx.samples.append({'class': tgt + ' ' + cls, 'paths': r['paths']})
        for v in r['verdicts']:
            if v['status'] != 'violated': continue
            key = '%s:%s' % (tgt, v['name'].split(':')[0])
            if key in seen: continue
            seen.add(key)
            w = v.get('witness') or {}
            if binp is None: binp = replay.build('rt')
            ctx.findings.append(Finding(key, '%s %s: %s (witness %s)' % (tgt, cls, v['name'], w), [binp, 'seqstep'], w))
    ctx.models += sorted(models.USED)
