"""Shared helpers for engine-M obligations over varpulis_core::Value / Expr (C08, C09, C10, C11, C40)."""
import os
import re

import z3
from z3 import (BitVec, BitVecVal, And, Or, Not, If, FP, FPVal, fpLT, fpGT, fpGEQ, fpEQ, fpNeg, fpIsNaN, fpIsInf, fpRoundToIntegral,
                fpToSBV, RTZ, BitVecSort, BoolVal, Bool)

from vlib import mir as M, mirdump, models
from vlib.symex import Exec, Enum, Ptr, Opaque, box, F64, Unsupported

_VARIANTS = None


def variants():
    global _VARIANTS
    if _VARIANTS is None:
        dirs = [os.path.join(mirdump.crate_dir(c), 'src') for c in ('core', 'runtime', 'parser', 'zdd', 'cluster')]
        _VARIANTS = M.enum_variants(dirs)
    return dict(_VARIANTS)


VALUE_CLASSES = ['Null', 'Bool', 'Int', 'Float', 'Str', 'Timestamp', 'Duration', 'Array', 'Map']


def sym_value(tag, classes, ex=None):
    """fresh symbolic varpulis_core::Value restricted to the given variant classes; returns (Enum, constraint)"""
    vs = variants()['Value']
    d = BitVec(tag + '_disc', 64)
    fields = {'Null': [], 'Bool': [Bool(tag + '_b')], 'Int': [BitVec(tag + '_i', 64)], 'Float': [FP(tag + '_f', F64)],
              'Str': [box(StrTok(BitVec(tag + '_s', 16)))], 'Timestamp': [BitVec(tag + '_t', 64)], 'Duration': [BitVec(tag + '_d', 64)],
              'Array': [box(Opaque(tag + '_a'))], 'Map': [box(Opaque(tag + '_m'))]}
    cons = Or(*[d == vs.index(c) for c in classes])
    return Enum('Value', d, fields), cons


def conc_value(cls, payload=None):
    vs = variants()['Value']
    return Enum('Value', BitVecVal(vs.index(cls), 64), {cls: ([] if payload is None else [payload])})


class StrTok:
    """an opaque string: identity token (equal tokens = equal strings), never inspected byte-wise"""
    def __init__(self, tok): self.tok = tok
    def mir_eq(self, ex, other): return self.tok == other.tok
    def __repr__(self): return 'StrTok(%s)' % self.tok


def vdisc(name):
    return variants()['Value'].index(name)


def cmp_int_float(a, f):
    """exact mathematical order of i64 a vs f64 f inside BV+FP (no reals): returns (lt, eq, gt); all False for NaN"""
    two63 = FPVal(2.0 ** 63, F64)
    nan = fpIsNaN(f)
    big = fpGEQ(f, two63); small = fpLT(f, fpNeg(two63))
    t = fpRoundToIntegral(RTZ(), f)
    ti = fpToSBV(RTZ(), t, BitVecSort(64))
    lt = And(Not(nan), Or(big, And(Not(small), Or(a < ti, And(a == ti, fpGT(f, t))))))
    gt = And(Not(nan), Or(small, And(Not(big), Or(a > ti, And(a == ti, fpLT(f, t))))))
    return lt, And(Not(nan), Not(lt), Not(gt)), gt


def math_cmp(l, lc, r, rc):
    """(lt, eq, gt) of two numeric Values of classes lc, rc in {Int, Float}"""
    if lc == 'Int' and rc == 'Int':
        a, b = l.fields['Int'][0], r.fields['Int'][0]; return a < b, a == b, a > b
    if lc == 'Float' and rc == 'Float':
        a, b = l.fields['Float'][0], r.fields['Float'][0]; return fpLT(a, b), fpEQ(a, b), fpGT(a, b)
    if lc == 'Int': return cmp_int_float(l.fields['Int'][0], r.fields['Float'][0])
    lt, eq, gt = cmp_int_float(r.fields['Int'][0], l.fields['Float'][0]); return gt, eq, lt


def opt_is_some_bool(rv, want):
    """condition: rv == Some(Value::Bool(want))"""
    if not isinstance(rv, Enum) or rv.ty != 'Option': return BoolVal(False)
    pay = rv.fields.get('Some')
    if not pay or not isinstance(pay[0], Enum): return BoolVal(False)
    v = pay[0]
    if 'Bool' not in v.fields: return BoolVal(False)
    return And(rv.disc == 1, v.disc == vdisc('Bool'), v.fields['Bool'][0] == want)


def opt_is_none(rv):
    if isinstance(rv, Enum) and rv.ty == 'Option': return rv.disc == 0
    return BoolVal(False)


class ValExec(Exec):
    def __init__(self, mods, extra_hooks=(), **kw):
        hooks = [(re.compile(p) if isinstance(p, str) else p, f) for p, f in extra_hooks] + VALUE_HOOKS + models.generic_hooks()
        super().__init__(mods, hooks, variants=variants(), **kw)


def _h_value_eq(ex, st, callee, args):
    """<&Value as PartialEq>::eq / ne forward to <Value as PartialEq>::eq (inlined from varpulis-core's MIR)"""
    f = ex.find_func('<Value as PartialEq>::eq')
    if f is None or isinstance(f, list): raise Unsupported('Value::eq not found in core MIR')
    a, b = args
    while isinstance(a, Ptr) and isinstance(a.get(), Ptr): a = a.get()
    while isinstance(b, Ptr) and isinstance(b.get(), Ptr): b = b.get()
    from vlib.symex import Inline
    return Inline(f, [a, b], post='not' if callee.endswith('::ne') else None)


VALUE_HOOKS = [
    (re.compile(r'^<&?(?:varpulis_core::)?Value as PartialEq>::(eq|ne)$'), _h_value_eq),
]
