"""C13 — sliding windows contain exactly the events in range at each emission (engine M, one step from an arbitrary valid state).

SlidingCountWindow::add_shared and SlidingWindow::{add_shared, advance_watermark} are executed from the MIR with the buffer
length enumerated (0..K) and everything else symbolic (timestamps, sizes, slide counters, last emission).
"""
import time

import z3
from z3 import BitVec, BitVecVal, And, Or, Not, If, BoolVal, ULE, ULT, UGE, Implies

from vlib import mirdump, symex, models
from vlib.symex import Ptr, Opaque, box, discharge, State, Enum
from vlib.containers import ListModel
from props import winmodel as W

_MODS = None


def load(ctx=None):
    global _MODS
    mods = []
    for c in ('runtime', 'core'):
        m, info = mirdump.load(c, closures=(c == 'runtime'))
        mods.append(m)
        if ctx is not None:
            ctx.functions.append({'crate': info['crate'], 'source_hash': info['source_hash'], 'mir_functions': info['functions'], 'dump_s': info['dump_s']})
    _MODS = mods


def emitted_list(rv):
    """(is_some condition, python list of arcs or None)"""
    if not isinstance(rv, Enum) or rv.ty != 'Option': return BoolVal(False), None
    pay = rv.fields.get('Some')
    lst = pay[0] if pay else None
    return rv.disc == 1, (W.arcs(lst) if isinstance(lst, ListModel) else None)


def job_count(m, K):
    """SlidingCountWindow::add_shared with m buffered events"""
    ex = W.WinExec(_MODS)
    ws, sl, since = BitVec('window_size', 64), BitVec('slide_size', 64), BitVec('events_since_emit', 64)
    evs = [W.mk_event('e%d' % i, BitVec('t%d' % i, 64)) for i in range(m)]
    new = W.mk_event('new', BitVec('tnew', 64))
    win, fields = W.struct_of('SlidingCountWindow', {'window_size': ws, 'slide_size': sl, 'events': ListModel(evs, 'VecDeque'), 'events_since_emit': since})
    st = State(roots={'win': win})
    # valid states: 1 <= slide, 1 <= size <= K, buffer never longer than the window, counter below 2^62
    st.path.assume(And(UGE(ws, 1), ULE(ws, K), UGE(sl, 1), ULE(sl, K + 1), ULE(BitVecVal(m, 64), ws), ULT(since, BitVecVal(1 << 62, 64))))
    results = ex.run('SlidingCountWindow::add_shared', [box(win), new], st=st)
    allv = evs + [new]

    def post(r):
        w = r.st.roots['win']
        buf = W.arcs(w[fields.index('events')])
        some, em = emitted_list(r.ret)
        full = UGE(BitVecVal(m + 1, 64), ws)
        want_emit = And(full, UGE(since + 1, sl))
        out = [('emits exactly when the window is full and the slide count has elapsed', some == want_emit)]
        # post buffer = last min(m+1, size) events, in order
        for k in range(1, m + 2):
            keep = allv[-k:]
            out.append(('buffer keeps exactly the last %d events (size %d or fewer arrived)' % (k, k),
                        Implies(If(full, ws == k, BitVecVal(m + 1, 64) == k), BoolVal(W.same_seq(buf, keep)))))
        if em is not None:
            out.append(('an emission contains exactly the last N events in arrival order', Implies(some, BoolVal(W.same_seq(em, buf)) if True else BoolVal(False))))
            out.append(('an emission has exactly window_size events', Implies(some, ws == len(em))))
        else:
            out.append(('no emission on this path', Not(some)))
        since1 = w[fields.index('events_since_emit')]
        out.append(('slide counter restarts at an emission and counts the event otherwise', since1 == If(some, BitVecVal(0, 64), since + 1)))
        return out
    return ex, results, post, {'size': ws, 'slide': sl, 'since': since}


def job_time(m, method):
    """SlidingWindow::{add_shared, advance_watermark} with m buffered in-order events"""
    ex = W.WinExec(_MODS)
    size, slide = BitVec('window_size', 64), BitVec('slide_interval', 64)
    ts = [BitVec('t%d' % i, 64) for i in range(m)]
    evs = [W.mk_event('e%d' % i, ts[i]) for i in range(m)]
    tn = BitVec('tnew', 64)
    has_last = z3.Bool('has_last_emit'); last = BitVec('last_emit', 64)
    win, fields = W.struct_of('SlidingWindow', {'window_size': size, 'slide_interval': slide, 'events': ListModel(evs, 'VecDeque'), 'last_emit': W.opt(has_last, last)})
    st = State(roots={'win': win})
    st.path.assume(And(W.time_range(tn, last, *ts), size >= 0, size < W.D_MAX, slide >= 0, slide < W.D_MAX))
    st.path.assume(And(*[ts[i] <= ts[i + 1] for i in range(m - 1)]))            # in-order stream (the property's quantifier)
    if method == 'add_shared':
        new = W.mk_event('new', tn)
        if m: st.path.assume(ts[-1] <= tn)
        results = ex.run('SlidingWindow::add_shared', [box(win), new], st=st)
        allv = evs + [new]; allts = ts + [tn]
    else:
        results = ex.run('SlidingWindow::advance_watermark', [box(win), tn], st=st)
        allv = evs; allts = ts
    cutoff = tn - size

    def post(r):
        w = r.st.roots['win']
        buf = W.arcs(w[fields.index('events')])
        some, em = emitted_list(r.ret)
        tags = [W.ev_tag(a) for a in buf]
        out = []
        # buffer = exactly the events within window_size of the trigger, in arrival order
        order_ok = [W.ev_tag(a) for a in allv if W.ev_tag(a) in tags] == tags and len(set(tags)) == len(tags)
        out.append(('buffer keeps arrival order without duplicates', BoolVal(order_ok)))
        for a, t in zip(allv, allts):
            out.append(('event %s is kept iff its timestamp is within window_size of the trigger' % W.ev_tag(a), BoolVal(W.ev_tag(a) in tags) == (t >= cutoff)))
        if method == 'add_shared':
            want = Or(Not(has_last), tn >= last + slide)
        else:
            want = And(Or(Not(has_last), tn >= last + slide), BoolVal(len(buf) > 0))
        out.append(('emits exactly when the slide interval has elapsed since the previous emission', some == want))
        if em is not None:
            out.append(('an emission contains exactly the buffered in-range events in arrival order', Implies(some, BoolVal(W.same_seq(em, buf)))))
        else:
            out.append(('no emission on this path', Not(some)))
        le = w[fields.index('last_emit')]
        out.append(('last_emit becomes the trigger time at an emission and is unchanged otherwise',
                    And(Implies(some, And(le.disc == 1, (le.fields.get('Some') or [BitVecVal(0, 64)])[0] == tn)), Implies(Not(some), And((le.disc == 1) == has_last, Implies(has_last, (le.fields.get('Some') or [BitVecVal(0, 64)])[0] == last))))))
        return out
    return ex, results, post, {'size': size, 'slide': slide, 'tnew': tn, 'last': last}


def run_job(spec):
    kind, m, K = spec
    t0 = time.time()
    if kind == 'count': ex, results, post, syms = job_count(m, K)
    else: ex, results, post, syms = job_time(m, kind)
    vs = discharge(ex, results, post)
    out = []
    for v in vs:
        d = {'name': v.name, 'status': v.status, 'secs': v.secs, 'kind': v.kind, 'where': v.where}
        if v.model is not None:
            d['witness'] = {k: str(v.model.eval(s, True)) for k, s in syms.items()}
            d['witness'].update({str(x): str(v.model[x]) for x in v.model.decls() if str(x).startswith('t') and len(str(x)) <= 4})
        out.append(d)
    return {'kind': kind, 'm': m, 'paths': len(results), 'verdicts': out, 'queries': ex.queries, 'solver_s': ex.solver_s, 'inconclusive': list(ex.inconclusive),
            'funcs': sorted(ex.visited_funcs), 'wall_s': time.time() - t0}


def _worker(spec):
    try:
        return run_job(spec)
    except Exception as e:
        import traceback; traceback.print_exc()
        return {'kind': spec[0], 'm': spec[1], 'error': '%s: %s' % (type(e).__name__, e), 'verdicts': [], 'paths': 0, 'queries': 0, 'solver_s': 0, 'inconclusive': []}


TARGET = {'count': 'SlidingCountWindow::add_shared', 'add_shared': 'SlidingWindow::add_shared', 'advance_watermark': 'SlidingWindow::advance_watermark'}


def run(ctx):
    from concurrent.futures import ProcessPoolExecutor
    import multiprocessing as mp
    from vlib import replay
    from vlib.driver import Finding
    load(ctx)
    K = 3 if ctx.tier == 'quick' else 5
    ctx.engines.append('M (MIR symbolic execution -> Z3)')
    ctx.bounds = {'buffer_length': '0..%d (enumerated), events symbolic' % K, 'window_size/slide (count)': '1..%d / 1..%d' % (K, K + 1), 'timestamps': '0 <= t < 2^61 ns, in-order with ties',
                  'durations': '0 <= d < 2^50 ns', 'steps': 'one step from an arbitrary valid window state (histories of any length by induction on the stated invariants)',
                  'outside': 'PartitionedSlidingCountWindowState / PartitionedSlidingWindow wrappers (FxHashMap<String, _>), checkpoint/restore, out-of-order streams'}
    ctx.assumptions += ['VecDeque/Vec/iterator models of vlib/containers.py (closures executed from MIR)', 'DateTime<Utc>/TimeDelta are signed 64-bit nanosecond counts; chrono overflow panics are obligations',
                        'Arc<Event> is a pointer; Arc::clone preserves identity']
    tasks = [(k, m, K) for k in ('count', 'add_shared', 'advance_watermark') for m in range(0, K + 1)]
    with ProcessPoolExecutor(max_workers=14, mp_context=mp.get_context('fork')) as pool:
        res = list(pool.map(_worker, tasks))
    binp = None
    seen = set()
    for r in res:
        tgt = TARGET[r['kind']]
        cls = 'buffer of %d events' % r['m']
        if r.get('error'):
            ctx.inconclusive.append('%s (%s): %s' % (tgt, cls, r['error'])); continue
        for why in r['inconclusive']: ctx.inconclusive.append('%s (%s): %s' % (tgt, cls, why))
        ctx.queries += r['queries']; ctx.solver_s += r['solver_s']
        ctx.add_obligations(tgt, r['verdicts'], cls=cls)
        ctx.samples.append({'target': tgt, 'class': cls, 'paths': r['paths'], 'obligations': len(r['verdicts'])})
        for v in r['verdicts']:
            if v['status'] != 'violated': continue
            key = '%s:%s' % (tgt, v['name'][:70])
            if key in seen: continue
            seen.add(key)
            if binp is None: binp = replay.build('rt')
            ctx.findings.append(Finding(key, '%s with %s: %s violated (witness %s)' % (tgt, cls, v['name'], v.get('witness')),
                                        [binp, 'window', 'sliding-count' if r['kind'] == 'count' else 'sliding-time', '4'], v.get('witness')))
    ctx.models += sorted(models.USED)
