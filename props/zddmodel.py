"""Denotational model of the ZDD store used by the C06/C07 obligations on engine M.

A family of subsets of {0..N-1} is the 2^N-bit vector F with bit m set iff the subset with mask m is a
member.  Under the representation invariant (ordered, reduced, hash-consed — discharged separately by
the C07 lemmas on a concrete bounded table) a ZddRef is determined by the family it denotes, so the
store is abstracted to `ZddRef -> F`:

  ZddRef::Empty ~ 0,  ZddRef::Base ~ 1,  Node(id) ~ any other F  (the node id *is* the family)
  get_node(id)          = (minvar(F), F restricted to sets without it, sets with it, it removed)
  get_or_create(v,l,h)  = l | addvar(h, v)   + obligation  v < minvar(l), v < minvar(h)   (ordering)
"""
import re

import z3
from z3 import BitVecVal, BitVec, If, And, Or, Not, ULT, LShR, BoolVal, Function, BitVecSort, IntSort, Implies

from vlib.symex import Exec, Enum, Ptr, Opaque, Fork, Inline, Unsupported, box, bv_of_bool
from vlib import models


class Universe:
    def __init__(self, n):
        self.N = n
        self.W = 1 << n
        self.FULL = (1 << self.W) - 1
        # MW[v]: masks of subsets NOT containing v
        self.MW = [sum(1 << m for m in range(self.W) if not (m >> v) & 1) for v in range(n)]

    def bv(self, x): return BitVecVal(x, self.W)
    def addvar_c(self, F, v): return (F & self.bv(self.MW[v])) << (1 << v)
    def remvar_c(self, F, v): return LShR(F & self.bv(~self.MW[v] & self.FULL), (1 << v))

    def ite_v(self, vexpr, f):
        e = f(self.N - 1)
        for v in reversed(range(self.N - 1)):
            e = If(vexpr == v, f(v), e)
        return e

    def minvar(self, F):
        e = BitVecVal(self.N, 32)
        for v in reversed(range(self.N)):
            e = If((F & self.bv(~self.MW[v] & self.FULL)) != 0, BitVecVal(v, 32), e)
        return e

    def addvar(self, F, v): return self.ite_v(v, lambda k: self.addvar_c(F, k))
    def lo(self, F): return self.ite_v(self.minvar(F), lambda k: F & self.bv(self.MW[k]))
    def hi(self, F): return self.ite_v(self.minvar(F), lambda k: self.remvar_c(F, k))

    def depth(self, F):
        return If(Or(F == 0, F == 1), BitVecVal(0, 32), BitVecVal(self.N, 32) - self.minvar(F))

    def popcount(self, F, w=64):
        # balanced adder tree on the narrowest width that holds the count (keeps the bit-blasted circuit small)
        nw = self.N + 1
        layer = [z3.ZeroExt(nw - 1, z3.Extract(i, i, F)) for i in range(self.W)]
        while len(layer) > 1:
            layer = [layer[i] + layer[i + 1] if i + 1 < len(layer) else layer[i] for i in range(0, len(layer), 2)]
        return z3.ZeroExt(w - nw, layer[0])

    def card(self, F):
        """cardinality of a family as an uninterpreted function; its defining facts (card = popcount, hence the decomposition
        card(F) = card(lo F) + card(hi F), card(0) = 0, card(1) = 1, card <= 2^N) are discharged once by `card_lemma_queries`"""
        if not hasattr(self, '_card'): self._card = Function('card', BitVecSort(self.W), BitVecSort(64))
        return self._card(F)

    def card_facts(self, F):
        nt = And(F != 0, F != 1)
        cap = BitVecVal(1 << self.N, 64)
        lo, hi = self.lo(F), self.hi(F)
        return And(self.card(self.bv(0)) == 0, self.card(self.bv(1)) == 1,
                   z3.Implies(nt, self.card(F) == self.card(lo) + self.card(hi)),
                   z3.ULE(self.card(lo), cap), z3.ULE(self.card(hi), cap), z3.ULE(self.card(F), cap))

    def card_lemma_queries(self):
        """[(name, formula that must be UNSAT)] proving the facts in card_facts for card := popcount, split on the top variable"""
        F = BitVec('F', self.W)
        qs = []
        for k in range(self.N):
            case = self.minvar(F) == k
            lo_c = F & self.bv(self.MW[k]); hi_c = self.remvar_c(F, k)
            qs.append(('top variable %d: decomposition terms equal their closed forms' % k, And(case, Or(self.lo(F) != lo_c, self.hi(F) != hi_c))))
            # |F| as a mathematical integer (sum of membership bits): z3's arithmetic normaliser decides the re-association at once,
            # where the equivalent bit-vector adder trees time out at 64 bits
            qs.append(('top variable %d: |F| = |F without it| + |F with it removed|' % k, self.icard(lo_c) + self.icard(hi_c) != self.icard(F)))
        qs.append(('terminals: |{}| = 0, |{{}}| = 1', Or(self.icard(self.bv(0)) != 0, self.icard(self.bv(1)) != 1)))
        qs.append(('non-terminal families have a top variable', And(F != 0, F != 1, self.minvar(F) == self.N)))
        qs.append(('0 <= |F| <= 2^N (so the usize image of |F| never wraps)', Or(self.icard(F) > (1 << self.N), self.icard(F) < 0)))
        return qs

    def icard(self, X):
        return z3.Sum([If(z3.Extract(i, i, X) == 1, 1, 0) for i in range(self.W)])

    def join(self, A, B):
        """{a ∪ b | a ∈ A, b ∈ B}"""
        out = []
        for m in range(self.W):
            terms = []
            # pairs (i, j) with i|j == m: i ⊆ m, j ⊇ m\i, j ⊆ m
            subs = [s for s in range(self.W) if s & ~m == 0]
            for i in subs:
                for j in subs:
                    if i | j == m:
                        terms.append(And(z3.Extract(i, i, A) == 1, z3.Extract(j, j, B) == 1))
            out.append(If(Or(*terms), BitVecVal(1, 1), BitVecVal(0, 1)))
        return z3.Concat(*reversed(out))

    def fam(self, x):
        return [[v for v in range(self.N) if (m >> v) & 1] for m in range(self.W) if (x >> m) & 1]


class ZRef:
    """a ZddRef abstracted by the family it denotes"""
    def __init__(self, F): self.F = F
    def __repr__(self): return 'ZRef(%s)' % self.F
    def mir_discr(self, ex): return If(self.F == 0, BitVecVal(0, 64), If(self.F == 1, BitVecVal(1, 64), BitVecVal(2, 64)))

    def mir_downcast(self, ex, var):
        if var not in ('Node', 2): raise Unsupported('downcast ZddRef as %s' % var)
        return [NodeId(self.F)]


class NodeId:
    def __init__(self, F): self.F = F
    def mir_eq(self, ex, other): return self.F == other.F
    def __repr__(self): return 'NodeId(%s)' % self.F


class Cache:
    def __init__(self, kind, count=False): self.kind = kind; self.count = count or kind == 'count'
    def __repr__(self): return 'Cache(%s)' % self.kind


def struct_fields(src, name):
    m = re.search(r'struct\s+%s\s*\{(.*?)\n\}' % re.escape(name), src, re.S)
    if not m: return None
    body = re.sub(r'//[^\n]*', '', m.group(1))
    body = re.sub(r'#\[[^\]]*\]', '', body)
    return re.findall(r'^\s*(?:pub(?:\([^)]*\))?\s+)?(\w+)\s*:(?!:)', body, re.M)


class ZddExec(Exec):
    """executor specialised to the family abstraction"""

    def __init__(self, mod, U, specs, extra_hooks=(), **kw):
        from vlib import containers
        hooks = [(re.compile(p) if isinstance(p, str) else p, f) for p, f in extra_hooks] + [(re.compile(p), f) for p, f in self._hooks()] \
            + containers.container_hooks() + models.generic_hooks()
        super().__init__([mod], hooks, variants={'ZddRef': ['Empty', 'Base', 'Node']}, **kw)
        self.U = U
        self.specs = specs          # cache kind -> spec(key) -> value expr ; and contracts
        self.contracts = {}         # callee-style name -> (kind, argument extractor)
        self.measure0 = None
        self.prod_var = None

    # ZddRef values are always ZRef objects
    def adt_hook(self, ty, var, args):
        if ty == 'ZddRef':
            if var == 'Empty': return ZRef(self.U.bv(0))
            if var == 'Base': return ZRef(self.U.bv(1))
            if var == 'Node':
                a = args[0]
                if isinstance(a, (NodeId, ZRef)): return ZRef(a.F)
                raise Unsupported('ZddRef::Node of a non-abstract id')
        return None

    def const(self, c):
        m = re.match(r'(?:.*::)?ZddRef::(Empty|Base)$', c)
        if m: return ZRef(self.U.bv(0 if m.group(1) == 'Empty' else 1))
        return super().const(c)

    def _hooks(self):
        U = lambda: self.U

        def h_get_node(ex, st, callee, args):
            idv = args[1]
            if not isinstance(idv, NodeId): raise Unsupported('get_node with non-abstract id %r' % (idv,))
            F = idv.F
            st.path.oblige('no panic: get_node index in bounds (id denotes a non-terminal family)', And(F != 0, F != 1), callee)
            v = U().minvar(F)
            return box([v, ZRef(U().lo(F)), ZRef(U().hi(F))])

        def h_get_or_create(ex, st, callee, args):
            v, lo, hi = args[1], args[2], args[3]
            if not (isinstance(lo, ZRef) and isinstance(hi, ZRef)): raise Unsupported('get_or_create args')
            st.path.oblige('get_or_create: variable inside the bounded universe', ULT(v, U().N), callee, 'order')
            st.path.oblige('get_or_create: ordering (var < top var of lo and of hi)', And(ULT(v, U().minvar(lo.F)), ULT(v, U().minvar(hi.F))), callee, 'order')
            return ZRef(If(hi.F == 0, lo.F, lo.F | U().addvar(hi.F, v)))

        def keyF(key):
            key = self.deref(key)
            if isinstance(key, list): return [self.deref(k).F for k in key]
            return [key.F]

        def h_map_get(ex, st, callee, args):
            c = self.deref(args[0])
            if not isinstance(c, Cache): raise Unsupported('HashMap::get on %r' % (c,))
            k = keyF(args[1])
            spec = self.specs[c.kind](*k)
            hit = self.fresh('cache_hit', 'bool')
            if c.count:
                val = self.fresh('cached', 64)
                mk = lambda ex, st, a, val=val: models.some(box(val))
            else:
                val = self.fresh('cached', U().W)
                mk = lambda ex, st, a, val=val: models.some(box(ZRef(val)))
            # cache invariant: a stored value equals the specification of its key
            return Fork([(Not(hit), lambda ex, st, a: models.none()), (And(hit, val == spec), mk)])

        def h_map_insert(ex, st, callee, args):
            c = self.deref(args[0])
            if not isinstance(c, Cache): raise Unsupported('HashMap::insert on %r' % (c,))
            k = keyF(args[1]); v = args[2]
            spec = self.specs[c.kind](*k)
            got = v.F if isinstance(v, ZRef) else v
            st.path.oblige('cache insert re-establishes the cache invariant (%s)' % c.kind, got == spec, callee, 'cache')
            return models.none()

        def h_le(ex, st, callee, args):
            a, b = self.deref(args[0]), self.deref(args[1])
            rank = Function('rank', BitVecSort(U().W), IntSort())
            # derived Ord: Empty < Base < Node(_); node ids are ordered arbitrarily but totally
            st.path.assume(Implies(a.F != b.F, rank(a.F) != rank(b.F)))
            st.path.assume(And(rank(U().bv(0)) == 0, rank(U().bv(1)) == 1))
            st.path.assume(And(Implies(And(a.F != 0, a.F != 1), rank(a.F) > 1), Implies(And(b.F != 0, b.F != 1), rank(b.F) > 1)))
            op = callee.rsplit('::', 1)[1]
            return {'le': rank(a.F) <= rank(b.F), 'lt': rank(a.F) < rank(b.F), 'ge': rank(a.F) >= rank(b.F), 'gt': rank(a.F) > rank(b.F)}[op]

        def h_contract(ex, st, callee, args):
            name = callee
            if name not in self.contracts: return NotImplemented
            return self.contracts[name](ex, st, callee, args)

        return [
            (r'^UniqueTable::get_node$', h_get_node),
            (r'^UniqueTable::get_or_create$', h_get_or_create),
            (r'^HashMap::<.*>::get::<.*>$', h_map_get),
            (r'^HashMap::<.*>::insert$', h_map_insert),
            (r'^<ZddRef as PartialOrd>::(le|lt|ge|gt)$', h_le),
            (r'.*', h_contract),
        ]
