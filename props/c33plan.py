"""C33 (caller side) — Coordinator::plan_deploy_group only plans pipelines onto available workers, and honours an available pinned worker.

plan_deploy_group (varpulis-cluster/src/coordinator.rs, the planning phase of the deploy API) is executed from its MIR on a coordinator whose
worker table holds 1..3 workers with symbolic status and load under distinct symbolic ids (every iteration order of the table), for a group
of one pipeline whose affinity is absent or names an arbitrary id (one of the workers or an unknown one).  The placement strategy is cut: it
returns an ARBITRARY member of the candidate list it is given (or nothing when the list is empty) — that it does is the subject of the
RoundRobin / LeastLoaded obligations of props/c33.py.  uuid, connector injection, formatting and logging are cut (opaque).
Obligations:
  available   every planned task targets a registered worker for which is_available holds (Ready with spare capacity)
  candidates  the list handed to the strategy holds available workers only, and every available worker
  pinned      when the affinity names a registered, available worker, the task targets exactly that worker
  none        Err(NoWorkersAvailable) iff no worker is available
"""
import itertools
import re
import time

import z3
from z3 import BitVec, BitVecVal, And, Or, Not, If, BoolVal, Implies, ULT

from vlib import mirdump, models, containers
from vlib.symex import Ptr, Opaque, box, State, Enum, Exec, Unsupported, Fork, discharge
from vlib.containers import ListModel, Iter
from vlib.models import some, none
from props.zddmodel import struct_fields
from props import valmodel as V
from props import c33 as C


def deref(v):
    while isinstance(v, Ptr): v = v.get()
    return v


def job(spec):
    """('plan', n, order, affinity): affinity in ('none', 'some')"""
    _, n, order, affinity = spec
    t0 = time.time()
    if C._MOD is None: C.load()
    src_w = open(mirdump.crate_dir('cluster') + '/src/worker.rs').read()
    src_c = open(mirdump.crate_dir('cluster') + '/src/coordinator.rs').read()
    src_p = open(mirdump.crate_dir('cluster') + '/src/pipeline_group.rs').read()
    cf = struct_fields(src_c, 'Coordinator'); pf = struct_fields(src_p, 'PipelinePlacement'); sf = struct_fields(src_p, 'PipelineGroupSpec'); tf = struct_fields(src_c, 'DeployTask'); gf = struct_fields(src_c, 'DeployGroupPlan')
    if not cf or pf != ['name', 'source', 'worker_affinity', 'replicas', 'partition_key'] or sf != ['name', 'pipelines', 'routes'] or not tf or 'worker_id' not in tf or not gf or 'tasks' not in gf:
        raise Unsupported('cluster structs changed')
    ws = []; cons = []
    for i in range(n):
        w, c = C.worker(i, src_w); ws.append(w); cons.append(c)
    cons += [ws[a]['key'] != ws[b]['key'] for a in range(n) for b in range(a + 1, n)]
    table = C.MapM([[[V.StrTok(ws[i]['key'])], ws[i]['struct']] for i in order])
    aff = BitVec('affinity', 16)

    def mp(a):
        v = deref(a)
        if isinstance(v, C.MapM): return v
        raise Unsupported('worker table expected, got %r' % (v,))

    def h_values(ex, st, callee, args):
        return Iter(ListModel([Ptr(e, 1) for e in mp(args[0]).entries], kind='Values'), by_value=True)

    def h_contains(ex, st, callee, args):
        m = mp(args[0]); k = C.idtok(args[1])
        return Or(*[C.idtok(e[0]) == k for e in m.entries]) if m.entries else BoolVal(False)

    def h_get(ex, st, callee, args):
        m = mp(args[0]); k = C.idtok(args[1])
        alts = [(C.idtok(e[0]) == k, (lambda i: lambda ex, st, a: some(Ptr(mp(a[0]).entries[i], 1)))(i)) for i, e in enumerate(m.entries)]
        alts.append((And(*[C.idtok(e[0]) != k for e in m.entries]) if m.entries else BoolVal(True), lambda ex, st, a: none()))
        return Fork(alts)

    def h_index(ex, st, callee, args):
        m = mp(args[0]); k = C.idtok(args[1])
        alts = [(C.idtok(e[0]) == k, (lambda i: lambda ex, st, a: Ptr(mp(a[0]).entries[i], 1))(i)) for i, e in enumerate(m.entries)]
        def miss(ex, st, a):
            st.path.oblige('no panic: HashMap index with a key that is not present', BoolVal(False), callee)
            from vlib.symex import Diverge
            return Diverge('index of a missing key')
        alts.append((And(*[C.idtok(e[0]) != k for e in m.entries]) if m.entries else BoolVal(True), miss))
        return Fork(alts)

    def h_place(ex, st, callee, args):
        lst = deref(args[2])
        if not isinstance(lst, ListModel): raise Unsupported('candidate list expected, got %r' % (lst,))
        st.roots['candidates'].append([deref(x) for x in lst.items])
        items = list(lst.items)
        if not items: return none()
        pick = BitVec('pick%d' % len(st.roots['candidates']), 8)
        alts = []
        for i, it in enumerate(items):
            def mk(i):
                def f(ex, st, a):
                    w = deref(a[0].items[i])
                    return some([V.StrTok(C.idtok(w[ws[0]['nf'].index('id')]))])
                return f
            alts.append((pick == i, mk(i)))
        st.path.assume(ULT(pick, len(items)))
        return Fork(alts, args=[lst])

    op = lambda tag: (lambda ex, st, callee, args: Opaque(tag))
    extra = [
        (r'^uuid::(?:v4::<impl Uuid>|Uuid)::new_v4$', op('uuid')), (r'^<(?:uuid::)?Uuid as ToString>::to_string$', op('string')),
        (r'^(?:connector_config::)?inject_connectors$', lambda ex, st, callee, args: [Opaque('enriched-source'), Opaque('injected')]),
        (r'^HashMap::<WorkerId, WorkerNode>::values$', h_values), (r'^<std::collections::hash_map::Values<.*> as IntoIterator>::into_iter$', lambda ex, st, callee, args: args[0]),
        (r'^HashMap::<WorkerId, WorkerNode>::contains_key::<WorkerId>$', h_contains), (r'^HashMap::<WorkerId, WorkerNode>::get::<WorkerId>$', h_get),
        (r'^<HashMap<WorkerId, WorkerNode> as (?:std::ops::)?Index<&WorkerId>>::index$', h_index),
        (r'^<dyn PlacementStrategy as PlacementStrategy>::place$|^<Box<dyn PlacementStrategy> as PlacementStrategy>::place$', h_place),
        (r'^<(?:pipeline_group::)?PipelineGroupSpec as Clone>::clone$', op('spec-clone')),
        (r'^(?:std|alloc)::fmt::format$', op('string')), (r'^core::fmt::rt::Argument::<\'_>::new_\w+::<.*>$', op('fmt-arg')), (r'^(?:core::fmt::)?Arguments::<\'_>::new.*$', op('fmt-args')),
        (r'^must_use::<.*>$', lambda ex, st, callee, args: args[0]),
        (r'^<(?:std::string::)?String as (?:std::ops::)?Deref>::deref$', lambda ex, st, callee, args: args[0]),
        (r'^<&?(?:worker::)?WorkerId as PartialEq>::(eq|ne)$', lambda ex, st, callee, args: (C.idtok(args[0]) != C.idtok(args[1])) if callee.endswith('::ne') else (C.idtok(args[0]) == C.idtok(args[1]))),
        (r'^<WorkerId as Clone>::clone$', lambda ex, st, callee, args: [V.StrTok(C.idtok(args[0]))]),
        (r'^<(?:std::option::)?Option<(?:std::string::)?String> as Clone>::clone$', lambda ex, st, callee, args: deref(args[0])),
        (r'^Ord::max::<usize>$|^<usize as Ord>::max$|^core::cmp::Ord::max::<usize>$', lambda ex, st, callee, args: If(z3.UGT(args[0], args[1]), args[0], args[1])),
    ]
    variants = dict(V.variants()); variants['WorkerStatus'] = list(C.STATUSES)
    hk = [(re.compile(p), f) for p, f in extra + C.hooks()] + containers.container_hooks() + models.generic_hooks()
    ex = Exec([C._MOD], hk, variants=variants, loop_bound=8, step_budget=400000)
    pvals = {'name': V.StrTok(BitVecVal(1, 16)), 'source': Opaque('source'), 'worker_affinity': (some(V.StrTok(aff)) if affinity == 'some' else none()), 'replicas': BitVecVal(1, 64), 'partition_key': none()}
    pipeline = [pvals[f] for f in pf]
    svals = {'name': V.StrTok(BitVecVal(2, 16)), 'pipelines': ListModel([pipeline]), 'routes': Opaque('routes')}
    gspec = [svals[f] for f in sf]
    cvals = {f: Opaque('coordinator.' + f) for f in cf}
    cvals['workers'] = table
    cvals['placement'] = [[box(Opaque('strategy'))]]          # Box<dyn PlacementStrategy>: Unique<NonNull<..>>; the strategy itself is cut
    coord = [cvals[f] for f in cf]
    st0 = State(roots={'candidates': [], 'ticks': 0, 'now': BitVecVal(0, 64), 'readings': []}); st0.path.assume(And(*cons))
    res = ex.run(C.find_fn(r'^coordinator::<impl at [^>]*>::plan_deploy_group$'), [box(coord), box(gspec)], st=st0)
    verdicts = []; stats = {'q': 0, 's': 0.0}
    for v in discharge(ex, res, None, timeout_ms=30000):
        verdicts.append({'name': v.name, 'status': v.status, 'secs': v.secs, 'kind': v.kind})
    ready = C.STATUSES.index('Ready')
    avail = [And(w['status'] == ready, ULT(w['cap']['pipelines_running'], w['cap']['max_pipelines'])) for w in ws]
    any_avail = Or(*avail) if avail else BoolVal(False)
    def wit(m):
        g = lambda e: m.eval(e, True)
        return {'workers': [{'id': g(w['key']).as_long(), 'status': C.STATUSES[min(g(w['status']).as_long(), 3)], 'running': g(w['cap']['pipelines_running']).as_long(), 'max': g(w['cap']['max_pipelines']).as_long()} for w in ws],
                'order': list(order), 'affinity': (g(aff).as_long() if affinity == 'some' else None)}
    idix = ws[0]['nf'].index('id') if ws else 0
    for r in res:
        if r.status != 'return': continue
        pc = list(r.path.pc); ret = r.ret
        ok = z3.simplify(ret.disc == 0) if isinstance(ret, Enum) else None
        if ok is None or not (z3.is_true(ok) or z3.is_false(ok)): raise Unsupported('symbolic Result discriminant')
        for cand in r.st.roots['candidates']:
            keys = [C.idtok(w[idix]) for w in cand]
            C.prove(pc, And(*[Or(*[And(k == ws[i]['key'], avail[i]) for i in range(n)]) for k in keys]) if keys else BoolVal(True), 'candidates: the strategy is only offered available workers', wit, verdicts, stats)
            C.prove(pc, And(*[Implies(avail[i], Or(*[k == ws[i]['key'] for k in keys]) if keys else BoolVal(False)) for i in range(n)]), 'candidates: every available worker is offered to the strategy', wit, verdicts, stats)
        if z3.is_true(ok):
            plan = ret.fields['Ok'][0]
            tasks = deref(plan[gf.index('tasks')])
            C.prove(pc, BoolVal(isinstance(tasks, ListModel) and len(tasks.items) == 1), 'available: one task per pipeline replica', wit, verdicts, stats)
            for t in (tasks.items if isinstance(tasks, ListModel) else []):
                wid = C.idtok(t[tf.index('worker_id')])
                C.prove(pc, Or(*[And(wid == ws[i]['key'], avail[i]) for i in range(n)]), 'available: the planned task targets a registered worker that is available', wit, verdicts, stats)
                if affinity == 'some':
                    C.prove(pc, Implies(Or(*[And(aff == ws[i]['key'], avail[i]) for i in range(n)]), wid == aff), 'pinned: an available pinned worker gets the pipeline', wit, verdicts, stats)
            C.prove(pc, any_avail, 'none: a plan is produced only when some worker is available', wit, verdicts, stats)
        else:
            C.prove(pc, Not(any_avail), 'none: planning fails only when no worker is available', wit, verdicts, stats)
    return {'spec': [str(x) for x in spec], 'verdicts': verdicts, 'paths': len(res), 'queries': ex.queries + stats['q'], 'solver_s': ex.solver_s + stats['s'], 'inconclusive': list(ex.inconclusive), 'wall_s': time.time() - t0}


def job_sites(spec):
    """('sites',): every call of a placement strategy in the cluster crate (plan_deploy_group, the async deploy_group, failover, drain): the candidate
    list is, structurally, `workers.values().filter(CLOSURE).collect()`, and CLOSURE — executed from its MIR on a symbolic worker and, where it
    captures one, an arbitrary excluded worker id — accepts a worker only if is_available holds for it."""
    t0 = time.time()
    if C._MOD is None: C.load()
    src_w = open(mirdump.crate_dir('cluster') + '/src/worker.rs').read()
    verdicts = []; stats = {'q': 0, 's': 0.0}; inconclusive = []; queries = 0; solver_s = 0.0; sites = []
    clo_index = {}
    for f in C._MOD.funcs.values():
        if '{closure#' in f.name and f.params:
            mm = re.search(r'\{closure@[^}]*\}', f.params[0][1])
            if mm: clo_index.setdefault(containers._norm_clo(mm.group(0)), f)
    for f in C._MOD.funcs.values():
        rawd = getattr(f, 'raw', None) or {}
        raw = [x for lines in rawd.values() for x in lines]       # statements and terminators in block order
        for ln, line in enumerate(raw):
            m = re.search(r'as PlacementStrategy>::place\((?:move|copy) _\d+, (?:move|copy) _\d+, (?:move|copy) (_\d+)\)', line)
            if not m: continue
            if re.search(r'^(?:<impl at [^>]*lib\.rs[^>]*>|tests::)', f.name) or '::tests::' in f.name: continue
            a = m.group(1); where = '%s (call %d)' % (re.sub(r'<impl at [^>]*>', 'Coordinator', f.name), len([s for s in sites if s[0] == f.name]) + 1)
            def last_def(local, upto):
                for k in range(upto - 1, -1, -1):
                    mm = re.match(r'\s*%s = (.*)$' % re.escape(local), raw[k])
                    if mm: return k, mm.group(1)
                return None, None
            k1, d1 = last_def(a, ln)
            m1 = re.match(r'<Vec<&(?:worker::)?WorkerNode> as (?:std::ops::)?Deref>::deref\((?:copy|move) (_\d+)\)', d1 or '')
            k2, d2 = last_def(m1.group(1), k1) if m1 else (None, None)
            m2 = re.match(r'&(_\d+);', d2 or '')
            k3, d3 = last_def(m2.group(1), k2) if m2 else (None, None)
            m3 = re.match(r'<(?:std::iter::)?Filter<(?:std::collections::hash_map::)?Values<\'_, (?:worker::)?WorkerId, (?:worker::)?WorkerNode>, (\{closure@[^}]*\})> as Iterator>::collect::<Vec<&(?:worker::)?WorkerNode>>\(', d3 or '')
            if not m3:
                inconclusive.append('%s: the candidate list is not `workers.values().filter(..).collect()` any more (definition chain: %s / %s / %s)' % (where, (d1 or '?')[:80], (d2 or '?')[:40], (d3 or '?')[:120]))
                continue
            cf_ = clo_index.get(containers._norm_clo(m3.group(1)))
            if cf_ is None:
                inconclusive.append('%s: filter closure %s not found in the MIR dump' % (where, m3.group(1))); continue
            sites.append((f.name, where, cf_))
    if not sites: inconclusive.append('no placement call site found in the cluster crate')
    ready = C.STATUSES.index('Ready')
    for fname, where, cf_ in sites:
        w, c = C.worker(0, src_w)
        variants = dict(V.variants()); variants['WorkerStatus'] = list(C.STATUSES)
        extra = [(r'^<&?(?:worker::)?WorkerId as PartialEq>::(eq|ne)$', lambda ex, st, callee, args: (C.idtok(args[0]) != C.idtok(args[1])) if callee.endswith('::ne') else (C.idtok(args[0]) == C.idtok(args[1])))]
        hk = [(re.compile(p), f2) for p, f2 in extra + C.hooks()] + containers.container_hooks() + models.generic_hooks()
        ex = Exec([C._MOD], hk, variants=variants, loop_bound=8, step_budget=100000)
        ctext = '\n'.join(x for lines in cf_.raw.values() for x in lines)
        ncap = len(set(re.findall(r'\(\*_1\)\.(\d+)', ctext)))
        env = [box(box([V.StrTok(BitVec('excluded_id', 16))])) for _ in range(max(ncap, 0))]
        st0 = State(roots={'ticks': 0, 'now': BitVecVal(0, 64), 'readings': []}); st0.path.assume(c)
        res = ex.run(cf_, [box(env), box(box(w['struct']))], st=st0)
        for v in discharge(ex, res, None, timeout_ms=30000):
            verdicts.append({'name': v.name, 'status': v.status, 'secs': v.secs, 'kind': v.kind})
        inconclusive += ['%s: %s' % (where, x) for x in ex.inconclusive]
        queries += ex.queries; solver_s += ex.solver_s
        avail = And(w['status'] == ready, ULT(w['cap']['pipelines_running'], w['cap']['max_pipelines']))
        def wit(m, w=w, where=where):
            g = lambda e: m.eval(e, True)
            return {'site': where, 'status': C.STATUSES[min(g(w['status']).as_long(), 3)], 'running': g(w['cap']['pipelines_running']).as_long(), 'max': g(w['cap']['max_pipelines']).as_long()}
        for r in res:
            if r.status != 'return': continue
            C.prove(list(r.path.pc), Implies(r.ret, avail), 'sites: the candidate filter of %s accepts available workers only' % where, wit, verdicts, stats)
    return {'spec': [str(x) for x in spec], 'verdicts': verdicts, 'paths': len(sites), 'queries': queries + stats['q'], 'solver_s': solver_s + stats['s'], 'inconclusive': inconclusive, 'wall_s': time.time() - t0,
            'sites': [s[1] for s in sites]}


def _worker(spec):
    try:
        if spec[0] == 'sites': return job_sites(spec)
        return job(spec)
    except Exception as e:
        import traceback; traceback.print_exc()
        return {'spec': [str(x) for x in spec], 'error': '%s: %s' % (type(e).__name__, e), 'verdicts': [], 'paths': 0, 'queries': 0, 'solver_s': 0, 'inconclusive': []}


def tasks(tier):
    out = []
    for n in range(1, (4 if tier == 'thorough' else 3)):
        orders = list(itertools.permutations(range(n))) if n <= 2 else [tuple(range(n)), tuple(reversed(range(n)))]
        for order in orders:
            for affinity in ('none', 'some'):
                out.append(('plan', n, order, affinity))
    out.append(('sites',))
    return out
