"""C20 — checkpoints survive serialisation unchanged: the value / event conversions (engine M).

Executed from the MIR of varpulis-runtime/src/persistence.rs:
  value_to_serializable, serializable_to_value          on every scalar Value class with fully symbolic payload (floats by bit pattern,
                                                        so NaN payloads and -0.0 count), arrays and maps of 0..2 (thorough 3) such scalars
  From<&Event> for SerializableEvent, From<SerializableEvent> for Event     on events with 0..2 symbolic fields and a symbolic nanosecond timestamp
Obligations (Z3):
  image     value_to_serializable(v) has the same variant and exactly the payload of v (arrays in order, maps entry by entry)
  back      serializable_to_value(value_to_serializable(v)) == v, bit for bit
  event     the serialisable event carries the event type, every field with its converted value, and floor(timestamp / 1 ms)
  restore   the restored event has the same type and fields, and the SAME timestamp  (known finding: sub-millisecond part is dropped)
The byte codec (serde_json / rmp-serde and the derive-generated visitors) is outside the encoding; a native probe replays non-finite floats
through codec::serialize / deserialize as a regression guard for the repaired defect (reported separately, not part of the solver claim).
"""
import re
import time

import z3
from z3 import BitVec, BitVecVal, And, Or, Not, If, BoolVal, Implies, fpToIEEEBV

from vlib import mirdump, models, containers
from vlib.symex import Ptr, Opaque, box, State, Enum, Exec, Unsupported, Fork, discharge
from vlib.containers import ListModel, Iter
from vlib.models import some, none, option
from props.zddmodel import struct_fields
from props import valmodel as V
from props import c44 as J

_MODS = None
NS_PER_MS = 1_000_000
T_MAX = 1 << 61


def load(ctx=None):
    global _MODS
    mods = []
    for c in ('runtime', 'core'):
        m, info = mirdump.load(c, closures=(c == 'runtime'))
        mods.append(m)
        if ctx is not None:
            ctx.functions.append({'crate': info['crate'], 'source_hash': info['source_hash'], 'mir_functions': info['functions'], 'dump_s': info['dump_s']})
    _MODS = mods
    J._MODS = mods


def tokv(a):
    v = a
    while isinstance(v, Ptr): v = v.get()
    if isinstance(v, V.StrTok): return v
    raise Unsupported('string token expected, got %r' % (v,))


def hooks():
    def lm(a):
        v = a
        while isinstance(v, Ptr): v = v.get()
        if isinstance(v, ListModel): return v
        raise Unsupported('map model expected, got %r' % (v,))

    def h_new(ex, st, callee, args): return ListModel([], kind='Map')

    def h_insert(ex, st, callee, args):
        m = lm(args[0]); k = tokv(args[1])
        for e in m.items: st.path.assume(tokv(e[0]).tok != k.tok)        # keys of one event / map are distinct
        m.items.append([args[1], args[2]])
        return none()

    def h_iter_pairs(ex, st, callee, args): return Iter(lm(args[0]), pairs=True)
    def h_into_iter_owned(ex, st, callee, args): return Iter(lm(args[0]), by_value=True)
    def h_str_val(ex, st, callee, args): return tokv(args[0])
    def h_str_box(ex, st, callee, args): return box(tokv(args[0]))

    def h_ts_millis(ex, st, callee, args):
        t = args[0]
        while isinstance(t, Ptr): t = t.get()
        # chrono: secs * 1000 + subsec_millis = floor(ns / 10^6) (timestamps are non-negative in the claimed range).  A 64-bit division by a
        # constant stalls the bit-blaster: the quotient and remainder are fresh symbols tied to t by the division lemma t = q * 10^6 + r
        parts = st.roots.get('ts_parts')
        if parts is not None and z3.is_expr(t) and t.eq(parts[0]):
            return parts[1]              # the harness built this timestamp as ms * 10^6 + sub with sub < 10^6: its millisecond count is ms
        q, r_ = ex.fresh('ms_q', 64), ex.fresh('ms_r', 64)
        C = BitVecVal(NS_PER_MS, 64)
        st.path.assume(And(t == q * C + r_, z3.ULT(r_, C), z3.ULT(q, BitVecVal(1 << 42, 64))))
        return q

    def h_from_millis(ex, st, callee, args):
        ms = args[0]
        return some(ms * BitVecVal(NS_PER_MS, 64))           # in range for the claimed timestamps (|ms| < 2^41)

    def h_from_timestamp(ex, st, callee, args):
        # chrono: Some(secs * 10^9 + nsecs) unless nsecs >= 2 * 10^9 (a second and a leap second at most); the seconds are in range for the claimed timestamps
        secs, ns = args[0], args[1]
        ok = z3.ULT(ns, BitVecVal(2000000000, ns.size()))
        return Fork([(ok, lambda ex, st, a: some(a[0] * BitVecVal(1000000000, 64) + z3.ZeroExt(64 - a[1].size(), a[1]))), (Not(ok), lambda ex, st, a: none())], args=[secs, ns])

    def h_utc_now(ex, st, callee, args): return ex.fresh('utc_now', 64)
    def h_box_new(ex, st, callee, args): return box(args[0])

    IM = r'IndexMap::<Arc<str>, (?:varpulis_core::)?Value, FxBuildHasher>'
    HM = r'HashMap::<(?:std::string::)?String, SerializableValue>'
    return [
        (r'^%s::(?:new|with_hasher|with_capacity_and_hasher)$|^%s::new$' % (IM, HM), h_new),
        (r'^%s::insert$|^%s::insert$' % (IM, HM), h_insert),
        (r'^%s::iter$|^<&IndexMap<Arc<str>, (?:varpulis_core::)?Value, FxBuildHasher> as IntoIterator>::into_iter$' % IM, h_iter_pairs),
        (r'^<HashMap<(?:std::string::)?String, SerializableValue> as IntoIterator>::into_iter$', h_into_iter_owned),
        (r'^<(?:std::string::)?String as Clone>::clone$|^<Box<str> as ToString>::to_string$|^<Arc<str> as ToString>::to_string$|^<(?:std::string::)?String as Into<Arc<str>>>::into$|^<&str as Into<Arc<str>>>::into$|^<impl Into<Arc<str>> as Into<Arc<str>>>::into$', h_str_val),
        (r'^<(?:std::string::)?String as Into<Box<str>>>::into$|^(?:std::string::)?String::as_str$', h_str_box),
        (r'^(?:chrono::)?DateTime::<(?:chrono::)?Utc>::timestamp_millis$', h_ts_millis),
        (r'^(?:chrono::)?DateTime::<(?:chrono::)?Utc>::from_timestamp_millis$', h_from_millis),
        (r'^(?:chrono::)?DateTime::<(?:chrono::)?Utc>::from_timestamp$', h_from_timestamp),
        (r'^(?:chrono::)?Utc::now$', h_utc_now),
        (r'^Box::<.*>::new$', h_box_new),
    ]


def mk_exec():
    hk = [(re.compile(p), f) for p, f in hooks()] + containers.container_hooks() + models.generic_hooks()
    ex = Exec(_MODS, hk, variants=V.variants(), loop_bound=8, step_budget=200000)
    ex.div_lemma = True        # a hand-written split of a millisecond count (x / 1000, x % 1000) must not stall the solver
    return ex


def unbox(v):
    while isinstance(v, Ptr): v = v.get()
    return v


SV_OF = {'Null': 'Null', 'Bool': 'Bool', 'Int': 'Int', 'Float': 'Float', 'Str': 'String', 'Timestamp': 'Timestamp', 'Duration': 'Duration', 'Array': 'Array', 'Map': 'Map'}


def sv_spec(v, sv):
    """sv is the faithful serialisable image of v"""
    v, sv = unbox(v), unbox(sv)
    if not isinstance(v, Enum) or not isinstance(sv, Enum): raise Unsupported('sv_spec on %r / %r' % (v, sv))
    svs = V.variants()['SerializableValue']
    alts = []
    for c in v.fields:
        sc = SV_OF[c]
        if sc not in sv.fields: continue
        cond = And(v.disc == V.vdisc(c), sv.disc == svs.index(sc))
        if c == 'Null': alts.append(cond)
        elif c in ('Bool', 'Int', 'Timestamp', 'Duration'): alts.append(And(cond, sv.fields[sc][0] == v.fields[c][0]))
        elif c == 'Float': alts.append(And(cond, fpToIEEEBV(sv.fields[sc][0]) == fpToIEEEBV(v.fields[c][0])))
        elif c == 'Str': alts.append(And(cond, unbox(sv.fields[sc][0]).tok == unbox(v.fields[c][0]).tok))
        else:
            a, b = unbox(v.fields[c][0]), unbox(sv.fields[sc][0])
            if not isinstance(b, ListModel) or len(a.items) != len(b.items): continue
            if c == 'Array': alts.append(And(cond, *[sv_spec(x, y) for x, y in zip(a.items, b.items)]))
            else: alts.append(And(cond, *[And(unbox(x[0]).tok == unbox(y[0]).tok, sv_spec(x[1], y[1])) for x, y in zip(a.items, b.items)]))
    return Or(*alts) if alts else BoolVal(False)


DEADLINE = [None]


def solve(pc, neg, stats, timeout=60000):
    if DEADLINE[0] is not None and time.time() > DEADLINE[0]:
        stats['queries'] += 1
        return z3.unknown, None, 0.0          # the job's time budget is spent: undecided (exit 2), never a pass
    s = z3.Solver(); s.set('timeout', timeout); s.add(*pc); s.add(neg)
    t = time.time(); rc = s.check(); dt = time.time() - t
    stats['queries'] += 1; stats['solver_s'] += dt
    return rc, (s.model() if rc == z3.sat else None), dt


def verdict(name, rc, dt, wit=None):
    d = {'name': name, 'status': 'proved' if rc == z3.unsat else ('violated' if rc == z3.sat else 'unknown'), 'secs': dt, 'kind': 'post'}
    if wit is not None: d['witness'] = wit
    return d


def find_fn(pattern):
    f = [x for x in _MODS[0].funcs if re.search(pattern, x)]
    if len(f) != 1: raise Unsupported('function %s: %s' % (pattern, f))
    return _MODS[0].funcs[f[0]]


def job(spec):
    kind, shape, n, tier = spec
    t0 = time.time(); stats = {'queries': 0, 'solver_s': 0.0}; verdicts = []; inc = []
    if kind == 'value':
        src, c = J.vshape(shape, n, tier)
        ex = mk_exec(); st0 = State(); st0.path.assume(c)
        res = ex.run(find_fn(r'^value_to_serializable$'), [box(src)], st=st0)
        inc += ex.inconclusive; stats['queries'] += ex.queries; stats['solver_s'] += ex.solver_s
        for r in res:
            if r.status != 'return': continue
            rc, m, dt = solve(r.path.pc, Not(sv_spec(src, r.ret)), stats)
            verdicts.append(verdict('value_to_serializable keeps variant and payload', rc, dt, J.witness(m, src, 'out') if m is not None else None))
            if rc != z3.unsat: continue
            ex2 = mk_exec(); s2 = State(); s2.path.pc = list(r.path.pc)
            res2 = ex2.run(find_fn(r'^serializable_to_value$'), [r.ret], st=s2)
            inc += ex2.inconclusive; stats['queries'] += ex2.queries; stats['solver_s'] += ex2.solver_s
            for r2 in res2:
                if r2.status != 'return': continue
                rc2, m2, dt2 = solve(r2.path.pc, Not(J.veq(src, r2.ret)), stats)
                verdicts.append(verdict('serializable_to_value(value_to_serializable(v)) == v bit for bit', rc2, dt2, J.witness(m2, src, 'out') if m2 is not None else None))
        paths = len(res)
    else:
        esrc = open(mirdump.crate_dir('runtime') + '/src/event.rs').read()
        ef = struct_fields(esrc, 'Event')
        if ef != ['event_type', 'timestamp', 'data']: raise Unsupported('Event fields changed: %s' % ef)
        psrc = open(mirdump.crate_dir('runtime') + '/src/persistence.rs').read()
        sf = struct_fields(psrc, 'SerializableEvent')
        if sf != ['event_type', 'timestamp_ms', 'fields']: raise Unsupported('SerializableEvent fields changed: %s' % sf)
        # the timestamp is built as ms * 10^6 + sub (sub < 10^6, ms < 2^42): its millisecond count is ms by construction, no division needed
        ms_, sub_ = BitVec('ts_ms', 64), BitVec('ts_sub', 64)
        ty = V.StrTok(BitVec('etype', 16)); ts = ms_ * BitVecVal(NS_PER_MS, 64) + sub_
        rng = (1 << 16) if spec[1] == 'small' else (1 << 41)
        vals = []; cons = [ms_ >= BitVecVal(-rng, 64), ms_ < BitVecVal(rng, 64), z3.ULT(sub_, BitVecVal(NS_PER_MS, 64))]       # signed: timestamps before 1970 included; floor semantics
        keys = [V.StrTok(BitVec('fk%d' % i, 16)) for i in range(n)]
        for i in range(n):
            v, c = J.sym_vscalar('f%d' % i, J.VSCALARS); vals.append(v); cons.append(c)
        cons += [keys[a].tok != keys[b].tok for a in range(n) for b in range(a + 1, n)]
        event = [ty, ts, ListModel([[k, v] for k, v in zip(keys, vals)], kind='Map')]
        ex = mk_exec(); st0 = State(roots={'ts_parts': (ts, ms_)}); st0.path.assume(And(*cons))
        res = ex.run(find_fn(r'^persistence::<impl at [^>]*>::from$' if False else r'^persistence::<impl at crates/varpulis-runtime/src/persistence\.rs:%d:[^>]*>::from$' % (psrc[:psrc.index('impl From<&Event> for SerializableEvent')].count('\n') + 1)), [box(event)], st=st0)
        inc += ex.inconclusive; stats['queries'] += ex.queries; stats['solver_s'] += ex.solver_s
        def wit(m):
            return {'ts_ns': m.eval(ts, True).as_signed_long(), 'fields': [J.witness(m, v, 'out')['value'] for v in vals]}
        for r in res:
            if r.status != 'return': continue
            se = r.ret
            fl = unbox(se[2])
            C = BitVecVal(NS_PER_MS, 64)
            floor_ms = se[1] == ms_        # = floor(ts / 10^6) by construction of ts
            ok = And(unbox(se[0]).tok == ty.tok, floor_ms, BoolVal(len(fl.items) == n),
                     *[And(unbox(e[0]).tok == keys[i].tok, sv_spec(vals[i], e[1])) for i, e in enumerate(fl.items[:n])])
            rc, m, dt = solve(r.path.pc, Not(ok), stats)
            verdicts.append(verdict('SerializableEvent carries the type, every field and floor(timestamp / 1 ms)', rc, dt, wit(m) if m is not None else None))
            if rc != z3.unsat: continue
            ex2 = mk_exec(); s2 = State(); s2.path.pc = list(r.path.pc)
            line = psrc[:psrc.index('impl From<SerializableEvent> for Event')].count('\n') + 1
            res2 = ex2.run(find_fn(r'^persistence::<impl at crates/varpulis-runtime/src/persistence\.rs:%d:[^>]*>::from$' % line), [se], st=s2)
            inc += ex2.inconclusive; stats['queries'] += ex2.queries; stats['solver_s'] += ex2.solver_s
            for r2 in res2:
                if r2.status != 'return': continue
                e2 = r2.ret
                d2 = unbox(e2[2])
                same_fields = And(unbox(e2[0]).tok == ty.tok, BoolVal(len(d2.items) == n), *[And(unbox(x[0]).tok == keys[i].tok, J.veq(vals[i], x[1])) for i, x in enumerate(d2.items[:n])])
                rc2, m2, dt2 = solve(r2.path.pc, Not(same_fields), stats)
                verdicts.append(verdict('the restored event has the same type and fields', rc2, dt2, wit(m2) if m2 is not None else None))
                rc3, m3, dt3 = solve(r2.path.pc, Not(e2[1] == ts), stats)
                v3 = verdict('the restored event has the same timestamp', rc3, dt3, wit(m3) if m3 is not None else None); v3['cause'] = 'sub-millisecond'
                verdicts.append(v3)
                rc4, m4, dt4 = solve(r2.path.pc + [sub_ == 0], Not(e2[1] == ts), stats)
                verdicts.append(verdict('the restored event has the same timestamp when it is a whole number of milliseconds', rc4, dt4, wit(m4) if m4 is not None else None))
        paths = len(res)
    return {'spec': [str(x) for x in spec], 'verdicts': verdicts, 'paths': paths, 'queries': stats['queries'], 'solver_s': stats['solver_s'], 'inconclusive': inc, 'wall_s': time.time() - t0}


def _worker(spec):
    try:
        DEADLINE[0] = time.time() + 420
        return job(spec)
    except Exception as e:
        import traceback; traceback.print_exc()
        return {'spec': [str(x) for x in spec], 'error': '%s: %s' % (type(e).__name__, e), 'verdicts': [], 'paths': 0, 'queries': 0, 'solver_s': 0, 'inconclusive': []}


PROBES = ['Float:9221120237041090560', 'Float:9218868437227405312', 'Float:18442240474082181120', 'Array[Float:4609434218613702656,Float:9221120237041090560]',
          'Map{k=Float:18444492273895866368}', 'Float:9223372036854775808', 'Str:é€', 'Duration:18446744073709551615', 'Int:-9223372036854775808']


def run(ctx):
    from concurrent.futures import ProcessPoolExecutor
    import multiprocessing as mp
    import subprocess
    from vlib import replay
    from vlib.driver import Finding
    load(ctx)
    tier = ctx.tier
    ctx.engines.append('M (MIR symbolic execution -> Z3)')
    nmax = 3 if tier == 'thorough' else 2
    shapes = [('scalar', 0)] + [(k, n) for k in ('array', 'map') for n in range(0, nmax + 1)]
    if tier == 'thorough': shapes += [('array+nest', 2), ('map+nest', 2)]
    ctx.bounds = {'values': 'every scalar Value class with fully symbolic payload (floats as bit patterns), arrays and maps of 0..%d such scalars%s' % (nmax, ', one nesting level' if tier == 'thorough' else ''),
                  'events': 'events with 0..%d symbolic fields, symbolic type and a symbolic timestamp -2^61 < t < 2^61 ns (before 1970 included)' % nmax,
                  'outside': 'the byte codec (serde_json / rmp-serde and the derive-generated visitors), format auto-detection, the other checkpoint sections (windows, patterns, joins: containers of these events)'}
    ctx.assumptions += ['chrono: timestamp_millis = floor(ns / 10^6) (also before 1970), from_timestamp_millis(ms) = ms * 10^6, from_timestamp(s, ns) = s * 10^9 + ns unless ns >= 2 * 10^9 (in range)', 'map / event keys distinct; HashMap iteration in insertion order (field order is not part of event equality)']
    tasks = [('value', k.replace('map', 'object'), n, tier) for k, n in shapes] + [('event', '-', n, tier) for n in range(0, nmax + 1)] + [('event', 'small', 1, tier)]
    # the small-range event job goes first: when it already shows a new violation of the event conversion (anything but the known sub-millisecond loss), the
    # full-range event jobs are skipped — on code that splits the millisecond count by hand they only repeat it, at the price of 64-bit divisions by a constant
    small = _worker(('event', 'small', 1, tier))
    small_bad = [v for v in small.get('verdicts', []) if v['status'] == 'violated' and v.get('cause') != 'sub-millisecond']
    if small_bad:
        tasks = [t for t in tasks if t[0] != 'event']
        ctx.notes.append('full-range event jobs skipped: the small-range job already reports a violation')
    else:
        tasks = [t for t in tasks if t != ('event', 'small', 1, tier)]
    with ProcessPoolExecutor(max_workers=12, mp_context=mp.get_context('fork')) as pool:
        res = [small] + list(pool.map(_worker, tasks))
    binp = None; seen = set()
    for r in res:
        tgt = 'value conversion' if r['spec'][0] == 'value' else 'event conversion'; cls = '%s n=%s' % (r['spec'][1], r['spec'][2])
        if r.get('error'):
            ctx.inconclusive.append('%s (%s): %s' % (tgt, cls, r['error'])); continue
        for why in sorted(set(r['inconclusive'])): ctx.inconclusive.append('%s (%s): %s' % (tgt, cls, why))
        ctx.queries += r['queries']; ctx.solver_s += r['solver_s']
        ctx.add_obligations(tgt, r['verdicts'], cls=cls)
        ctx.samples.append({'class': tgt + ' ' + cls, 'paths': r['paths']})
        for v in r['verdicts']:
            if v['status'] != 'violated': continue
            key = '%s:%s' % (tgt.split()[0], v.get('cause') or v['name'][:60])
            if key in seen: continue
            seen.add(key)
            w = v.get('witness') or {}
            if binp is None: binp = replay.build('rt')
            val = (w.get('fields') or [w.get('value')] or ['Null'])[0] or 'Null'
            a = [binp, 'ckpt', val, str(w.get('ts_ns', 0))]
            ctx.findings.append(Finding(key, '%s %s: %s (witness %s)' % (tgt, cls, v['name'], w), a, w))
    # native regression probe of the byte codec for the repaired non-finite-float defect (outside the solver claim; reported separately)
    if binp is None: binp = replay.build('rt')
    bad = []
    for p in PROBES:
        out = subprocess.run([binp, 'ckpt', p, '5000000'], stdout=subprocess.PIPE, stderr=subprocess.STDOUT).stdout.decode('utf-8', 'replace')
        if 'REPRODUCED' in out or not out.startswith('OK'): bad.append((p, out.strip()[:300]))
    ctx.notes.append('native codec probe (not part of the solver claim): %d values through codec::serialize/deserialize (JSON), %d failed' % (len(PROBES), len(bad)))
    for p, out in bad:
        ctx.findings.append(Finding('codec:json:%s' % p.split(':')[0], 'native codec probe: %s' % out, [binp, 'ckpt', p, '5000000'], {'value': p}))
    ctx.models += sorted(models.USED)
