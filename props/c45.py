"""C45 (breaker part) — CircuitBreaker follows its contract on every history of <= K calls over a virtual clock (engine K)."""
from vlib import kprop


def run(ctx):
    k = [kprop.H('c45::c45_breaker_k6_thr2', 'CircuitBreaker::{allow_request,record_success,record_failure,state}', 'histories of 6 calls, threshold 1-2, reset timeout 1-60 s, clock steps 0-100 s',
                 key='CircuitBreaker:contract', text='CircuitBreaker departs from its contract (opens at threshold, rejects until timeout, single half-open probe, closes/reopens on probe result)')]
    if ctx.tier == 'thorough':
        k.append(kprop.H('c45::c45_breaker_k8_thr4', k[0].target, 'histories of 8 calls, threshold 1-4, reset timeout 1-60 s', key='CircuitBreaker:contract', text=k[0].text))
        k.append(kprop.H('c45::c45_twin_must_fail', k[0].target, 'twin', twin=True))
    ctx.bounds = {'history_length': 8 if ctx.tier == 'thorough' else 6, 'failure_threshold': '1..4' if ctx.tier == 'thorough' else '1..2', 'reset_timeout_s': '1..60',
                  'clock': 'symbolic non-decreasing (seconds, nanoseconds), step <= 100 s', 'unwind': '7 / 9',
                  'outside': 'ResilientSink::send/send_batch and dead-letter-queue completeness (async, file I/O); u32 overflow of the failure counter after 2^32 failures'}
    ctx.assumptions += ['std::time::Instant::now is stubbed by a virtual monotone clock (-Z stubbing); Instant arithmetic is the real std code',
                        'each breaker method holds the mutex for its whole body, so every interleaving of concurrent senders is a sequential history of these calls',
                        'reference monitor in kani/k-runtime/src/c45.rs is the contract of the property statement']
    ctx.functions.append({'crate': 'varpulis-runtime', 'functions': ['circuit_breaker::CircuitBreaker::new', 'allow_request', 'record_success', 'record_failure', 'state'], 'via': 'path dependency compiled by Kani on this run'})
    # native replay: the history is re-run on the real CircuitBreaker under a virtual clock (replay-rt interposes clock_gettime)
    from vlib import replay
    binp = replay.build('rt')

    def dec(vals, failed):
        thr = kprop.le_int(vals[0]['bytes']); tmo = kprop.le_int(vals[1]['bytes'])
        steps = []
        rest = vals[2:]
        for i in range(0, len(rest) - 2, 3):
            steps.append('%d:%d:%d' % (kprop.le_int(rest[i]['bytes']), kprop.le_int(rest[i + 1]['bytes']), kprop.le_int(rest[i + 2]['bytes'])))
        return [binp, 'breaker', str(thr), str(tmo)] + steps
    for h in k:
        if not h.twin: h.replay = dec
    kprop.run_harnesses(ctx, 'k-runtime', k, jobs=4, harness_timeout=900 if ctx.tier == 'thorough' else 400)
