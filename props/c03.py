"""C03 — Kleene closures: accumulation step, completion, enumeration filter and the two caps (engine M, one inductive step each).

Four targets of varpulis-runtime/src/sase.rs are executed from their MIR:

  step      advance_run_shared on a partial match that sits in a Kleene state with a self loop (`loop`) or in the Normal state before it
            (`enter`): symbolic event (type, one field), Kleene state with a symbolic expected type, alias, optional literal filter, optional
            postponed (self-referencing) predicate, symbolic `has_epsilon_to_accept` (the pattern ends in `all`), a KleeneCapture with a symbolic
            `next_var` and `needs_zdd`, symbolic caps.  A ghost counter `kcount` stands for the number of Kleene events the run keeps; the
            inductive invariant is  kcount <= max_events  and  (capture present => next_var == kcount == |events| == |aliases|).
              cap     kcount' <= max_events
              sync    the stack, the capture's event / alias vectors and next_var grow together, by this event, under the state's alias
              zdd     product_with_optional is called exactly once, on the old handle with the old next_var, iff the capture needs the ZDD
              keep    an event that the Kleene state accepts while the cap is not reached IS accumulated (nothing admissible is dropped)
              kind    Continue, or CompleteAndContinue carrying the whole stack when the state can reach Accept by epsilon
  complete  complete_run: without a deferred predicate one match with the whole stack (all accumulated events) and all captures; with one,
            CompleteMulti of exactly what enumerate_with_filter returns
  enum      enumerate_with_filter over an arbitrary iteration of 0..3 combinations of 0..2 entries, the deferred predicate's value per
            combination symbolic: at most max_results matches, exactly the first min(max_results, #admissible) non-empty admissible
            combinations, in iteration order, each with the combination's aliases captured; without a predicate every non-empty combination
  deferred  evaluate_deferred_predicate on 0..3 events against an independent reading (c01.sase_cmp): true iff every consecutive pair
            satisfies the comparison with the EARLIER member bound under the referenced alias
The ZDD behind the combinations (which subsets it holds, each once) is the subject of C06 / C07.
"""
import re
import time

import z3
from z3 import BitVec, BitVecVal, And, Or, Not, If, BoolVal, Implies, ULT, ULE, UGE, ZeroExt

from vlib import mirdump, models, containers
from vlib.symex import Ptr, Opaque, box, State, Enum, Exec, Unsupported, Fork, discharge
from vlib.containers import ListModel
from vlib.models import some, none
from props.zddmodel import struct_fields
from props import valmodel as V
from props import c01 as B

OPS = B.OPS
KC_FIELDS = ['arena', 'handle', 'events', 'aliases', 'next_var', 'deferred_predicate', 'needs_zdd']


def load(ctx=None):
    B.load(ctx)


def opt(flag, payload):
    return Enum('Option', If(flag, BitVecVal(1, 64), BitVecVal(0, 64)), {'Some': [payload], 'None': []})


def deref(v):
    while isinstance(v, Ptr): v = v.get()
    return v


def zdd_hooks():
    def h_pwo(ex, st, callee, args):
        st.roots.setdefault('zdd_calls', []).append((deref(args[1]), args[2]))
        return Opaque('handle\'')
    def h_same(ex, st, callee, args): return deref(args[0])
    def h_combos(ex, st, callee, args):
        return containers.Iter(list(st.roots['combos']))
    def h_deferred(ex, st, callee, args):
        # the value of the deferred predicate on this combination: one symbolic boolean per combination (identified by its event tags)
        evs = deref(args[1])
        tags = tuple(B.ev_tag(x) for x in evs.items)
        st.roots.setdefault('deferred_calls', []).append(tags)
        return z3.Bool('adm_' + '_'.join(t.strip('#') for t in tags))
    def h_vec_clone(ex, st, callee, args):
        v = deref(args[0])
        return ListModel([list(x) if isinstance(x, list) else x for x in v.items], v.kind)
    def h_opt_take(ex, st, callee, args):
        p = args[0]; v = p.get()
        p.c[p.k] = none()
        return v
    def h_windows(ex, st, callee, args):
        v = deref(args[0]); n = z3.simplify(args[1])
        if not z3.is_bv_value(n): raise Unsupported('windows of symbolic size')
        n = n.as_long()
        return containers.Iter(ListModel([box(ListModel(v.items[i:i + n])) for i in range(0, len(v.items) - n + 1)]), by_value=True)
    def h_vec_deref(ex, st, callee, args):
        return args[0] if isinstance(deref(args[0]), ListModel) else NotImplemented
    def h_extend_from_slice(ex, st, callee, args):
        d = deref(args[0]); s = deref(args[1])
        if not isinstance(d, ListModel) or not isinstance(s, ListModel): return NotImplemented
        d.items.extend([list(x) if isinstance(x, list) else x for x in s.items])
        return []
    return [(r'^core::slice::<impl \[.*\]>::windows$', h_windows),
            (r'^Vec::<(?:sase::)?StackEntry>::extend_from_slice$', h_extend_from_slice),
            (r'^<Vec<.*> as (?:std::ops::)?Deref>::deref$', h_vec_deref),
            (r'^<Vec<(?:sase::)?StackEntry> as Clone>::clone$', h_vec_clone),
            (r'^(?:std::option::)?Option::<(?:sase::)?KleeneCapture>::take$', h_opt_take),
            (r'^(?:varpulis_zdd::)?(?:arena::)?ZddArena::product_with_optional$', h_pwo),
            (r'^(?:varpulis_zdd::)?(?:arena::)?ZddArena::new$', lambda ex, st, callee, args: Opaque('arena0')),
            (r'^(?:varpulis_zdd::)?(?:arena::)?ZddArena::base$', lambda ex, st, callee, args: Opaque('base')),
            (r'^<(?:std::option::)?Option<(?:sase::)?Predicate> as Clone>::clone$|^<(?:sase::)?Predicate as Clone>::clone$', h_same),
            (r'^<HashMap<(?:std::string::)?String, Arc<(?:event::)?Event>, FxBuildHasher> as Clone>::clone$', lambda ex, st, callee, args: B.MapM([list(e) for e in deref(args[0]).entries]))]


def mk_exec(src, extra=()):
    variants = dict(V.variants())
    for name, exp in (('StateType', B.STATE_TYPES), ('RunAdvanceResult', B.RESULTS)):
        got = B.enum_list(src, name)
        if got != exp: raise Unsupported('%s variants changed: %s' % (name, got))
        variants[name] = list(exp)
    from props.c09 import str_hooks
    hk = [(re.compile(p), f) for p, f in list(extra) + zdd_hooks() + B.hooks() + str_hooks() + B.std_hooks()] + containers.container_hooks() + models.generic_hooks()
    return Exec(B._MODS, hk, variants=variants, loop_bound=24, step_budget=300000)


def find(rx):
    fns = [x for x in B._MODS[0].funcs if re.search(rx, x)]
    if len(fns) != 1: raise Unsupported('%s: %s' % (rx, fns))
    return B._MODS[0].funcs[fns[0]]


class Prover:
    def __init__(self): self.verdicts = []; self.q = 0; self.s = 0.0
    def prove(self, pc, cond, nm, wit=None):
        s = z3.Solver(); s.set('timeout', 120000); s.add(*pc); s.add(Not(cond))
        t = time.time(); rc = s.check(); dt = time.time() - t; self.q += 1; self.s += dt
        d = {'name': nm, 'status': 'proved' if rc == z3.unsat else ('violated' if rc == z3.sat else 'unknown'), 'secs': dt, 'kind': 'post'}
        if rc == z3.sat and wit: d['witness'] = wit(s.model())
        self.verdicts.append(d)
        return d['status']


def structs(src):
    sf = struct_fields(src, 'State'); rf = struct_fields(src, 'Run'); nf = struct_fields(src, 'Nfa'); kf = struct_fields(src, 'KleeneLimits')
    ef = struct_fields(src, 'StackEntry'); mf = struct_fields(src, 'MatchResult'); cf = struct_fields(src, 'KleeneCapture')
    if not sf or not rf or nf != ['states', 'start_state', 'accept_states'] or ef != ['event', 'alias', 'timestamp'] or mf != ['captured', 'stack', 'duration'] \
            or kf != ['max_events', 'max_results'] or cf != KC_FIELDS:
        raise Unsupported('sase.rs structs changed')
    return sf, rf, nf, mf


def mk_state(sf, i, stype, **kw):
    vals = {f: Opaque('state%d.%s' % (i, f)) for f in sf}
    vals.update({'id': BitVecVal(i, 64), 'state_type': Enum('StateType', BitVecVal(B.STATE_TYPES.index(stype), 64) if isinstance(stype, str) else stype, {t: [] for t in B.STATE_TYPES}),
                 'event_type': none(), 'predicate': none(), 'alias': none(), 'epsilon_transitions': ListModel([]), 'transitions': ListModel([]), 'self_loop': BoolVal(False),
                 'timeout': none(), 'and_config': none(), 'negation_info': none(), 'postponed_predicate': none(), 'has_epsilon_to_accept': BoolVal(False)})
    vals.update(kw)
    return [vals[f] for f in sf]


def mk_run(rf, **kw):
    rvals = {f: Opaque('run.%s' % f) for f in rf}
    rvals.update({'current_state': BitVecVal(0, 64), 'stack': ListModel([]), 'captured': B.MapM([]), 'started_at': BitVec('started', 64), 'deadline': none(), 'event_time_started_at': none(),
                  'event_time_deadline': none(), 'partition_key': none(), 'invalidated': BoolVal(False), 'pending_negations': ListModel([]), 'and_state': none(), 'kleene_capture': none()})
    rvals.update(kw)
    return [rvals[f] for f in rf]


def job_step(spec):
    """('step', entry, has_kc, filt, op, postponed, tier)"""
    _, entry, has_kc, filt, op, postponed, tier = spec
    t0 = time.time()
    B.LIT_CLASSES = ['Int', 'Float', 'Str', 'Bool'] if tier == 'thorough' else ['Int', 'Str']
    src = open(mirdump.crate_dir('runtime') + '/src/sase.rs').read()
    # the enumeration (reached when the event completes the run through the next state) is its own target: cut here
    ex = mk_exec(src, extra=[(r'^(?:sase::)?enumerate_with_filter$', lambda ex, st, callee, args: ListModel([]))])
    sf, rf, nf, mf = structs(src)
    classes = ['Int', 'Float', 'Str', 'Bool', 'Null'] if tier == 'thorough' else ['Int', 'Str', 'Null']
    cons = []
    event, ety, c = B.mk_event('e', classes); cons.append(c)
    old_ev, _, c = B.mk_event('old', classes); cons.append(c)          # what the run already holds: the entry on the stack / in the capture
    has_ty = z3.Bool('k_has_type'); kty = BitVec('k_type', 16); has_alias = z3.Bool('k_has_alias'); kal = BitVec('k_alias', 16)
    eps = z3.Bool('k_eps')
    if filt == 'none': pred_opt = none()
    else:
        pv_, c = B.predicate('lit', op, src); cons.append(c); pred_opt = some(pv_)
    post_opt = some(Opaque('postponed predicate')) if postponed else none()
    kleene = dict(event_type=opt(has_ty, V.StrTok(kty)), predicate=pred_opt, alias=opt(has_alias, V.StrTok(kal)), self_loop=BoolVal(True),
                  postponed_predicate=post_opt, has_epsilon_to_accept=eps)
    nxt_accept = z3.Bool('n_accept'); nty = BitVec('n_type', 16)
    nxt = dict(event_type=some(V.StrTok(nty)), state_type=If(nxt_accept, BitVecVal(B.STATE_TYPES.index('Accept'), 64), BitVecVal(B.STATE_TYPES.index('Normal'), 64)))
    if entry == 'loop':
        states = [mk_state(sf, 0, 'Kleene', transitions=ListModel([BitVecVal(1, 64)]), **kleene), mk_state(sf, 1, nxt.pop('state_type'), **nxt)]
        kstate = 0
    else:
        states = [mk_state(sf, 0, 'Normal', transitions=ListModel([BitVecVal(1, 64)])), mk_state(sf, 1, 'Kleene', transitions=ListModel([]), **kleene)]
        kstate = 1
    nfa = [{'states': ListModel(states), 'start_state': BitVecVal(0, 64), 'accept_states': ListModel([])}[f] for f in nf]
    kcount = BitVec('kcount', 32); next_var = BitVec('kc_next_var', 32); needs_zdd = z3.Bool('kc_needs_zdd')
    max_events = BitVec('max_events', 32); max_results = BitVec('max_results', 64)
    cons += [UGE(max_events, 1), ULE(kcount, max_events)]
    old_alias = opt(has_alias, V.StrTok(kal))
    if has_kc:
        kc = [Opaque('arena'), Opaque('handle'), ListModel([old_ev]), ListModel([old_alias]), next_var, (some(Opaque('deferred predicate')) if postponed else none()), needs_zdd]
        kc_opt = some(kc); cons.append(next_var == kcount); cons.append(UGE(kcount, 1))
        # a state that reaches Accept by epsilon never creates a capture (obligation `sync: ... only when Accept is reachable by epsilon` and its
        # converse below keep this inductive for patterns with one Kleene state, the scope of the property)
        cons.append(Not(eps))
    else:
        kc_opt = none()
        if entry == 'enter' or True: pass
        if entry == 'enter': cons.append(kcount == 0)
        else: cons.append(eps)                      # in the Kleene state a capture is missing only when the state reaches Accept by epsilon (it is created on entry otherwise)
    old_entry = [old_ev, old_alias, BitVec('old_ts', 64)]
    captured = B.MapM([[V.StrTok(BitVec('cap_alias', 16)), old_ev]])
    run = mk_run(rf, stack=ListModel([old_entry]), captured=captured, kleene_capture=kc_opt)
    sv = V.variants().get('SelectionStrategy')
    strategy = Enum('SelectionStrategy', BitVecVal(0, 64), {sv[0]: []})
    cell = [run]
    st0 = State(roots={'cell': cell, 'zdd_calls': []}); st0.path.assume(And(*cons))
    res = ex.run(find(r'^(?:sase::)?advance_run_shared$'), [box(nfa), strategy, Ptr(cell, 0), event, [max_events, max_results], BitVec('now', 64)], st=st0)
    P = Prover()
    for v in discharge(ex, res, None, timeout_ms=30000):
        P.verdicts.append({'name': v.name, 'status': v.status, 'secs': v.secs, 'kind': v.kind})
    xp, xv = B.FIELDS['e']
    accepts = And(Or(Not(has_ty), kty == ety), BoolVal(True) if filt == 'none' else And(xp, B.sase_cmp(xv, B.PRED_INFO['lit'], op)))
    def wit(m):
        g = lambda e: m.eval(e, True)
        return {'entry': entry, 'capture': bool(has_kc), 'postponed': bool(postponed), 'epsilon_to_accept': bool(z3.is_true(g(eps))), 'max_events': g(max_events).as_long(), 'kcount': g(kcount).as_long(),
                'filter': filt, 'op': op}
    for r in res:
        if r.status != 'return': continue
        pc = list(r.path.pc)
        runf = r.st.roots['cell'][0]
        def fld(n): return deref(runf[rf.index(n)])
        ret = r.ret
        rd = z3.simplify(ret.disc)
        if not z3.is_bv_value(rd): raise Unsupported('symbolic result discriminant')
        kind = B.RESULTS[rd.as_long()]
        cur = z3.simplify(fld('current_state'))
        if not z3.is_bv_value(cur): raise Unsupported('symbolic current_state')
        in_kleene = cur.as_long() == kstate
        stack = fld('stack'); caps = fld('captured')
        if kind == 'Complete':
            mres = ret.fields['Complete'][0]; stack = deref(mres[mf.index('stack')]); caps = deref(mres[mf.index('captured')])
        tags = [B.ev_tag(x[0]) for x in stack.items]
        dstack = len(tags) - 1
        grew = dstack == 1 and in_kleene and (entry == 'loop' or True)
        dk = 1 if (dstack == 1 and in_kleene) else 0
        calls = r.st.roots.get('zdd_calls', [])
        kc_after = fld('kleene_capture')
        P.prove(pc, BoolVal(dstack in (0, 1) and tags[:1] == ['#old'] and (dstack == 0 or tags[1] == '#e')), 'sync: the stack keeps its entries and grows by at most this event', wit)
        P.prove(pc, ULE(ZeroExt(32, kcount) + dk, ZeroExt(32, max_events)), 'cap: the number of Kleene events the run keeps stays within max_kleene_events', wit)
        if entry == 'loop' or in_kleene:
            P.prove(pc, Implies(And(accepts, ULT(kcount, max_events)) if entry == 'loop' else BoolVal(dk == 1), BoolVal(dk == 1)), 'keep: an event the Kleene state accepts below the cap is accumulated', wit)
        if dk == 1:
            P.prove(pc, accepts, 'sync: only an event of the state\'s type that satisfies its filter is accumulated', wit)
            al = stack.items[1][1]; pay = deref((al.fields.get('Some') or [None])[0])
            same_alias = (pay.tok == kal) if isinstance(pay, V.StrTok) else BoolVal(False)
            P.prove(pc, And(al.disc == If(has_alias, BitVecVal(1, 64), BitVecVal(0, 64)), Implies(has_alias, same_alias)), 'sync: the new entry carries the Kleene state\'s alias', wit)
            ents = caps.entries
            bound = Or(*[And(B.tok(e[0]) == kal, BoolVal(B.ev_tag(e[1]) == '#e')) for e in ents]) if ents else BoolVal(False)
            P.prove(pc, Implies(has_alias, bound), 'sync: the alias is bound to the newest accumulated event', wit)
            P.prove(pc, If(eps, BoolVal(kind == 'CompleteAndContinue'), BoolVal(kind == 'Continue')), 'kind: CompleteAndContinue exactly when Accept is reachable by epsilon, Continue otherwise', wit)
            if kind == 'CompleteAndContinue':
                mres = ret.fields['CompleteAndContinue'][0]; mstack = deref(mres[mf.index('stack')])
                P.prove(pc, BoolVal([B.ev_tag(x[0]) for x in mstack.items] == tags), 'kind: the emitted match carries every accumulated event', wit)
        # the capture after the step
        some_after = z3.simplify(kc_after.disc == 1) if isinstance(kc_after, Enum) else None
        if some_after is None or not (z3.is_true(some_after) or z3.is_false(some_after)): raise Unsupported('symbolic capture presence after the step')
        if z3.is_true(some_after):
            kca = kc_after.fields['Some'][0]
            evs = deref(kca[KC_FIELDS.index('events')]); als = deref(kca[KC_FIELDS.index('aliases')]); nv = kca[KC_FIELDS.index('next_var')]; nz = kca[KC_FIELDS.index('needs_zdd')]
            base = 1 if has_kc else 0
            etags = [B.ev_tag(x) for x in evs.items]
            P.prove(pc, And(BoolVal(len(evs.items) - base == dk and len(als.items) - base == dk), nv == (kcount + dk)), 'sync: the capture\'s events, aliases and next_var grow together with the stack', wit)
            if dk == 1:
                P.prove(pc, BoolVal(etags[-1:] == ['#e']), 'sync: the capture stores this event', wit)
                want_zdd = nz
                P.prove(pc, If(want_zdd, BoolVal(len(calls) == 1), BoolVal(len(calls) == 0)), 'zdd: product_with_optional is applied exactly once iff the capture needs the ZDD', wit)
                if len(calls) == 1:
                    h, var = calls[0]
                    P.prove(pc, And(BoolVal(isinstance(h, Opaque) and h.tag in ('handle', 'base')), var == kcount), 'zdd: on the previous handle, with the variable index of this event', wit)
                if not has_kc:
                    P.prove(pc, nz == BoolVal(bool(postponed)), 'zdd: a new capture needs the ZDD exactly when the state has a postponed predicate', wit)
            else:
                P.prove(pc, BoolVal(len(calls) == 0), 'zdd: untouched when nothing is accumulated', wit)
        else:
            P.prove(pc, BoolVal(not has_kc), 'sync: an existing capture is never dropped by the step', wit)
            if dk == 1:
                P.prove(pc, eps, 'sync: an accumulated event without a capture only when Accept is reachable by epsilon', wit)
        if dk == 1 and not has_kc:
            P.prove(pc, eps == BoolVal(not z3.is_true(some_after)), 'sync: a capture is created on accumulation exactly when Accept is not reachable by epsilon', wit)
    return {'spec': [str(x) for x in spec], 'verdicts': P.verdicts, 'paths': len(res), 'queries': ex.queries + P.q, 'solver_s': ex.solver_s + P.s, 'inconclusive': list(ex.inconclusive), 'wall_s': time.time() - t0}


def mk_combo_entry(tag, alias_tok, classes, cons):
    ev, _, c = B.mk_event(tag, classes); cons.append(c)
    return [ev, some(V.StrTok(alias_tok)), BitVec('ts_entry_' + tag, 64)]


def job_enum(spec):
    """('enum', lens, with_pred, tier): enumerate_with_filter over an iteration of len(lens) combinations with lens[i] entries each"""
    _, lens, with_pred, tier = spec
    t0 = time.time()
    src = open(mirdump.crate_dir('runtime') + '/src/sase.rs').read()
    sf, rf, nf, mf = structs(src)
    calls = []
    def h_combos(ex, st, callee, args):
        return containers.Iter(ListModel([ListModel([list(e) for e in c]) for c in st.roots['combos']]), by_value=True)
    def h_deferred(ex, st, callee, args):
        evs = deref(args[1])
        tags = tuple(B.ev_tag(x) for x in evs.items)
        st.roots['deferred_calls'].append(tags)
        return z3.Bool('adm_' + '_'.join(t.strip('#') for t in tags))
    ex = mk_exec(src, extra=[(r'^(?:sase::)?(?:<impl at [^>]*>|KleeneCapture)::iter_combinations$', h_combos), (r'^(?:sase::)?evaluate_deferred_predicate$', h_deferred)])
    classes = ['Int', 'Null']
    cons = []
    kal = BitVec('k_alias', 16); cap_alias = BitVec('cap_alias', 16)
    cons.append(kal != cap_alias)
    combos = [[mk_combo_entry('c%de%d' % (i, j), kal, classes, cons) for j in range(n)] for i, n in enumerate(lens)]
    a_ev, _, c = B.mk_event('a', classes); cons.append(c)
    a_entry = [a_ev, some(V.StrTok(cap_alias)), BitVec('a_ts', 64)]
    max_results = BitVec('max_results', 64); cons.append(UGE(max_results, 1))
    pred = some(Opaque('deferred predicate')) if with_pred else none()
    kc = [Opaque('arena'), Opaque('handle'), ListModel([]), ListModel([]), BitVec('kc_next_var', 32), pred, BoolVal(bool(with_pred))]
    run = mk_run(rf, stack=ListModel([a_entry]), captured=B.MapM([[V.StrTok(cap_alias), a_ev]]), kleene_capture=some(kc))
    cell = [run]
    st0 = State(roots={'cell': cell, 'combos': combos, 'deferred_calls': []}); st0.path.assume(And(*cons))
    res = ex.run(find(r'^(?:sase::)?enumerate_with_filter$'), [Ptr(cell, 0), max_results], st=st0)
    P = Prover()
    for v in discharge(ex, res, None, timeout_ms=30000):
        P.verdicts.append({'name': v.name, 'status': v.status, 'secs': v.secs, 'kind': v.kind})
    ctags = [tuple('#c%de%d' % (i, j) for j in range(n)) for i, n in enumerate(lens)]
    adm = [z3.Bool('adm_' + '_'.join(t.strip('#') for t in tg)) if (with_pred and tg) else BoolVal(True) for tg in ctags]
    valid = [And(BoolVal(len(tg) > 0), adm[i]) for i, tg in enumerate(ctags)]
    def wit(m):
        return {'lens': list(lens), 'with_predicate': bool(with_pred), 'max_results': m.eval(max_results, True).as_long(), 'admissible': [bool(z3.is_true(m.eval(a, True))) for a in adm]}
    for r in res:
        if r.status != 'return': continue
        pc = list(r.path.pc)
        out = deref(r.ret)
        m = len(out.items)
        P.prove(pc, ULE(BitVecVal(m, 64), max_results), 'count: at most max_enumeration_results matches per completion', wit)
        idx = []
        for j, mres in enumerate(out.items):
            caps = deref(mres[mf.index('captured')]); stack = deref(mres[mf.index('stack')])
            last = [B.ev_tag(e[1]) for e in caps.entries]
            # the combination behind this match: the Kleene alias is bound to its last member
            hit = [i for i, tg in enumerate(ctags) if tg and tg[-1] in last]
            if len(hit) != 1:
                P.prove(pc, BoolVal(False), 'filter: every match stands for exactly one combination of the iteration', wit); idx.append(None); continue
            i = hit[0]; idx.append(i)
            P.prove(pc, valid[i], 'filter: a match is emitted only for a non-empty combination that satisfies the deferred predicate', wit)
            bound = Or(*[And(B.tok(e[0]) == kal, BoolVal(B.ev_tag(e[1]) == ctags[i][-1])) for e in caps.entries])
            kept = Or(*[And(B.tok(e[0]) == cap_alias, BoolVal(B.ev_tag(e[1]) == '#a')) for e in caps.entries])
            P.prove(pc, And(bound, kept, BoolVal(len(caps.entries) == 2)), 'filter: the match binds the Kleene alias to the combination\'s last member and keeps the earlier captures', wit)
            P.prove(pc, BoolVal([B.ev_tag(x[0]) for x in stack.items] == ['#a']), 'filter: the match carries the run\'s stack', wit)
        good = [i for i in idx if i is not None]
        P.prove(pc, BoolVal(good == sorted(set(good)) and len(good) == m), 'distinct: the matches stand for pairwise distinct combinations, in iteration order', wit)
        lastidx = good[-1] if good else -1
        for i in range(len(ctags)):
            if i in good: continue
            P.prove(pc, Implies(valid[i], And(max_results == m, BoolVal(i > lastidx))), 'complete: a non-empty admissible combination is skipped only after the cap is reached', wit)
        if with_pred:
            dc = r.st.roots['deferred_calls']
            P.prove(pc, BoolVal(all(t in ctags for t in dc)), 'filter: the deferred predicate is evaluated on the combination\'s members in order', wit)
        runf = r.st.roots['cell'][0]
        P.prove(pc, deref(runf[rf.index('kleene_capture')]).disc == 0, 'the capture is consumed by the enumeration', wit)
    return {'spec': [str(x) for x in spec], 'verdicts': P.verdicts, 'paths': len(res), 'queries': ex.queries + P.q, 'solver_s': ex.solver_s + P.s, 'inconclusive': list(ex.inconclusive), 'wall_s': time.time() - t0}


def job_complete(spec):
    """('complete', kc_kind, nstack): complete_run with no capture / a capture without / with a deferred predicate"""
    _, kc_kind, nstack = spec
    t0 = time.time()
    src = open(mirdump.crate_dir('runtime') + '/src/sase.rs').read()
    sf, rf, nf, mf = structs(src)
    def h_enum(ex, st, callee, args):
        st.roots['enum_calls'].append(args[1])
        return ListModel([], 'enumerated')
    ex = mk_exec(src, extra=[(r'^(?:sase::)?enumerate_with_filter$', h_enum)])
    cons = []
    kal = BitVec('k_alias', 16)
    entries = [mk_combo_entry('s%d' % i, kal, ['Int', 'Null'], cons) for i in range(nstack)]
    max_events = BitVec('max_events', 32); max_results = BitVec('max_results', 64)
    if kc_kind == 'none': kc_opt = none()
    else:
        kc_opt = some([Opaque('arena'), Opaque('handle'), ListModel([e[0] for e in entries[1:]]), ListModel([e[1] for e in entries[1:]]), BitVec('kc_next_var', 32),
                       (some(Opaque('deferred predicate')) if kc_kind == 'deferred' else none()), z3.Bool('kc_needs_zdd')])
    caps = B.MapM([[V.StrTok(kal), entries[-1][0]]] if entries else [])
    run = mk_run(rf, stack=ListModel(entries), captured=caps, kleene_capture=kc_opt)
    cell = [run]
    st0 = State(roots={'cell': cell, 'enum_calls': []}); st0.path.assume(And(*cons)) if cons else None
    res = ex.run(find(r'^(?:sase::)?complete_run$'), [Ptr(cell, 0), [max_events, max_results]], st=st0)
    P = Prover()
    for v in discharge(ex, res, None, timeout_ms=30000):
        P.verdicts.append({'name': v.name, 'status': v.status, 'secs': v.secs, 'kind': v.kind})
    want = ['#s%d' % i for i in range(nstack)]
    for r in res:
        if r.status != 'return': continue
        pc = list(r.path.pc); ret = r.ret
        kind = B.RESULTS[z3.simplify(ret.disc).as_long()]
        if kc_kind == 'deferred':
            ec = r.st.roots['enum_calls']
            ok = kind == 'CompleteMulti' and len(ec) == 1 and isinstance(deref(ret.fields['CompleteMulti'][0]), ListModel) and deref(ret.fields['CompleteMulti'][0]).kind == 'enumerated'
            P.prove(pc, And(BoolVal(ok), (ec[0] == max_results) if ec else BoolVal(False)), 'complete: with a deferred predicate the completion emits exactly the enumeration, under max_enumeration_results')
        else:
            ok = kind == 'Complete'
            P.prove(pc, BoolVal(ok), 'complete: without a deferred predicate the completion is one match')
            if ok:
                mres = ret.fields['Complete'][0]; stack = deref(mres[mf.index('stack')]); cp = deref(mres[mf.index('captured')])
                P.prove(pc, BoolVal([B.ev_tag(x[0]) for x in stack.items] == want), 'complete: the match carries every accumulated event, in order')
                P.prove(pc, BoolVal([B.ev_tag(e[1]) for e in cp.entries] == want[-1:]), 'complete: the match carries the run\'s captures')
    return {'spec': [str(x) for x in spec], 'verdicts': P.verdicts, 'paths': len(res), 'queries': ex.queries + P.q, 'solver_s': ex.solver_s + P.s, 'inconclusive': list(ex.inconclusive), 'wall_s': time.time() - t0}


def job_deferred(spec):
    """('deferred', n, op, tier): evaluate_deferred_predicate(`x OP alias.x`, n events, captures) against the independent reading"""
    _, n, op, tier = spec
    t0 = time.time()
    B.LIT_CLASSES = ['Int', 'Float', 'Str', 'Bool'] if tier == 'thorough' else ['Int', 'Str']
    src = open(mirdump.crate_dir('runtime') + '/src/sase.rs').read()
    ex = mk_exec(src)
    classes = ['Int', 'Float', 'Str', 'Bool', 'Null'] if tier == 'thorough' else ['Int', 'Str', 'Null']
    cons = []
    evs = []
    for i in range(n):
        e, _, c = B.mk_event('b%d' % i, classes); cons.append(c); evs.append(e)
    cap_ev, _, c = B.mk_event('cap', classes); cons.append(c)
    cap_alias = BitVec('cap_alias', 16)
    pv_, c = B.predicate('ref', op, src); cons.append(c)
    st0 = State(); st0.path.assume(And(*cons))
    res = ex.run(find(r'^(?:sase::)?evaluate_deferred_predicate$'), [box(pv_), box(ListModel(evs)), box(B.MapM([[V.StrTok(cap_alias), cap_ev]]))], st=st0)
    P = Prover()
    for v in discharge(ex, res, None, timeout_ms=30000):
        P.verdicts.append({'name': v.name, 'status': v.status, 'secs': v.secs, 'kind': v.kind})
    pairs = []
    for i in range(1, n):
        (pp, pv), (cp, cv) = B.FIELDS['b%d' % (i - 1)], B.FIELDS['b%d' % i]
        pairs.append(And(cp, pp, B.sase_cmp(cv, pv, op)))
    want = And(*pairs) if pairs else BoolVal(True)
    def wit(m): return {'n': n, 'op': op, 'fields_present': [bool(z3.is_true(m.eval(B.FIELDS['b%d' % i][0], True))) for i in range(n)]}
    for r in res:
        if r.status != 'return': continue
        P.prove(list(r.path.pc), r.ret == want, 'deferred: true iff every consecutive pair satisfies the comparison with the earlier member as the referenced event', wit)
    return {'spec': [str(x) for x in spec], 'verdicts': P.verdicts, 'paths': len(res), 'queries': ex.queries + P.q, 'solver_s': ex.solver_s + P.s, 'inconclusive': list(ex.inconclusive), 'wall_s': time.time() - t0}


JOBS = {'step': job_step, 'enum': job_enum, 'complete': job_complete, 'deferred': job_deferred}


TARGET = {'step': 'advance_run_shared[Kleene]', 'enum': 'enumerate_with_filter', 'complete': 'complete_run', 'deferred': 'evaluate_deferred_predicate'}


def run(ctx):
    import itertools
    from concurrent.futures import ProcessPoolExecutor
    import multiprocessing as mp
    from vlib import replay
    from vlib.driver import Finding
    load(ctx)
    ctx.engines.append('M (MIR symbolic execution -> Z3)')
    th = ctx.tier == 'thorough'
    kmax = 4 if th else 3
    ctx.bounds = {'step': 'a run in a Kleene state with a self loop (or in the Normal state before it), one entry on the stack and in the capture standing for the `kcount` Kleene events kept so far '
                          '(kcount, next_var, max_kleene_events >= 1 and max_enumeration_results fully symbolic), symbolic has_epsilon_to_accept / needs_zdd / expected type / alias, '
                          'step filter absent or `x OP literal`, postponed predicate absent or present (opaque)',
                  'complete': 'stacks of 1..%d entries; no capture, a capture without and with a deferred predicate' % kmax,
                  'enum': 'every iteration of 0..%d combinations with 0..2 members each; deferred predicate absent, or present with one symbolic truth value per combination; max_enumeration_results symbolic >= 1' % kmax,
                  'deferred': '0..%d events with one symbolic field each (missing / Int / Str / Null%s), predicate `x OP alias.x` for the six comparisons' % (kmax, '; also Float / Bool up to 2 events' if th else ''),
                  'outside': 'which subsets the ZDD holds and that iteration yields each once (C06 / C07, claimed separately), caps of 0, patterns with several Kleene states or Kleene inside AND / negation, '
                             'the NFA compiler (which predicates are postponed, has_epsilon_to_accept), whole-stream completeness of the run set (C02), the VPL front end'}
    ctx.assumptions += ['the ZDD arena is opaque here: product_with_optional is cut and its calls are recorded', 'KleeneCapture::iter_combinations is an arbitrary finite iteration of combinations (what it holds is C06 / C07)',
                        'Event::get returns the modelled field whatever its name (one field per event)', 'strings are identity tokens with one uninterpreted total order', 'capture map as an entry list',
                        'invariant assumed and re-established by the step: kcount <= max_events; capture present => next_var == kcount; a state that reaches Accept by epsilon has no capture']
    tasks = []
    for entry, has_kc in (('loop', True), ('loop', False), ('enter', False)):
        for filt in ('none', 'lit'):
            for op in ((OPS if th else ['Eq', 'Lt']) if filt == 'lit' else ['Eq']):
                for postponed in (False, True):
                    tasks.append(('step', entry, has_kc, filt, op, postponed, ctx.tier))
    for kc_kind in ('none', 'plain', 'deferred'):
        for n in range(1, kmax + 1): tasks.append(('complete', kc_kind, n))
    for k in range(0, kmax + 1):
        for lens in itertools.product((0, 1, 2), repeat=k):
            for with_pred in (False, True): tasks.append(('enum', lens, with_pred, ctx.tier))
    for n in range(0, kmax + 1):
        # Float / Bool fields (thorough) up to one consecutive pair; longer chains on the Int / Str / Null classes (the pairs are evaluated
        # independently, and three epsilon-comparisons in one formula exceed the solver cap)
        for op in OPS: tasks.append(('deferred', n, op, ctx.tier if n <= 2 else 'quick'))
    with ProcessPoolExecutor(max_workers=14, mp_context=mp.get_context('fork')) as pool:
        res = list(pool.map(_worker, tasks))
    binp = None; seen = set()
    for r in res:
        tgt = TARGET[r['spec'][0]]; cls = ' '.join(r['spec'][1:])
        if r.get('error'):
            ctx.inconclusive.append('%s (%s): %s' % (tgt, cls, r['error'])); continue
        for why in sorted(set(r['inconclusive'])): ctx.inconclusive.append('%s (%s): %s' % (tgt, cls, why))
        ctx.queries += r['queries']; ctx.solver_s += r['solver_s']
        ctx.add_obligations(tgt, r['verdicts'], cls=cls)
        ctx.samples.append({'class': tgt + ' ' + cls, 'paths': r['paths']})
        for v in r['verdicts']:
            if v['status'] != 'violated': continue
            w = v.get('witness') or {}
            group = v['name'].split(':')[0]
            if r['spec'][0] == 'step':
                # keyed by role: which obligation, and whether the state reaches Accept by epsilon (pattern ending in `all`) / has a capture
                key = 'kleene-step:%s:epsilon_to_accept=%s:capture=%s' % (group, w.get('epsilon_to_accept'), w.get('capture'))
                mode = ['events', 'trailing' if w.get('epsilon_to_accept') else 'inner'] if group == 'cap' else ['exact', 'inner']
            else:
                key = '%s:%s' % (tgt, group)
                mode = ['results', 'inner'] if group == 'count' else ['exact', 'inner']
            if key in seen: continue
            seen.add(key)
            if binp is None: binp = replay.build('rt')
            ctx.findings.append(Finding(key, '%s %s: %s (witness %s)' % (tgt, cls, v['name'], w), [binp, 'kleene'] + mode, w))
    ctx.models += sorted(models.USED)


def _worker(spec):
    try:
        return JOBS[spec[0]](spec)
    except Exception as e:
        import traceback; traceback.print_exc()
        return {'spec': [str(x) for x in spec], 'error': '%s: %s' % (type(e).__name__, e), 'verdicts': [], 'paths': 0, 'queries': 0, 'solver_s': 0, 'inconclusive': []}
