"""Shared model for the window obligations (C12, C13) on engine M.

An event is a cell holding the Event struct [event_type, timestamp, data] (field order read from event.rs); a SharedEvent
(Arc<Event>) is a pointer to that cell, so identity of events is identity of cells.  chrono's DateTime<Utc> and TimeDelta are
64-bit signed nanosecond counts; chrono's overflow panics become obligations under the stated ranges.
"""
import re

import z3
from z3 import BitVec, BitVecVal, And, Or, Not, If, BoolVal, BVAddNoOverflow, BVAddNoUnderflow, BVSubNoOverflow, BVSubNoUnderflow

from vlib import mirdump, models, containers
from vlib.symex import Exec, Enum, Ptr, Opaque, box, Unsupported, State
from vlib.containers import ListModel
from props.zddmodel import struct_fields
from props import valmodel as V

T_MAX = 1 << 61          # |timestamps| and watermarks below 2^61 ns (~73 years), durations below 2^50 ns (~13 days)
D_MAX = 1 << 50


def event_fields():
    src = open(mirdump.crate_dir('runtime') + '/src/event.rs').read()
    return struct_fields(src, 'Event') or ['event_type', 'timestamp', 'data']


def mk_event(tag, ts):
    f = event_fields()
    vals = {'event_type': Opaque('type:' + tag), 'timestamp': ts, 'data': Opaque('data:' + tag)}
    cell = [[vals[x] for x in f]]
    cell[0].append('#' + tag)        # identity tag (never read by MIR: beyond the declared fields)
    return Ptr(cell, 0)


def ev_ts(arc):
    e = arc.get(); return e[event_fields().index('timestamp')]


def ev_tag(arc):
    return arc.get()[-1]


def _dt_add(sign):
    def h(ex, st, callee, args):
        a, d = ex.deref(args[0]), ex.deref(args[1])
        ok = And(BVAddNoOverflow(a, d, True), BVAddNoUnderflow(a, d)) if sign > 0 else And(BVSubNoOverflow(a, d), BVSubNoUnderflow(a, d, True))
        st.path.oblige('no panic: DateTime %s TimeDelta overflowed' % ('+' if sign > 0 else '-'), ok, callee); st.path.assume(ok)
        return a + d if sign > 0 else a - d
    return h


def _dt_diff(ex, st, callee, args):
    a, b = ex.deref(args[0]), ex.deref(args[1])
    return a - b


def _cmp(ex, st, callee, args):
    a, b = ex.deref(args[0]), ex.deref(args[1])
    op = callee.rsplit('::', 1)[1]
    if op == 'partial_cmp' or op == 'cmp':
        o = Enum('Ordering', If(a < b, BitVecVal(-1, 64), If(a == b, BitVecVal(0, 64), BitVecVal(1, 64))), {'Less': [], 'Equal': [], 'Greater': []})
        return o if op == 'cmp' else models.some(o)
    return {'lt': a < b, 'le': a <= b, 'gt': a > b, 'ge': a >= b, 'eq': a == b, 'ne': a != b}[op]


def _arc_deref(ex, st, callee, args):
    p = args[0]
    v = p.get() if isinstance(p, Ptr) else p
    if isinstance(v, Ptr): return v
    raise Unsupported('Arc deref of %r' % (v,))


def _arc_clone(ex, st, callee, args):
    return _arc_deref(ex, st, callee, args)


def _mem_take(ex, st, callee, args):
    p = args[0]; v = p.get()
    if isinstance(v, ListModel):
        p.set(ListModel([], v.kind)); return v
    raise Unsupported('mem::take of %r' % (v,))


def _ts_millis(ex, st, callee, args):
    return ex.fresh('millis', 64)


def _map_empty(ex, st, callee, args):
    return ex.fresh('columns_empty', 'bool')


_DT = r'(?:chrono::)?DateTime<(?:chrono::)?Utc>'
_TD = r'(?:chrono::)?(?:TimeDelta|Duration)'
HOOKS = [
    (r'^<%s as (?:std::ops::)?Add<%s>>::add$' % (_DT, _TD), _dt_add(+1)),
    (r'^<%s as (?:std::ops::)?Sub<%s>>::sub$' % (_DT, _TD), _dt_add(-1)),
    (r'^<%s as (?:std::ops::)?Sub(?:<%s>)?>::sub$' % (_DT, _DT), _dt_diff),
    (r'^<&?%s as (?:std::ops::)?Sub<&?%s>>::sub$' % (_DT, _DT), _dt_diff),
    (r'^<&*(?:%s|%s) as (?:std::cmp::)?(?:PartialOrd|PartialEq|Ord)(?:<.*>)?>::(lt|le|gt|ge|eq|ne|partial_cmp|cmp)$' % (_DT, _TD), _cmp),
    (r'^<Arc<.*Event> as (?:std::ops::)?Deref>::deref$|^<Arc<.*Event> as AsRef<.*>>::as_ref$', _arc_deref),
    (r'^<Arc<.*Event> as Clone>::clone$|^Arc::<.*Event>::clone$', _arc_clone),
    (r'^std::mem::take::<Vec<.*>>$|^std::mem::take::<VecDeque<.*>>$', _mem_take),
    (r'^(?:chrono::)?DateTime::<(?:chrono::)?Utc>::timestamp_millis$', _ts_millis),
    (r'^HashMap::<Arc<str>, .*Column.*>::is_empty$', _map_empty),
    (r'^HashMap::<Arc<str>, .*Column.*>::clear$', lambda ex, st, callee, args: []),
]


class WinExec(Exec):
    def __init__(self, mods, extra=(), **kw):
        hooks = [(re.compile(p) if isinstance(p, str) else p, f) for p, f in list(extra) + HOOKS] + containers.container_hooks() + models.generic_hooks()
        super().__init__(mods, hooks, variants=V.variants(), **kw)


def columnar(events):
    """ColumnarBuffer value with the given events (field order from columnar.rs)"""
    src = open(mirdump.crate_dir('runtime') + '/src/columnar.rs').read()
    f = struct_fields(src, 'ColumnarBuffer') or ['events', 'timestamps', 'columns']
    vals = {'events': ListModel(list(events)), 'timestamps': ListModel([BitVec('tsms%d' % i, 64) for i in range(len(events))]), 'columns': Opaque('columns')}
    return [vals[x] for x in f], f.index('events')


def struct_of(name, vals, file='window.rs'):
    src = open(mirdump.crate_dir('runtime') + '/src/' + file).read()
    f = struct_fields(src, name)
    if f is None or set(f) != set(vals): raise Unsupported('struct %s fields changed: %s' % (name, f))
    return [vals[x] for x in f], f


def opt(cond, v):
    return Enum('Option', If(cond, BitVecVal(1, 64), BitVecVal(0, 64)), {'Some': [v], 'None': []})


def same_seq(got, want):
    """python-level: two lists of Arc pointers denote the same events in the same order"""
    return len(got) == len(want) and all(ev_tag(a) == ev_tag(b) for a, b in zip(got, want))


def arcs(lst):
    out = []
    for x in lst.items:
        while isinstance(x, Ptr) and isinstance(x.get(), Ptr): x = x.get()
        out.append(x)
    return out


def time_range(*ts):
    return And(*[And(t >= 0, t < T_MAX) for t in ts])
