"""C04 (pattern side) — a `.not(...)` clause on a partitioned sequence only affects runs of the event's own partition (engine M).

SaseEngine::check_global_negations is executed from its MIR on an engine partitioned by a field, with one negation (forbidden type symbolic,
predicate absent or `x OP literal`), two partitions under distinct symbolic keys with one run each, and an event whose partition field is missing
or maps to an arbitrary key token (one of the two keys, the empty key, or another one).
Obligations:
  isolate   a run stored under a key different from the event's partition key keeps its `invalidated` flag
  apply     a run of the event's own partition is invalidated iff the event has the forbidden type and satisfies the predicate (and was not
            already invalidated); unpartitioned engines: every run is checked
This is the pattern half of "events with different values of the partition field never influence the same match".
"""
import re
import time

import z3
from z3 import BitVec, BitVecVal, And, Or, Not, If, BoolVal, Implies, Bool

from vlib import mirdump, models, containers, maps
from vlib.symex import Ptr, Opaque, box, State, Enum, Exec, Unsupported, Fork, discharge
from vlib.containers import ListModel
from vlib.models import some, none
from props.zddmodel import struct_fields
from props import valmodel as V
from props import c01 as B

EMPTY_KEY = BitVecVal(0, 16)


def deref(v):
    while isinstance(v, Ptr): v = v.get()
    return v


def job(spec):
    """('neg', partitioned, filt, op, present)"""
    _, partitioned, filt, op, present = spec
    t0 = time.time()
    if B._MODS is None: B.load()
    src = open(mirdump.crate_dir('runtime') + '/src/sase.rs').read()
    rf = struct_fields(src, 'Run'); gf = struct_fields(src, 'SaseEngine'); nf = struct_fields(src, 'GlobalNegation')
    if not rf or not gf or nf != ['event_type', 'predicate'] or not {'runs', 'partitioned_runs', 'partition_by', 'global_negations'} <= set(gf):
        raise Unsupported('sase.rs structs changed')
    B.LIT_CLASSES = ['Int', 'Str']
    ekey = BitVec('event_key', 16)
    extra = [(r'^(?:varpulis_core::)?(?:value::)?Value::to_partition_key$', lambda ex, st, callee, args: Opaque('cow-key')),
             (r'^(?:std::borrow::)?Cow::<\'_, str>::into_owned$', lambda ex, st, callee, args: V.StrTok(ekey)),
             (r'^(?:std::option::)?Option::<(?:std::string::)?String>::unwrap_or_default$', lambda ex, st, callee, args: Fork([
                 (args[0].disc == 1, lambda ex, st, a: a[0].fields['Some'][0]), (args[0].disc != 1, lambda ex, st, a: V.StrTok(EMPTY_KEY))], args=[args[0]])),
             (r'^<(?:std::string::)?String as Default>::default$', lambda ex, st, callee, args: V.StrTok(EMPTY_KEY)),
             (r'^(?:std::string::)?String::as_str$|^<(?:std::string::)?String as (?:std::ops::)?Deref>::deref$', lambda ex, st, callee, args: args[0])]
    extra += maps.hooks(r'HashMap::<(?:std::string::)?String, Vec<(?:sase::)?Run>, FxBuildHasher>', {}, lambda t: V.StrTok(t))
    from props.c09 import str_hooks
    variants = dict(V.variants())
    hk = [(re.compile(p), f) for p, f in extra + B.hooks() + str_hooks() + B.std_hooks()] + containers.container_hooks() + models.generic_hooks()
    ex = Exec(B._MODS, hk, variants=variants, loop_bound=12, step_budget=300000)
    cons = []
    event, ety, c = B.mk_event('e', ['Int', 'Str', 'Null']); cons.append(c)
    xp, xv = B.FIELDS['e']
    cons.append(xp == BoolVal(bool(present)))
    fty = BitVec('forbidden_type', 16)
    if filt == 'none': pred = none(); holds = BoolVal(True)
    else:
        pv_, c = B.predicate('lit', op, src); cons.append(c); pred = some(pv_)
        holds = And(xp, B.sase_cmp(xv, B.PRED_INFO['lit'], op))
    neg = [{'event_type': V.StrTok(fty), 'predicate': pred}[f] for f in nf]
    def mk_run(tag):
        vals = {f: Opaque('run.%s.%s' % (tag, f)) for f in rf}
        vals['invalidated'] = Bool('inv0_' + tag); vals['captured'] = B.MapM([])
        return [vals[f] for f in rf]
    tags = ['g', 'a', 'b']
    runs = {t: mk_run(t) for t in tags}
    k1, k2 = BitVec('key_a', 16), BitVec('key_b', 16); cons.append(k1 != k2)
    gvals = {f: Opaque('engine.' + f) for f in gf}
    gvals.update({'global_negations': ListModel([neg]), 'runs': ListModel([runs['g']] if not partitioned else []),
                  'partitioned_runs': maps.MapM([[V.StrTok(k1), ListModel([runs['a']])], [V.StrTok(k2), ListModel([runs['b']])]] if partitioned else []),
                  'partition_by': some(V.StrTok(BitVecVal(7, 16))) if partitioned else none()})
    engine = [gvals[f] for f in gf]
    cell = [engine]
    st0 = State(roots={'cell': cell, 'runs': runs}); st0.path.assume(And(*cons))
    fns = [x for x in B._MODS[0].funcs if re.search(r'^(?:sase::)?(?:<impl at [^>]*>|SaseEngine)::check_global_negations$', x)]
    if len(fns) != 1: raise Unsupported('check_global_negations: %s' % fns)
    res = ex.run(B._MODS[0].funcs[fns[0]], [Ptr(cell, 0), event], st=st0)
    verdicts = []; stats = {'q': 0, 's': 0.0}
    def prove(pc, cond, nm, wit):
        s = z3.Solver(); s.set('timeout', 60000); s.add(*pc); s.add(Not(cond))
        t = time.time(); rc = s.check(); dt = time.time() - t; stats['q'] += 1; stats['s'] += dt
        d = {'name': nm, 'status': 'proved' if rc == z3.unsat else ('violated' if rc == z3.sat else 'unknown'), 'secs': dt, 'kind': 'post'}
        if rc == z3.sat: d['witness'] = wit(s.model())
        verdicts.append(d)
    for v in discharge(ex, res, None, timeout_ms=30000):
        verdicts.append({'name': v.name, 'status': v.status, 'secs': v.secs, 'kind': v.kind})
    want_key = ekey if present else EMPTY_KEY
    hit = And(ety == fty, holds)
    def wit(m):
        g = lambda e: m.eval(e, True)
        return {'partitioned': bool(partitioned), 'filter': filt, 'op': op, 'field_present': bool(present), 'keys': [g(k1).as_long(), g(k2).as_long()], 'event_key': g(want_key).as_long(),
                'forbidden_type_matches': bool(z3.is_true(g(ety == fty)))}
    rix = rf.index('invalidated')
    for r in res:
        if r.status != 'return': continue
        pc = list(r.path.pc)
        rr = r.st.roots['runs']
        if partitioned:
            for t, k in (('a', k1), ('b', k2)):
                after = rr[t][rix]; before = Bool('inv0_' + t)
                prove(pc, Implies(k != want_key, after == before), 'isolate: a run of another partition keeps its invalidated flag', wit)
                prove(pc, Implies(k == want_key, after == Or(before, hit)), 'apply: a run of the event\'s partition is invalidated iff the event has the forbidden type and satisfies the predicate', wit)
        else:
            prove(pc, rr['g'][rix] == Or(Bool('inv0_g'), hit), 'apply: an unpartitioned run is invalidated iff the event has the forbidden type and satisfies the predicate', wit)
    return {'spec': [str(x) for x in spec], 'verdicts': verdicts, 'paths': len(res), 'queries': ex.queries + stats['q'], 'solver_s': ex.solver_s + stats['s'], 'inconclusive': list(ex.inconclusive), 'wall_s': time.time() - t0}


def _worker(spec):
    try:
        return job(spec)
    except Exception as e:
        import traceback; traceback.print_exc()
        return {'spec': [str(x) for x in spec], 'error': '%s: %s' % (type(e).__name__, e), 'verdicts': [], 'paths': 0, 'queries': 0, 'solver_s': 0, 'inconclusive': []}


def tasks(tier):
    out = []
    for partitioned in (True, False):
        for present in ((True, False) if partitioned else (True,)):
            out.append(('neg', partitioned, 'none', 'Eq', present))
            for op in (B.OPS if tier == 'thorough' else ['Eq', 'Lt']):
                out.append(('neg', partitioned, 'lit', op, present))
    return out
