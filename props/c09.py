"""C09 — a filter accepts the same events in `.where(...)` and as the filter of a sequence step (engine M, differential).

For the programs `x OP lit` and `not (x OP lit)` (OP over the six comparisons, lit an integer, float, string or boolean literal):
  stream side   MIR of eval_expr_with_functions on the expression; accepted iff it yields Some(Bool(true))
  pattern side  MIR of expr_to_sase_predicate (the translation) followed by MIR of eval_predicate / compare_values /
                values_equal / values_compare on the resulting Predicate
both against the SAME symbolic event: field x missing, or Int / Float / Str / Bool / Null with symbolic payload (strings are
identity tokens with an uninterpreted total order shared by both sides).  Obligation: both accept or both reject.
Disagreements are keyed by (negated?, operator, type of x, type of the literal).
"""
import time

import z3
from z3 import BitVec, BitVecVal, And, Or, Not, If, BoolVal, FP, Implies

from vlib import mirdump, symex, models, containers
from vlib.symex import Ptr, Opaque, box, State, Enum, Fork, F64, Unsupported, discharge
from props import valmodel as V
from props.c11 import extra_hooks as std_hooks
from props.c10 import eval_hooks

_MODS = None
OPS = ['Eq', 'NotEq', 'Lt', 'Le', 'Gt', 'Ge']
LITS = ['IntS', 'IntB', 'Float', 'Str', 'Bool']
XCLS = ['IntS', 'IntB', 'Float', 'Str', 'Bool', 'Null']
TWO53 = 1 << 53


def basecls(c): return 'Int' if c in ('IntS', 'IntB') else c


def mag(c, v):
    """IntS: |v| <= 2^53 (exactly representable as f64), IntB: the rest"""
    small = And(v >= BitVecVal(-TWO53, 64), v <= BitVecVal(TWO53, 64))
    return small if c == 'IntS' else (Not(small) if c == 'IntB' else BoolVal(True))


def load(ctx=None):
    global _MODS
    mods = []
    for c in ('runtime', 'core'):
        m, info = mirdump.load(c, closures=(c == 'runtime'))
        mods.append(m)
        if ctx is not None:
            ctx.functions.append({'crate': info['crate'], 'source_hash': info['source_hash'], 'mir_functions': info['functions'], 'dump_s': info['dump_s']})
    _MODS = mods


def str_hooks():
    rank = models.uf('str_rank', z3.BitVecSort(16), z3.IntSort())

    def tok(ex, v):
        v = ex.deref(v)
        while isinstance(v, Ptr): v = v.get()
        if isinstance(v, V.StrTok): return v.tok
        raise Unsupported('string token expected, got %r' % (v,))

    def h_eq(ex, st, callee, args): return tok(ex, args[0]) == tok(ex, args[1])

    def h_cmp(ex, st, callee, args):
        a, b = tok(ex, args[0]), tok(ex, args[1])
        st.path.assume(Implies(a != b, rank(a) != rank(b)))
        return Enum('Ordering', If(rank(a) < rank(b), BitVecVal(-1, 64), If(a == b, BitVecVal(0, 64), BitVecVal(1, 64))), {'Less': [], 'Equal': [], 'Greater': []})

    def h_clone_str(ex, st, callee, args):
        v = ex.deref(args[0])
        return v       # String / Box<str> clone keeps the token

    def h_into_box(ex, st, callee, args):
        v = args[0]
        vv = ex.deref(v) if isinstance(v, Ptr) else v
        return box(vv) if isinstance(vv, V.StrTok) else NotImplemented
    return [(r'^<&?Box<str> as PartialEq>::eq$', h_eq), (r'^<&?Box<str> as (?:std::cmp::)?Ord>::cmp$', h_cmp),
            (r'^<(?:std::string::)?String as Clone>::clone$', h_clone_str), (r'^<(?:std::string::)?String as Into<Box<str>>>::into$', h_into_box)]


def mk_lit(cls):
    exprs = V.variants()['Expr']
    pay = {'Int': BitVec('lit_i', 64), 'Float': FP('lit_f', F64), 'Str': V.StrTok(BitVec('lit_s', 16)), 'Bool': z3.Bool('lit_b')}[cls]
    return Enum('Expr', BitVecVal(exprs.index(cls), 64), {cls: [pay]}), pay


def job(neg, op, xcls0, lcls0, flip=False):
    t0 = time.time()
    xcls, lcls = basecls(xcls0), basecls(lcls0)
    exprs = V.variants()['Expr']; binops = V.variants()['BinOp']; unops = V.variants()['UnaryOp']
    lit, lpay = mk_lit(lcls)
    ident = Enum('Expr', BitVecVal(exprs.index('Ident'), 64), {'Ident': [V.StrTok(BitVecVal(7, 16))]})
    opv = Enum('BinOp', BitVecVal(binops.index(op), 64), {op: []})
    cmp_e = Enum('Expr', BitVecVal(exprs.index('Binary'), 64), {'Binary': [opv, box(lit), box(ident)] if flip else [opv, box(ident), box(lit)]})       # flip: `lit OP x`
    expr = cmp_e if not neg else Enum('Expr', BitVecVal(exprs.index('Unary'), 64), {'Unary': [Enum('UnaryOp', BitVecVal(unops.index('Not'), 64), {'Not': []}), box(cmp_e)]})
    if xcls == 'missing':
        xv, cx = V.sym_value('x', ['Null']); present = BoolVal(False)
    else:
        xv, cx = V.sym_value('x', [xcls]); present = BoolVal(True)
    xopt = Enum('Option', If(present, BitVecVal(1, 64), BitVecVal(0, 64)), {'Some': [box(xv)], 'None': []})
    base = eval_hooks(xopt) + str_hooks() + std_hooks() + [(r'^Box::<.*>::new$', lambda ex, st, callee, args: box(args[0]))]
    if flip:
        # the translation keeps a literal-first comparison as `Predicate::Expr(expr.clone())`: the clone is the same expression
        base += [(r'^<(?:varpulis_core::)?(?:ast::)?Expr as Clone>::clone$', lambda ex, st, callee, args: ex.deref(args[0]))]
    # ---- translation (real code)
    ext = V.ValExec(_MODS, base + [(rx.pattern, fn) for rx, fn in containers.container_hooks()])
    st0 = State(); st0.path.assume(cx)
    if lcls == 'Int': st0.path.assume(mag(lcls0, lpay))
    if xcls == 'Int': st0.path.assume(mag(xcls0, xv.fields['Int'][0]))
    tres = ext.run('expr_to_sase_predicate', [box(expr)], st=st0)
    out = []
    queries = ext.queries; solver_s = ext.solver_s; inc = list(ext.inconclusive)
    for tr in tres:
        if tr.status != 'return': continue
        pred_opt = tr.ret
        if not isinstance(pred_opt, Enum) or not pred_opt.fields.get('Some'):
            out.append(({'name': 'the filter translates to a step predicate', 'status': 'violated', 'secs': 0.0, 'kind': 'post'}, None)); continue
        pred = pred_opt.fields['Some'][0]
        if flip:
            pd = z3.simplify(pred.disc) if isinstance(pred, Enum) else None
            pvs = V.variants()['Predicate']
            if pd is None or not z3.is_bv_value(pd): raise symex.Unsupported('symbolic predicate kind')
            kindp = pvs[pd.as_long()]
            if kindp == 'Not':
                inner = pred.fields['Not'][0]
                while isinstance(inner, Ptr): inner = inner.get()
                idd = z3.simplify(inner.disc) if isinstance(inner, Enum) else None
                if idd is not None and z3.is_bv_value(idd) and pvs[idd.as_long()] == 'Expr': kindp = 'Expr'
            if kindp == 'Expr':
                # `literal OP field` is handed to the step as the expression itself (evaluated by the same evaluator as `.where`): nothing to compare
                out.append(({'name': 'a literal-first comparison is kept as an expression (evaluated by the stream evaluator itself)', 'status': 'proved', 'secs': 0.0, 'kind': 'post'}, None)); continue
        # ---- stream side
        exs = V.ValExec(_MODS, base + [(rx.pattern, fn) for rx, fn in containers.container_hooks()])
        s1 = State(); s1.path.pc = list(tr.path.pc)
        sres = exs.run(exs.find_func('eval_expr_with_functions'), [box(expr), box(Opaque('event')), box(Opaque('ctx')), box(Opaque('functions')), box(Opaque('bindings'))], st=s1)
        # ---- pattern side
        exp = V.ValExec(_MODS, base + [(rx.pattern, fn) for rx, fn in containers.container_hooks()])
        s2 = State(); s2.path.pc = list(tr.path.pc)
        pres = exp.run('eval_predicate', [box(pred), box(Opaque('event')), box(Opaque('captured'))], st=s2)
        queries += exs.queries + exp.queries; solver_s += exs.solver_s + exp.solver_s; inc += exs.inconclusive + exp.inconclusive
        n0 = len(tr.path.pc)
        for a in sres:
            for b in pres:
                if a.status != 'return' or b.status != 'return': continue
                acc_s = V.opt_is_some_bool(a.ret, BoolVal(True))
                acc_p = b.ret
                pc = a.path.pc + b.path.pc[n0:]
                for dirn, extra in (('stream-only', And(acc_s, Not(acc_p))), ('step-only', And(Not(acc_s), acc_p))):
                    s = z3.Solver(); s.set('timeout', 60000); s.add(*pc); s.add(extra)
                    t1 = time.time(); rc = s.check(); dt = time.time() - t1; queries += 1; solver_s += dt
                    m = s.model() if rc == z3.sat else None
                    out.append(({'name': 'no event is accepted %s' % dirn, 'dir': dirn, 'status': 'proved' if rc == z3.unsat else ('violated' if rc == z3.sat else 'unknown'), 'secs': dt, 'kind': 'post'}, (m, acc_s, acc_p)))
    verdicts = []
    for d, mm in out:
        if mm is not None and mm[0] is not None:
            m, acc_s, acc_p = mm
            NAN = str(0x7ff8000000000000)
            def fbits(f): return NAN if z3.is_true(m.eval(z3.fpIsNaN(f), True)) else str(m.eval(z3.fpToIEEEBV(f), True).as_long())
            xtok = xv.fields['Str'][0].get().tok if xcls == 'Str' else None
            ltok = lpay.tok if lcls == 'Str' else None
            def sname(t, other):
                # concrete strings whose lexicographic order is the model's order of the two tokens
                if other is None: return 'm'
                tv, ov = m.eval(t, True).as_long(), m.eval(other, True).as_long()
                if tv == ov: return 'm'
                rk = [d_ for d_ in m.decls() if d_.name() == 'str_rank']
                r = lambda z: m.eval(rk[0](BitVecVal(z, 16)), True).as_long() if rk else z
                return 'a' if r(tv) < r(ov) else 'z'
            def show(v, c):
                if c == 'Int': return str(m.eval(v.fields['Int'][0], True).as_signed_long())
                if c == 'Float': return fbits(v.fields['Float'][0])
                if c == 'Bool': return 'true' if z3.is_true(m.eval(v.fields['Bool'][0], True)) else 'false'
                if c == 'Str': return sname(xtok, ltok)
                return 'x'
            lv = {'Int': lambda: str(m.eval(lpay, True).as_signed_long()), 'Float': lambda: fbits(lpay),
                  'Bool': lambda: 'true' if z3.is_true(m.eval(lpay, True)) else 'false', 'Str': lambda: sname(ltok, xtok)}[lcls]()
            d['witness'] = {'x': [xcls, show(xv, xcls) if xcls != 'missing' else '-'], 'lit': [lcls, lv], 'stream_accepts': bool(z3.is_true(m.eval(acc_s, True))), 'step_accepts': bool(z3.is_true(m.eval(acc_p, True)))}
        verdicts.append(d)
    return {'neg': neg, 'op': op, 'xcls': xcls0, 'lcls': lcls0, 'flip': flip, 'paths': len(verdicts), 'verdicts': verdicts, 'queries': queries, 'solver_s': solver_s, 'inconclusive': inc, 'wall_s': time.time() - t0}


def _worker(a):
    try:
        return job(*a)
    except Exception as e:
        import traceback; traceback.print_exc()
        return {'neg': a[0], 'op': a[1], 'xcls': a[2], 'lcls': a[3], 'flip': (len(a) > 4 and a[4]), 'error': '%s: %s' % (type(e).__name__, e), 'verdicts': [], 'paths': 0, 'queries': 0, 'solver_s': 0, 'inconclusive': []}


def run(ctx):
    from concurrent.futures import ProcessPoolExecutor
    import multiprocessing as mp
    from vlib import replay
    from vlib.driver import Finding
    load(ctx)
    ctx.engines.append('M (MIR symbolic execution -> Z3)')
    ctx.bounds = {'programs': '`x OP lit` and `not (x OP lit)`, OP in %s, lit in %s (payload symbolic); the literal-first form `lit OP x` on same-kind operands' % (OPS, LITS), 'events': 'x missing or %s with symbolic payload' % XCLS,
                  'composite': '`(x > l1) AND/OR (y == l2)` and its negation over two fields, each missing / Null / Int (symbolic payloads and literals)',
                  'outside': 'deeper boolean nesting, three fields, filters with calls or cross-alias references (Predicate::CompareRef / Predicate::Expr), string ordering beyond "one total order shared by both sides"'}
    ctx.assumptions += ['bindings empty; Event::get returns the symbolic field on both sides', 'strings are identity tokens ordered by one uninterpreted total order']
    tasks = [(neg, op, xc, lc) for neg in (False, True) for op in OPS for xc in XCLS + ['missing'] for lc in LITS]
    # the literal-first form `lit OP x` (same-kind operands and a missing field): today it is kept as an expression for the step, i.e. evaluated by the stream
    # evaluator itself; if the translation ever turns it into a step comparison, the two sides are compared like the field-first form
    tasks += [(neg, op, xc, lc, True) for neg in (False, True) for op in OPS for xc, lc in (('IntS', 'IntS'), ('Float', 'Float'), ('Str', 'Str'), ('missing', 'IntS'))]
    from props import c09b
    with ProcessPoolExecutor(max_workers=14, mp_context=mp.get_context('fork')) as pool:
        res = list(pool.map(_worker, tasks))
        res2 = list(pool.map(c09b._worker, c09b.TASKS))
    binp = None; seen = set()
    # composite filters over two fields: (x > l1) AND/OR (y == l2), optionally negated
    for r in res2:
        tgt = 'where-filter vs step-filter (composite)'
        cls = '%s(x > l1) %s (y == l2) x:%s y:%s' % ('not ' if r['neg'] else '', r['bop'].lower(), r['xcls'], r['ycls'])
        if r.get('error'):
            ctx.inconclusive.append('%s (%s): %s' % (tgt, cls, r['error'])); continue
        for why in sorted(set(r['inconclusive'])): ctx.inconclusive.append('%s (%s): %s' % (tgt, cls, why))
        ctx.queries += r['queries']; ctx.solver_s += r['solver_s']
        ctx.add_obligations(tgt, r['verdicts'], cls=cls)
        ctx.samples.append({'class': cls, 'path_pairs': r['paths']})
        for v in r['verdicts']:
            if v['status'] != 'violated': continue
            key = 'filter2:%s%s:x=%s:y=%s:%s' % ('not:' if r['neg'] else '', r['bop'], r['xcls'], r['ycls'], v['dir'])
            if key in seen: continue
            seen.add(key)
            w = v.get('witness') or {}
            if binp is None: binp = replay.build('rt')
            a = [binp, 'filter2', '1' if r['neg'] else '0', r['bop']] + (w.get('x') or [r['xcls'], '-']) + (w.get('y') or [r['ycls'], '-']) + [str(w.get('l1', 0)), str(w.get('l2', 0))]
            ctx.findings.append(Finding(key, '%s: %s (witness %s)' % (cls, v['name'], w), a, w))
    for r in res:
        tgt = 'where-filter vs step-filter'
        cls = '%s%s x:%s lit:%s%s' % ('not ' if r['neg'] else '', r['op'], r['xcls'], r['lcls'], ' (literal first)' if r.get('flip') else '')
        if r.get('error'):
            ctx.inconclusive.append('%s (%s): %s' % (tgt, cls, r['error'])); continue
        for why in sorted(set(r['inconclusive'])): ctx.inconclusive.append('%s (%s): %s' % (tgt, cls, why))
        ctx.queries += r['queries']; ctx.solver_s += r['solver_s']
        ctx.add_obligations(tgt, r['verdicts'], cls=cls)
        ctx.samples.append({'class': cls, 'path_pairs': r['paths']})
        for v in r['verdicts']:
            if v['status'] != 'violated': continue
            key = '%s:%s%s:x=%s:lit=%s:%s' % ('filterflip' if r.get('flip') else 'filter', 'not:' if r['neg'] else '', r['op'], r['xcls'], r['lcls'], v['dir'])
            if key in seen: continue
            seen.add(key)
            w = v.get('witness') or {}
            if binp is None: binp = replay.build('rt')
            a = [binp, 'filter', '1' if r['neg'] else '0', r['op']] + (w.get('x') or [r['xcls'], 'x']) + (w.get('lit') or [r['lcls'], 'x']) + (['flip'] if r.get('flip') else [])
            ctx.findings.append(Finding(key, '%s: %s (witness %s)' % (cls, v['name'], w), a, w))
    ctx.models += sorted(models.USED)
