"""C33 — pipelines are placed only on available workers; failures are detected by the health sweep (engine M, one step each).

Executed from the MIR of varpulis-cluster on symbolic worker tables (HashMap<WorkerId, WorkerNode> as an entry list with distinct key
tokens, every iteration order) over a virtual clock (Instant::now returns non-decreasing symbolic readings):
  WorkerNode::is_available        = Ready and pipelines_running < max_pipelines, for every status
  health::health_sweep            a Ready worker is marked Unhealthy iff its heartbeat is older than the timeout at the moment it is
                                  examined (never earlier: elapsed <= timeout keeps it Ready); other statuses and fields untouched;
                                  the result counts every worker and lists exactly the newly marked ones in iteration order
  Coordinator::heartbeat          unknown worker -> Err and nothing changes; known worker: last_heartbeat = a clock reading taken during
                                  the call, load figures copied, Unhealthy -> Ready, every other status kept, other workers untouched
  RoundRobinPlacement::place      picks workers[counter mod n] of the list it is given (None iff the list is empty), counter + 1
  LeastLoadedPlacement::place     picks a worker OF THE LIST with minimal running/cores ratio (ties: fewer pipelines, then first)
  Coordinator::plan_deploy_group  (props/c33plan.py) hands the strategy exactly the available workers, plans every task on an available worker
                                  and honours an available pinned worker
The strategies return a member of the list they are given and plan_deploy_group gives them the available workers only, so a planned pipeline
lands on an available worker.
"""
import itertools
import re
import time

import z3
from z3 import BitVec, BitVecVal, And, Or, Not, If, BoolVal, Implies, ULE, ULT, UGT, UGE

from vlib import mirdump, models, containers
from vlib.symex import Ptr, Opaque, box, State, Enum, Exec, Unsupported, Fork, discharge, F64
from vlib.containers import ListModel, Iter
from vlib.models import some, none, option
from props.zddmodel import struct_fields
from props import valmodel as V

_MOD = None
STATUSES = ['Registering', 'Ready', 'Unhealthy', 'Draining']
T_MAX = 1 << 60


def load(ctx=None):
    global _MOD
    m, info = mirdump.load('cluster', closures=True)
    _MOD = m
    if ctx is not None:
        ctx.functions.append({'crate': info['crate'], 'source_hash': info['source_hash'], 'mir_functions': info['functions'], 'dump_s': info['dump_s']})


class MapM:
    def __init__(self, entries): self.entries = entries      # [[WorkerId = [StrTok], WorkerNode struct]]


def idtok(v):
    while isinstance(v, Ptr): v = v.get()
    if isinstance(v, list) and v: v = v[0]
    while isinstance(v, Ptr): v = v.get()
    if isinstance(v, V.StrTok): return v.tok
    raise Unsupported('WorkerId expected, got %r' % (v,))


def hooks():
    def mp(a):
        v = a
        while isinstance(v, Ptr): v = v.get()
        if isinstance(v, MapM): return v
        raise Unsupported('worker table expected, got %r' % (v,))

    def h_values_mut(ex, st, callee, args):
        return Iter(ListModel([Ptr(e, 1) for e in mp(args[0]).entries], kind='ValuesMut'), by_value=True)

    def h_get_mut(ex, st, callee, args):
        m = mp(args[0]); k = idtok(args[1])
        alts = [(idtok(e[0]) == k, (lambda i: lambda ex, st, a: some(Ptr(mp(a[0]).entries[i], 1)))(i)) for i, e in enumerate(m.entries)]
        alts.append((And(*[idtok(e[0]) != k for e in m.entries]) if m.entries else BoolVal(True), lambda ex, st, a: none()))
        return Fork(alts)

    def tick(st):
        """a new clock reading >= the previous one"""
        k = st.roots['ticks']; st.roots['ticks'] = k + 1
        now = BitVec('now%d' % k, 64)
        st.path.assume(And(UGE(now, st.roots['now']), ULT(now, T_MAX)))
        st.roots['now'] = now; st.roots['readings'].append(now)
        return now

    def h_now(ex, st, callee, args): return tick(st)

    def h_elapsed(ex, st, callee, args):
        inst = args[0]
        while isinstance(inst, Ptr): inst = inst.get()
        now = tick(st)
        return If(UGE(now, inst), now - inst, BitVecVal(0, 64))

    def h_dur_cmp(ex, st, callee, args):
        a, b = args
        while isinstance(a, Ptr): a = a.get()
        while isinstance(b, Ptr): b = b.get()
        op = callee.rsplit('::', 1)[1]
        return {'gt': UGT(a, b), 'ge': UGE(a, b), 'lt': ULT(a, b), 'le': ULE(a, b)}[op]

    def h_str_clone(ex, st, callee, args):
        v = args[0]
        while isinstance(v, Ptr): v = v.get()
        return v

    def h_fetch_add(ex, st, callee, args):
        a = ex.deref(args[0])
        old = a[0]; a[0] = old + args[1]
        return old

    def h_status_ne(ex, st, callee, args):
        a, b = ex.deref(args[0]), ex.deref(args[1])
        return a.disc != b.disc

    def h_log_cut(ex, st, callee, args):
        models.USED.add('tracing/log level check cut: logging disabled')
        return BoolVal(False)

    return [
        (r'^<worker::WorkerStatus as PartialEq>::ne$', h_status_ne),
        (r'^<tracing::log::Level as PartialOrd<tracing::log::LevelFilter>>::(le|lt)$', h_log_cut),
        (r'^HashMap::<WorkerId, WorkerNode>::values_mut$', h_values_mut),
        (r'^<std::collections::hash_map::ValuesMut<.*> as IntoIterator>::into_iter$', lambda ex, st, callee, args: args[0]),
        (r'^HashMap::<WorkerId, WorkerNode>::get_mut::<WorkerId>$', h_get_mut),
        (r'^std::time::Instant::now$', h_now), (r'^std::time::Instant::elapsed$', h_elapsed),
        (r'^<(?:std::time::)?Duration as PartialOrd>::(gt|ge|lt|le)$', h_dur_cmp),
        (r'^<(?:std::string::)?String as Clone>::clone$', h_str_clone),
        (r'^(?:std::sync::atomic::)?(?:AtomicUsize|Atomic::<usize>)::fetch_add$', h_fetch_add),
    ]


def worker(i, src):
    nf = struct_fields(src, 'WorkerNode'); cf = struct_fields(src, 'WorkerCapacity')
    if set(nf or []) != {'id', 'address', 'api_key', 'status', 'capacity', 'last_heartbeat', 'assigned_pipelines', 'events_processed'} or cf != ['cpu_cores', 'pipelines_running', 'max_pipelines']:
        raise Unsupported('worker.rs structs changed: %s %s' % (nf, cf))
    key = BitVec('id%d' % i, 16); sd = BitVec('status%d' % i, 64)
    cap = {'cpu_cores': BitVec('cores%d' % i, 64), 'pipelines_running': BitVec('running%d' % i, 64), 'max_pipelines': BitVec('maxp%d' % i, 64)}
    hb = BitVec('hb%d' % i, 64); evp = BitVec('evp%d' % i, 64)
    status = Enum('WorkerStatus', sd, {s: [] for s in STATUSES})
    vals = {'id': [V.StrTok(key)], 'address': Opaque('addr%d' % i), 'api_key': Opaque('key%d' % i), 'status': status, 'capacity': [cap[x] for x in cf],
            'last_heartbeat': hb, 'assigned_pipelines': Opaque('assigned%d' % i), 'events_processed': evp}
    cons = And(ULT(sd, len(STATUSES)), ULT(hb, T_MAX), ULT(cap['pipelines_running'], 1 << 32), ULT(cap['cpu_cores'], 1 << 16), ULT(cap['max_pipelines'], 1 << 32))
    return {'key': key, 'status': sd, 'cap': cap, 'hb': hb, 'evp': evp, 'struct': [vals[x] for x in nf], 'nf': nf, 'cf': cf}, cons


RW, RUNB, COREB = 16, 10, 6        # least-loaded exact domain (quick): running < 2^10, cores < 2^6, 16-bit products; thorough: 2^14 / 2^8 / 24 bits


class Rat:
    """exact-domain double: a non-negative rational num/den (64-bit terms, den > 0)"""
    def __init__(self, num, den): self.num, self.den = num, den
    def __repr__(self): return 'Rat(%s/%s)' % (self.num, self.den)


class RatExec(Exec):
    """LeastLoadedPlacement on the exact domain: for running < 2^RUNB and cores < 2^COREB (at most 2^20 / 2^10) two distinct quotients differ by a relative 2^-40 or more and so
    round to distinct doubles, equal quotients round to the same double: IEEE comparison of the rounded quotients IS comparison of the
    rationals.  `usize as f64` is the integer, `/` builds the fraction, partial_cmp cross-multiplies (never NaN: den > 0)."""
    def cast(self, fr, v, src_ty, dst_ty, kind):
        if kind == 'IntToFloat': return Rat(z3.Extract(RW - 1, 0, v), BitVecVal(1, RW))      # values inside the domain: products stay below 2^RW
        return super().cast(fr, v, src_ty, dst_ty, kind)

    def binop(self, op, a, b, ty):
        if isinstance(a, Rat) or isinstance(b, Rat):
            if op == 'Div': return Rat(a.num * b.den, a.den * b.num)
            raise Unsupported('rational-domain binop ' + op)
        return super().binop(op, a, b, ty)


def rat_hooks():
    def h_pcmp(ex, st, callee, args):
        a, b = ex.deref(args[0]), ex.deref(args[1])
        if not (isinstance(a, Rat) and isinstance(b, Rat)): return NotImplemented
        l, r = a.num * b.den, b.num * a.den
        o = Enum('Ordering', If(ULT(l, r), BitVecVal(-1, 64), If(l == r, BitVecVal(0, 64), BitVecVal(1, 64))), {'Less': [], 'Equal': [], 'Greater': []})
        return some(o)
    return [(r'^<&*f64 as (?:std::cmp::|core::cmp::)?PartialOrd(?:<.*>)?>::partial_cmp$', h_pcmp)]


def mk_exec(rat=False):
    variants = dict(V.variants())
    src = open(mirdump.crate_dir('cluster') + '/src/worker.rs').read()
    m = re.search(r'pub enum WorkerStatus\s*\{([^}]*)\}', src)
    vs = [x.strip().split('(')[0] for x in m.group(1).split(',') if x.strip() and not x.strip().startswith(('//', '#'))]
    if vs != STATUSES: raise Unsupported('WorkerStatus variants changed: %s' % vs)
    variants['WorkerStatus'] = list(STATUSES)
    hk = [(re.compile(p), f) for p, f in (rat_hooks() if rat else []) + hooks()] + containers.container_hooks() + models.generic_hooks()
    return (RatExec if rat else Exec)([_MOD], hk, variants=variants, loop_bound=8, step_budget=200000)


def find_fn(pattern):
    f = [x for x in _MOD.funcs if re.search(pattern, x)]
    if len(f) != 1: raise Unsupported('function %s: %s' % (pattern, f))
    return _MOD.funcs[f[0]]


def field(wstruct, nf, name):
    return wstruct[nf.index(name)]


def prove(pc, cond, nm, wit, verdicts, stats):
    s = z3.Solver(); s.set('timeout', 30000); s.add(*pc); s.add(Not(cond))
    t = time.time(); rc = s.check(); dt = time.time() - t; stats['q'] += 1; stats['s'] += dt
    d = {'name': nm, 'status': 'proved' if rc == z3.unsat else ('violated' if rc == z3.sat else 'unknown'), 'secs': dt, 'kind': 'post'}
    if rc == z3.sat: d['witness'] = wit(s.model())
    verdicts.append(d)


def job(spec):
    op = spec[0]
    t0 = time.time()
    ex = mk_exec(); verdicts = []; stats = {'q': 0, 's': 0.0}
    src = open(mirdump.crate_dir('cluster') + '/src/worker.rs').read()
    if op == 'is_available':
        w, c = worker(0, src)
        st0 = State(); st0.path.assume(c)
        res = ex.run(find_fn(r'^worker::<impl at [^>]*>::is_available$'), [box(w['struct'])], st=st0)
        for r in res:
            if r.status != 'return': continue
            spec_c = And(w['status'] == STATUSES.index('Ready'), ULT(w['cap']['pipelines_running'], w['cap']['max_pipelines']))
            prove(r.path.pc, r.ret == spec_c, 'is_available = Ready and running < max (never for Registering / Unhealthy / Draining)',
                  lambda m: {'op': op, 'status': STATUSES[m.eval(w['status'], True).as_long()], 'running': m.eval(w['cap']['pipelines_running'], True).as_long(), 'max': m.eval(w['cap']['max_pipelines'], True).as_long()}, verdicts, stats)
    elif op in ('sweep', 'heartbeat'):
        n, order = spec[1], spec[2]
        ws = []; cons = []
        for i in range(n):
            w, c = worker(i, src); ws.append(w); cons.append(c)
        cons += [ws[a]['key'] != ws[b]['key'] for a in range(n) for b in range(a + 1, n)]
        init = [ws[i] for i in order]
        table = MapM([[[V.StrTok(w['key'])], w['struct']] for w in init])
        now0 = BitVec('now_start', 64)
        cons += [ULT(now0, T_MAX)] + [ULE(w['hb'], now0) for w in ws]
        nf = ws[0]['nf'] if ws else struct_fields(src, 'WorkerNode'); cf = ['cpu_cores', 'pipelines_running', 'max_pipelines']
        def wit_workers(m):
            return [{'id': m.eval(w['key'], True).as_long(), 'status': STATUSES[m.eval(w['status'], True).as_long()], 'hb': m.eval(w['hb'], True).as_long(),
                     'running': m.eval(w['cap']['pipelines_running'], True).as_long()} for w in init]
        if op == 'sweep':
            timeout = BitVec('timeout', 64)
            cell = [table]
            st0 = State(roots={'cell': cell, 'now': now0, 'ticks': 0, 'readings': []}); st0.path.assume(And(*(cons + [ULT(timeout, T_MAX)])))
            res = ex.run(find_fn(r'^health_sweep$'), [Ptr(cell, 0), timeout], st=st0)
            hsrc = open(mirdump.crate_dir('cluster') + '/src/health.rs').read()
            rf = struct_fields(hsrc, 'HealthSweepResult')
            for r in res:
                if r.status != 'return': continue
                pc = r.path.pc; tb = r.st.roots['cell'][0]; now_end = r.st.roots['now']
                def wit(m):
                    return {'op': op, 'workers': wit_workers(m), 'timeout': m.eval(timeout, True).as_long(), 'now_start': m.eval(now0, True).as_long(), 'now_end': m.eval(now_end, True).as_long(),
                            'readings': [m.eval(x, True).as_long() for x in r.st.roots['readings']]}
                marked = []
                for j, w in enumerate(init):
                    e = tb.entries[j]; s2 = field(e[1], nf, 'status').disc
                    ready = w['status'] == STATUSES.index('Ready')
                    newly = And(ready, s2 == STATUSES.index('Unhealthy'))
                    marked.append(newly)
                    prove(pc, Implies(Not(ready), s2 == w['status']), 'sweep: a worker that is not Ready keeps its status', wit, verdicts, stats)
                    prove(pc, Implies(ready, Or(s2 == STATUSES.index('Ready'), s2 == STATUSES.index('Unhealthy'))), 'sweep: a Ready worker stays Ready or becomes Unhealthy', wit, verdicts, stats)
                    prove(pc, Implies(newly, UGT(now_end - w['hb'], timeout)), 'sweep: never marked before the heartbeat is older than the timeout', wit, verdicts, stats)
                    prove(pc, Implies(And(ready, UGT(now0 - w['hb'], timeout)), newly), 'sweep: a Ready worker whose heartbeat is already older than the timeout is marked Unhealthy', wit, verdicts, stats)
                    same = And(field(e[1], nf, 'last_heartbeat') == w['hb'], field(e[1], nf, 'events_processed') == w['evp'], idtok(e[0]) == w['key'],
                               *[field(e[1], nf, 'capacity')[cf.index(k)] == w['cap'][k] for k in cf])
                    prove(pc, same, 'sweep: heartbeat time, load figures and identity untouched', wit, verdicts, stats)
                checked = r.ret[rf.index('workers_checked')]; lst = r.ret[rf.index('workers_marked_unhealthy')]
                while isinstance(lst, Ptr): lst = lst.get()
                prove(pc, checked == n, 'sweep: every worker is counted', wit, verdicts, stats)
                # the list holds exactly the newly marked workers, in iteration order
                ids = [idtok(x) for x in lst.items]
                exp_conds = []
                for mask in itertools.product([False, True], repeat=n):
                    sel = [init[j]['key'] for j in range(n) if mask[j]]
                    c = And(*[(marked[j] if mask[j] else Not(marked[j])) for j in range(n)]) if n else BoolVal(True)
                    exp_conds.append(And(c, BoolVal(len(sel) == len(ids)), *[a == b for a, b in zip(ids, sel)]) if len(sel) == len(ids) else BoolVal(False))
                prove(pc, Or(*exp_conds), 'sweep: the result lists exactly the newly marked workers', wit, verdicts, stats)
        else:
            csrc = open(mirdump.crate_dir('cluster') + '/src/coordinator.rs').read()
            cfs = struct_fields(csrc, 'Coordinator')
            if not cfs or cfs[0] != 'workers': raise Unsupported('Coordinator.workers is no longer the first field: %s' % (cfs,))
            coord = [table] + [Opaque('coordinator.%s' % x) for x in cfs[1:]]
            hsrc = src
            hf = struct_fields(hsrc, 'HeartbeatRequest')
            if set(hf or []) != {'events_processed', 'pipelines_running', 'pipeline_metrics'}: raise Unsupported('HeartbeatRequest changed: %s' % hf)
            hb_run = BitVec('hb_running', 64); hb_ev = BitVec('hb_events', 64)
            hvals = {'events_processed': hb_ev, 'pipelines_running': hb_run, 'pipeline_metrics': ListModel([])}
            hreq = [hvals[x] for x in hf]
            wid = BitVec('wid', 16)
            cell = [coord]
            st0 = State(roots={'cell': cell, 'now': now0, 'ticks': 0, 'readings': []}); st0.path.assume(And(*cons))
            res = ex.run(find_fn(r'^coordinator::<impl at [^>]*>::heartbeat$'), [Ptr(cell, 0), box([V.StrTok(wid)]), box(hreq)], st=st0)
            for r in res:
                if r.status != 'return': continue
                pc = r.path.pc; tb = r.st.roots['cell'][0][0]; readings = r.st.roots['readings']
                def wit(m):
                    return {'op': op, 'workers': wit_workers(m), 'worker_id': m.eval(wid, True).as_long(), 'running': m.eval(hb_run, True).as_long(), 'events': m.eval(hb_ev, True).as_long()}
                known = Or(*[w['key'] == wid for w in init]) if init else BoolVal(False)
                is_ok = r.ret.disc == 0
                prove(pc, is_ok == known, 'heartbeat: Ok iff the worker is registered', wit, verdicts, stats)
                for j, w in enumerate(init):
                    e = tb.entries[j]; s2 = field(e[1], nf, 'status').disc; hit = w['key'] == wid
                    cap2 = field(e[1], nf, 'capacity')
                    untouched = And(s2 == w['status'], field(e[1], nf, 'last_heartbeat') == w['hb'], field(e[1], nf, 'events_processed') == w['evp'], *[cap2[cf.index(k)] == w['cap'][k] for k in cf])
                    prove(pc, Implies(Not(hit), untouched), 'heartbeat: other workers are untouched', wit, verdicts, stats)
                    exp_status = If(w['status'] == STATUSES.index('Unhealthy'), BitVecVal(STATUSES.index('Ready'), 64), w['status'])
                    taken = Or(*[field(e[1], nf, 'last_heartbeat') == x for x in readings]) if readings else BoolVal(False)
                    prove(pc, Implies(hit, And(s2 == exp_status, taken, UGE(field(e[1], nf, 'last_heartbeat'), now0), cap2[cf.index('pipelines_running')] == hb_run, field(e[1], nf, 'events_processed') == hb_ev,
                                               cap2[cf.index('max_pipelines')] == w['cap']['max_pipelines'], cap2[cf.index('cpu_cores')] == w['cap']['cpu_cores'])),
                          'heartbeat: the worker gets a fresh heartbeat time, the reported load, and Unhealthy -> Ready (other statuses kept)', wit, verdicts, stats)
    elif op in ('round_robin', 'least_loaded'):
        n = spec[1]
        global RW, RUNB, COREB
        RW, RUNB, COREB = (24, 14, 8) if (len(spec) > 2 and spec[2] == 'thorough') else (16, 10, 6)
        ws = []; cons = []
        for i in range(n):
            w, c = worker(i, src); ws.append(w); cons.append(c)
        cons += [ws[a]['key'] != ws[b]['key'] for a in range(n) for b in range(a + 1, n)]
        lst = ListModel([box(w['struct']) for w in ws])
        counter = BitVec('counter', 64)
        def wit(m):
            return {'op': op, 'counter': m.eval(counter, True).as_long(), 'workers': [{'id': m.eval(w['key'], True).as_long(), 'running': m.eval(w['cap']['pipelines_running'], True).as_long(), 'cores': m.eval(w['cap']['cpu_cores'], True).as_long()} for w in ws]}
        if op == 'round_robin':
            ccell = [counter]
            st0 = State(roots={'ccell': ccell}); st0.path.assume(And(*cons) if cons else BoolVal(True))
            lsrc = open(mirdump.crate_dir('cluster') + '/src/lib.rs').read()
            line = lsrc[:lsrc.index('impl PlacementStrategy for RoundRobinPlacement')].count('\n') + 1
            res = ex.run(find_fn(r'^<impl at crates/varpulis-cluster/src/lib\.rs:%d:[^>]*>::place$' % line), [box([ccell]), box(Opaque('pipeline')), box(lst)], st=st0)
            for r in res:
                if r.status != 'return': continue
                pc = r.path.pc
                if n == 0:
                    prove(pc, r.ret.disc == 0, 'place: no worker in the list => None', wit, verdicts, stats); continue
                got = idtok(r.ret.fields['Some'][0])
                idx = z3.URem(counter, BitVecVal(n, 64))
                exp = ws[-1]['key']
                for k in reversed(range(n - 1)): exp = If(idx == k, ws[k]['key'], exp)
                prove(pc, And(r.ret.disc == 1, got == exp), 'round robin: picks workers[counter mod n] of the given list', wit, verdicts, stats)
                prove(pc, r.st.roots['ccell'][0] == counter + 1, 'round robin: the counter advances by one', wit, verdicts, stats)
        else:
            ex = mk_exec(rat=True)
            dom = [And(ULT(w['cap']['pipelines_running'], 1 << RUNB), ULT(w['cap']['cpu_cores'], 1 << COREB)) for w in ws]
            st0 = State(); st0.path.assume(And(*(cons + dom)) if cons else BoolVal(True))
            lsrc = open(mirdump.crate_dir('cluster') + '/src/lib.rs').read()
            line = lsrc[:lsrc.index('impl PlacementStrategy for LeastLoadedPlacement')].count('\n') + 1
            res = ex.run(find_fn(r'^<impl at crates/varpulis-cluster/src/lib\.rs:%d:[^>]*>::place$' % line), [box(Opaque('self')), box(Opaque('pipeline')), box(lst)], st=st0)
            def lo32(x): return z3.Extract(RW - 1, 0, x)
            def cores(w): return lo32(If(ULT(w['cap']['cpu_cores'], BitVecVal(1, 64)), BitVecVal(1, 64), w['cap']['cpu_cores']))     # same term shape as the Ord::max model: the products then coincide syntactically
            def run_(w): return lo32(w['cap']['pipelines_running'])
            def lt(o, w): return ULT(run_(o) * cores(w), run_(w) * cores(o))        # ratio(o) < ratio(w), exactly (products < 2^30)
            def eq(o, w): return run_(o) * cores(w) == run_(w) * cores(o)
            # lemma handed to the solver (a mathematical fact, not checked by it): comparison of positive rationals by cross-multiplication is a
            # total preorder, i.e. the workers can be ranked consistently with it — this supplies the transitivity a bit-blaster cannot find
            ranks = [z3.Int('rank%d' % i) for i in range(n)]
            lemma = [And(rk >= 0, rk < max(n, 1)) for rk in ranks]
            for i in range(n):
                for j in range(i + 1, n):
                    lemma += [(ranks[i] < ranks[j]) == lt(ws[i], ws[j]), (ranks[i] == ranks[j]) == eq(ws[i], ws[j])]
            for r in res:
                if r.status != 'return': continue
                pc = list(r.path.pc) + lemma
                if n == 0:
                    prove(pc, r.ret.disc == 0, 'place: no worker in the list => None', wit, verdicts, stats); continue
                got = idtok(r.ret.fields['Some'][0])
                prove(pc, And(r.ret.disc == 1, Or(*[got == w['key'] for w in ws])), 'least loaded: picks a worker of the given list', wit, verdicts, stats)
                for k, w in enumerate(ws):
                    better = [Or(lt(o, w), And(eq(o, w), ULT(o['cap']['pipelines_running'], w['cap']['pipelines_running']))) for o in ws if o is not w]
                    prove(pc, Implies(got == w['key'], Not(Or(*better)) if better else BoolVal(True)), 'least loaded: no other worker of the list has a lower running/cores ratio (ties: fewer pipelines)', wit, verdicts, stats)
    else:
        raise ValueError(op)
    for v in discharge(ex, res, None, timeout_ms=30000):
        verdicts.append({'name': v.name, 'status': v.status, 'secs': v.secs, 'kind': v.kind})
    return {'spec': [str(x) for x in spec], 'verdicts': verdicts, 'paths': len(res), 'queries': ex.queries + stats['q'], 'solver_s': ex.solver_s + stats['s'], 'inconclusive': list(ex.inconclusive), 'wall_s': time.time() - t0}


def _worker(spec):
    try:
        return job(spec)
    except Exception as e:
        import traceback; traceback.print_exc()
        return {'spec': [str(x) for x in spec], 'error': '%s: %s' % (type(e).__name__, e), 'verdicts': [], 'paths': 0, 'queries': 0, 'solver_s': 0, 'inconclusive': []}


def run(ctx):
    from concurrent.futures import ProcessPoolExecutor
    import multiprocessing as mp
    from vlib import replay
    from vlib.driver import Finding
    load(ctx)
    ctx.engines.append('M (MIR symbolic execution -> Z3)')
    nmax = 3 if ctx.tier == 'thorough' else 2
    ctx.bounds = {'tables': 'worker tables of 0..%d workers with symbolic id, status (all four), load figures and heartbeat time, iterated in every order' % nmax,
                  'clock': 'Instant::now / elapsed return non-decreasing symbolic readings below 2^60 ns; the timeout is symbolic',
                  'placement lists': '0..%d workers; least-loaded on the exact domain running < 2^%d, cores < 2^%d (IEEE comparison of the rounded quotients = comparison of the rationals there)' % ((nmax + 1,) + ((14, 8) if ctx.tier == 'thorough' else (10, 6))),
                  'outside': 'the selection code inside the async deploy_group (a duplicate of plan_deploy_group that only tests call), migrations, failover and drain (candidate filters `is_available && id != failed worker`): coroutines over several HashMaps and HTTP; deregistration; per-pipeline metrics in heartbeats'}
    ctx.assumptions += ['tracing macros are cut at the level check', 'HashMap<WorkerId, WorkerNode> as an entry list with distinct keys', 'heartbeats carry no per-pipeline metrics', 'Duration as a 64-bit nanosecond count']
    tasks = [('is_available',)]
    for n in range(0, nmax + 1):
        for order in itertools.permutations(range(n)):
            tasks.append(('sweep', n, order)); tasks.append(('heartbeat', n, order))
    for n in range(0, nmax + 2):
        tasks.append(('round_robin', n)); tasks.append(('least_loaded', n, ctx.tier))
    from props import c33plan
    ptasks = c33plan.tasks(ctx.tier)
    ctx.bounds['plan_deploy_group'] = 'Coordinator::plan_deploy_group on worker tables of 1..%d workers (symbolic status, load, ids; two iteration orders), one pipeline, affinity absent or naming any id; the strategy is cut and returns an arbitrary member of the candidate list' % (3 if ctx.tier == 'thorough' else 2)
    with ProcessPoolExecutor(max_workers=14, mp_context=mp.get_context('fork')) as pool:
        res = list(pool.map(_worker, tasks))
        pres = list(pool.map(c33plan._worker, ptasks))
    binp = None; seen = set()
    for r in pres:
        tgt = 'Coordinator::plan_deploy_group' if r['spec'][0] == 'plan' else 'placement call sites (coordinator.rs)'; cls = ' '.join(r['spec'][1:]) or 'scan + filter closures'
        if r['spec'][0] == 'sites': ctx.notes.append('placement call sites found: %s' % ', '.join(r.get('sites', [])))
        if r.get('error'):
            ctx.inconclusive.append('%s (%s): %s' % (tgt, cls, r['error'])); continue
        for why in sorted(set(r['inconclusive'])): ctx.inconclusive.append('%s (%s): %s' % (tgt, cls, why))
        ctx.queries += r['queries']; ctx.solver_s += r['solver_s']
        ctx.add_obligations(tgt, r['verdicts'], cls=cls)
        ctx.samples.append({'class': tgt + ' ' + cls, 'paths': r['paths']})
        for v in r['verdicts']:
            if v['status'] != 'violated': continue
            key = '%s:%s' % (tgt, v['name'].split(':')[0])
            if key in seen: continue
            seen.add(key)
            if binp is None: binp = replay.build('cl')
            site = (v.get('witness') or {}).get('site', '')
            if r['spec'][0] == 'sites' and 'plan_deploy_group' not in site:
                # failover / drain / the async deploy_group are coroutines that talk HTTP: no native replay; the obligation is about the closure's own MIR and
                # the witness is a concrete worker the filter accepts although is_available is false for it
                ctx.findings.append(Finding('placement-site:%s' % site, '%s: %s (witness %s)' % (tgt, v['name'], v.get('witness')), None, v.get('witness') or {}))
            else:
                ctx.findings.append(Finding(key, '%s %s: %s (witness %s)' % (tgt, cls, v['name'], v.get('witness')), [binp, 'workers', 'plan'], v.get('witness') or {}))
    names = {'is_available': 'WorkerNode::is_available', 'sweep': 'health_sweep', 'heartbeat': 'Coordinator::heartbeat', 'round_robin': 'RoundRobinPlacement::place', 'least_loaded': 'LeastLoadedPlacement::place'}
    for r in res:
        tgt = names[r['spec'][0]]; cls = ' '.join(r['spec'][1:]) or '-'
        if r.get('error'):
            ctx.inconclusive.append('%s (%s): %s' % (tgt, cls, r['error'])); continue
        for why in sorted(set(r['inconclusive'])): ctx.inconclusive.append('%s (%s): %s' % (tgt, cls, why))
        ctx.queries += r['queries']; ctx.solver_s += r['solver_s']
        ctx.add_obligations(tgt, r['verdicts'], cls=cls)
        ctx.samples.append({'class': tgt + ' ' + cls, 'paths': r['paths']})
        for v in r['verdicts']:
            if v['status'] != 'violated': continue
            key = '%s:%s' % (tgt, v['name'].split(':')[0] if ':' in v['name'] else v['name'][:40])
            if key in seen: continue
            seen.add(key)
            w = v.get('witness') or {}
            if binp is None: binp = replay.build('cl')
            op = w.get('op', r['spec'][0]); wl = w.get('workers', [])
            a = [binp, 'workers', op]
            if op == 'is_available': a += [str(w.get('status')), str(w.get('running')), str(w.get('max'))]
            elif op == 'sweep':
                times = sorted(set([w.get('now_start', 0), w.get('now_end', 0)] + list(w.get('readings', []))))      # the sweep is replayed at every clock reading of the witness
                a += [str(w.get('timeout', 0)), ','.join(str(t) for t in times), str(len(wl))]
                for x in wl: a += [str(x['id']), x['status'], str(x['hb']), str(x['running'])]
            elif op == 'heartbeat':
                now = max([x['hb'] for x in wl] + [0]) + 1000
                a += [str(w.get('worker_id', 0)), str(w.get('running', 0)), str(w.get('events', 0)), str(now), str(len(wl))]
                for x in wl: a += [str(x['id']), x['status'], str(x['hb']), str(x['running'])]
            else:
                if op == 'round_robin': a += [str(w.get('counter', 0))]
                a += [str(len(wl))]
                for x in wl: a += [str(x['id']), str(x['running']), str(x['cores'])]
            ctx.findings.append(Finding(key, '%s %s: %s (witness %s)' % (tgt, cls, v['name'], w), a, w))
    ctx.models += sorted(models.USED)
