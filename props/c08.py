"""C08 — numeric comparisons agree with the mathematical order for every int/float mix.

Engine M: MIR of `eval_binary_op` (pattern expressions) and of the `Expr::Binary` arm of `eval_expr_with_functions`
(.where/.emit/.having) on fully symbolic i64 / f64 operands, against an exact BV+FP oracle.
Engine K: the same `eval_binary_op` obligations on the compiled crate (Kani/CBMC) as a second encoding.
"""
import time

import z3
from z3 import BitVecVal, And, Or, Not, BoolVal

from vlib import mirdump, symex
from vlib.symex import Ptr, Opaque, box, discharge, State, Enum
from props import valmodel as V

OPS = ['Lt', 'Le', 'Gt', 'Ge']
CLASSES = [('Int', 'Int'), ('Float', 'Float'), ('Int', 'Float'), ('Float', 'Int')]
_MODS = None


def want_of(op, l, lc, r, rc):
    lt, eq, gt = V.math_cmp(l, lc, r, rc)
    return {'Lt': lt, 'Le': Or(lt, eq), 'Gt': gt, 'Ge': Or(gt, eq)}[op]


def show(m, v, c):
    if c == 'Int': return str(m.eval(v.fields['Int'][0], True).as_signed_long())
    f = m.eval(v.fields['Float'][0], True)
    try:
        return repr(float(f.as_string())) if not (f.isNaN() or f.isInf()) else ('NaN' if f.isNaN() else ('-inf' if f.isNegative() else 'inf'))
    except Exception:
        return str(f)


def f64_bits(m, v):
    f = m.eval(z3.fpToIEEEBV(v.fields['Float'][0]), True)
    return f.as_long()


def job(which, op, lc, rc, overflow_checks=True):
    """which: 'binop' = eval_binary_op, 'arm' = Expr::Binary arm of eval_expr_with_functions"""
    mods = _MODS
    binops = V.variants()['BinOp']
    l, cl = V.sym_value('l', [lc]); r, cr = V.sym_value('r', [rc])
    opv = Enum('BinOp', BitVecVal(binops.index(op), 64), {op: []})
    st = State(roots={'calls': [0]})
    st.path.assume(cl); st.path.assume(cr)
    t0 = time.time()
    if which == 'binop':
        ex = V.ValExec(mods, overflow_checks=overflow_checks)
        results = ex.run('eval_binary_op', [box(opv), box(l), box(r)], st=st)
    else:
        def rec(ex, st_, callee, args):
            c = st_.roots['calls']; c[0] += 1
            if c[0] > 2: raise symex.Unsupported('more than two operand evaluations in the Binary arm')
            return Enum('Option', BitVecVal(1, 64), {'Some': [l if c[0] == 1 else r], 'None': []})
        ex = V.ValExec(mods, [(r'^eval_expr_with_functions$', rec)], overflow_checks=overflow_checks)
        exprs = V.variants()['Expr']
        expr = Enum('Expr', BitVecVal(exprs.index('Binary'), 64), {'Binary': [opv, box(Opaque('left-expr')), box(Opaque('right-expr'))]})
        f = ex.find_func('eval_expr_with_functions')
        results = ex.run(f, [box(expr), box(Opaque('event')), box(Opaque('ctx')), box(Opaque('functions')), box(Opaque('bindings'))], st=st)
    want = want_of(op, l, lc, r, rc)

    def post(res):
        isb = V.opt_is_some_bool(res.ret, True if False else z3.BoolVal(True))
        isb_f = V.opt_is_some_bool(res.ret, z3.BoolVal(False))
        some_bool = Or(isb, isb_f)
        return [('no-value: a numeric comparison yields Some(Bool(_))', some_bool),
                ('wrong-value: the boolean equals the mathematical order', z3.Implies(some_bool, V.opt_is_some_bool(res.ret, want)))]
    vs = discharge(ex, results, post)
    out = []
    for v in vs:
        d = {'name': v.name, 'status': v.status, 'secs': v.secs, 'kind': v.kind, 'where': v.where}
        if v.model is not None:
            d['l'] = show(v.model, l, lc); d['r'] = show(v.model, r, rc)
            if lc == 'Float': d['l_bits'] = f64_bits(v.model, l)
            if rc == 'Float': d['r_bits'] = f64_bits(v.model, r)
        out.append(d)
    return {'which': which, 'op': op, 'lc': lc, 'rc': rc, 'paths': len(results), 'verdicts': out, 'queries': ex.queries, 'solver_s': ex.solver_s,
            'inconclusive': list(ex.inconclusive), 'funcs': sorted(ex.visited_funcs), 'wall_s': time.time() - t0}


def _worker(a):
    try:
        return job(*a)
    except Exception as e:      # any failure of the machinery is inconclusive, never a pass
        return {'which': a[0], 'op': a[1], 'lc': a[2], 'rc': a[3], 'error': str(e), 'verdicts': [], 'paths': 0, 'queries': 0, 'solver_s': 0, 'inconclusive': []}


def load_mods(ctx=None, profiles=(True,)):
    global _MODS
    mods = []
    for c in ('runtime', 'core'):
        m, info = mirdump.load(c)
        mods.append(m)
        if ctx is not None:
            ctx.functions.append({'crate': info['crate'], 'source_hash': info['source_hash'], 'mir_functions': info['functions'], 'dump_s': info['dump_s']})
    _MODS = mods
    return mods


def run(ctx):
    from concurrent.futures import ProcessPoolExecutor
    import multiprocessing as mp
    from vlib import replay, models
    from vlib.driver import Finding
    load_mods(ctx)
    ctx.engines.append('M (MIR symbolic execution -> Z3)')
    ctx.bounds = {'operand_values': 'all i64, all f64 bit patterns (NaN, +-inf, +-0, subnormals)', 'operators': OPS,
                  'operand_classes': ['%s/%s' % c for c in CLASSES], 'loops': 'none',
                  'outside': 'operands that are not Int/Float (no value by design); how the engine routes the result'}
    ctx.assumptions += ['Expr::Binary arm: the two recursive operand evaluations return an arbitrary Some(Int|Float) (any value the sub-expressions can produce)',
                        'oracle: exact comparison by range split and round-toward-zero inside BV+FP (no reals)']
    tasks = [(w, op, lc, rc) for w in ('binop', 'arm') for op in OPS for lc, rc in CLASSES]
    # engine K in a thread (cargo kani is a subprocess), engine M in a process pool
    import threading
    from vlib import kprop
    binp = replay.build('rt')

    def k_replay(op, lc, rc):
        def dec(vals, failed):
            def one(c, b): return str(kprop.le_int(b, signed=True)) if c == 'Int' else str(kprop.le_int(b))
            return [binp, 'cmp', 'binop', op, lc, one(lc, vals[0]['bytes']), rc, one(rc, vals[1]['bytes'])]
        return dec
    def k_key(op, lc, rc):
        return lambda failed: 'eval_binary_op:%s:%s/%s:%s' % (op, lc, rc, 'no-value' if any('no value' in c for c, _ in failed) else 'wrong-value')
    specs = [kprop.H('c08::c08_%s_%s_%s' % (op.lower(), lc.lower(), rc.lower()), 'eval_binary_op', '%s %s/%s' % (op, lc, rc),
                     key=k_key(op, lc, rc), replay=k_replay(op, lc, rc), replay_known=lambda e: [binp] + list(e['replay']),
                     text='eval_binary_op: %s %s %s does not yield the mathematical order' % (lc, op, rc)) for op in OPS for lc, rc in CLASSES]
    if ctx.tier == 'thorough':
        specs.append(kprop.H('c08::c08_twin_must_fail', 'eval_binary_op', 'twin', twin=True))
    kth = threading.Thread(target=lambda: kprop.run_harnesses(ctx, 'k-runtime', specs, jobs=6, harness_timeout=240))
    kth.start()
    with ProcessPoolExecutor(max_workers=10, mp_context=mp.get_context('fork')) as pool:
        res = list(pool.map(_worker, tasks))
    kth.join()
    for r in res:
        tgt = 'eval_binary_op' if r['which'] == 'binop' else 'eval_expr_with_functions[Expr::Binary]'
        cls = '%s %s/%s' % (r['op'], r['lc'], r['rc'])
        if r.get('error'):
            ctx.inconclusive.append('%s %s: %s' % (tgt, cls, r['error'])); continue
        for why in r['inconclusive']: ctx.inconclusive.append('%s %s: %s' % (tgt, cls, why))
        ctx.queries += r['queries']; ctx.solver_s += r['solver_s']
        ctx.add_obligations(tgt, r['verdicts'], cls=cls)
        bad = [v for v in r['verdicts'] if v['status'] == 'violated']
        ctx.samples.append({'target': tgt, 'class': cls, 'paths': r['paths'], 'verdicts': [v['status'] for v in r['verdicts']]})
        seen = set()
        for v in bad:
            shape = v['name'].split(':')[0]          # no-value | wrong-value | panic text
            if shape in seen: continue
            seen.add(shape)
            ctx.findings.append(Finding('%s:%s:%s/%s:%s' % (tgt, r['op'], r['lc'], r['rc'], shape),
                                        '%s: %s %s %s: %s (l=%s, r=%s)' % (tgt, r['lc'], r['op'], r['rc'], v['name'], v.get('l'), v.get('r')),
                                        [binp, 'cmp', r['which'], r['op'], r['lc'], str(v.get('l_bits', v.get('l'))), r['rc'], str(v.get('r_bits', v.get('r')))],
                                        {'l': v.get('l'), 'r': v.get('r')}))
    ctx.models += sorted(models.USED)
