"""C04 — partition key normalisation: Value::to_partition_key on the two key types the property quantifies over (engine M).

The function is executed from its MIR on a symbolic Value restricted to Str / Int.  Every callee is cut: `<i64 as ToString>::to_string` is
the uninterpreted injective rendering `dec(n)` of its argument; ANY other callee (a hand-written renderer, a normalising helper ...) returns
an arbitrary string, so a change of the function's shape shows up as a failing obligation whose witness is then replayed natively
(replay/rt `partkey`) — it is reported only if the real function maps a legitimate key to something other than its own text / its decimal
rendering, or lets two distinct integers share a key; otherwise the check is inconclusive (exit 2), never an alarm.
Obligations:
  str-own-key   a Str key is its own partition key (borrowed from the value: the very same string, no normalisation)
  int-decimal   an Int key's partition key is dec(n) of exactly that integer (all 64 bits)
"""
import re
import time

import z3
from z3 import BitVec, BitVecVal, And, Or, Not, BoolVal

from vlib import mirdump, models, containers
from vlib.symex import Ptr, Opaque, box, State, Enum, Exec, Unsupported
from props import valmodel as V

_MOD = None


def load(ctx=None):
    global _MOD
    m, info = mirdump.load('core')
    _MOD = m
    if ctx is not None:
        ctx.functions.append({'crate': info['crate'], 'source_hash': info['source_hash'], 'mir_functions': info['functions'], 'dump_s': info['dump_s']})


class Dec:
    """dec(n): the decimal rendering of a 64-bit integer (injective, uninterpreted)"""
    def __init__(self, n): self.n = n


class Unknown:
    def __init__(self, callee): self.callee = callee


def job(spec):
    t0 = time.time()
    def h_to_string(ex, st, callee, args):
        return Dec(ex.deref(args[0]))
    def h_unknown(ex, st, callee, args):
        st.roots['unknown'] = st.roots.get('unknown', []) + [callee]
        return Unknown(callee)
    hk = [(re.compile(r'^<i64 as ToString>::to_string$'), h_to_string), (re.compile(r'.*'), h_unknown)]
    ex = Exec([_MOD], hk, variants=V.variants(), loop_bound=4, step_budget=20000)
    val, cons = V.sym_value('key', ['Str', 'Int'])
    cell = [val]
    st0 = State(roots={'cell': cell, 'unknown': []}); st0.path.assume(cons)
    fns = [x for x in _MOD.funcs if re.search(r'^value::<impl at [^>]*>::to_partition_key$', x)]
    if len(fns) != 1: raise Unsupported('Value::to_partition_key: %s' % fns)
    res = ex.run(_MOD.funcs[fns[0]], [Ptr(cell, 0)], st=st0)
    verdicts = []; stats = {'q': 0, 's': 0.0}
    n_in = val.fields['Int'][0]; s_in = ex.deref(val.fields['Str'][0]).tok
    vs = V.variants()['Value']
    def prove(pc, cond, nm):
        s = z3.Solver(); s.set('timeout', 30000); s.add(*pc); s.add(Not(cond))
        t = time.time(); rc = s.check(); dt = time.time() - t; stats['q'] += 1; stats['s'] += dt
        d = {'name': nm, 'status': 'proved' if rc == z3.unsat else ('violated' if rc == z3.sat else 'unknown'), 'secs': dt, 'kind': 'post'}
        if rc == z3.sat:
            m = s.model(); d['witness'] = {'class': 'Int' if m.eval(val.disc, True).as_long() == vs.index('Int') else 'Str', 'int': m.eval(n_in, True).as_signed_long()}
        verdicts.append(d)
    returned = 0
    for r in res:
        if r.status != 'return':
            verdicts.append({'name': 'total: to_partition_key returns (path ends in %s)' % r.status, 'status': 'violated' if r.status == 'panic' else 'unknown', 'secs': 0, 'kind': 'post', 'witness': {}})
            continue
        returned += 1
        pc = r.path.pc
        out = r.ret
        while isinstance(out, Ptr): out = out.get()
        pay = None; var = None
        if isinstance(out, Enum):
            for k, f in out.fields.items():
                if f: var, pay = k, f[0]
        elif isinstance(out, list) and len(out) == 1:      # Cow is not a crate enum: the aggregate keeps its single operand
            pay = out[0]
        p = pay
        while isinstance(p, Ptr): p = p.get()
        unk = r.st.roots.get('unknown', [])
        is_str = val.disc == vs.index('Str'); is_int = val.disc == vs.index('Int')
        if isinstance(p, V.StrTok): ok = And(is_str, p.tok == s_in)
        elif isinstance(p, Dec): ok = And(is_int, p.n == n_in)
        else: ok = BoolVal(False)         # an arbitrary string (unknown callee %s): nothing ties it to the key
        nm = 'str-own-key / int-decimal: the partition key is the Str itself, or dec(n) of exactly the Int' + ((' [callee cut to an arbitrary string: %s]' % ', '.join(unk)) if unk else '')
        prove(pc, ok, nm)
    if returned < 2: verdicts.append({'name': 'reach: both the Str and the Int arm return', 'status': 'unknown', 'secs': 0, 'kind': 'post'})
    return {'spec': [str(x) for x in spec], 'verdicts': verdicts, 'paths': len(res), 'queries': ex.queries + stats['q'], 'solver_s': ex.solver_s + stats['s'], 'inconclusive': list(ex.inconclusive), 'wall_s': time.time() - t0}


def _worker(spec):
    try:
        return job(spec)
    except Exception as e:
        import traceback; traceback.print_exc()
        return {'spec': [str(x) for x in spec], 'error': '%s: %s' % (type(e).__name__, e), 'verdicts': [], 'paths': 0, 'queries': 0, 'solver_s': 0, 'inconclusive': []}


def collect(ctx, r):
    from vlib import replay
    from vlib.driver import Finding
    tgt = 'Value::to_partition_key'; cls = 'Str / Int keys'
    if r.get('error'):
        ctx.inconclusive.append('%s (%s): %s' % (tgt, cls, r['error'])); return
    for why in sorted(set(r['inconclusive'])): ctx.inconclusive.append('%s (%s): %s' % (tgt, cls, why))
    ctx.queries += r['queries']; ctx.solver_s += r['solver_s']
    ctx.add_obligations(tgt, r['verdicts'], cls=cls)
    ctx.samples.append({'class': tgt + ' ' + cls, 'paths': r['paths']})
    seen = set()
    for v in r['verdicts']:
        if v['status'] != 'violated': continue
        key = 'to_partition_key:%s' % v['name'].split(':')[0].split(' ')[0]
        if key in seen: continue
        seen.add(key)
        w = v.get('witness') or {}
        ctx.findings.append(Finding(key, '%s: %s (witness %s)' % (tgt, v['name'], w), [replay.build('rt'), 'partkey'], w))
