"""C10 — compile-time constant folding never changes what an expression computes (engine M).

`fold_binary` / `fold_unary` are executed from the MIR of varpulis-parser on symbolic operands (each operand an integer literal,
a float literal or a field reference `x`), then BOTH the original and the folded expression are evaluated with the real
`eval_expr_with_functions` (MIR of varpulis-runtime) against the same symbolic event, where `x` is missing or holds a value of
any type.  Obligations: the two evaluations agree (same value up to Value::eq, or both no value), and the folder does not panic.
"""
import time

import z3
from z3 import BitVec, BitVecVal, And, Or, Not, If, BoolVal, FP, Implies, fpIsNaN, fpEQ

from vlib import mirdump, symex, models
from vlib.symex import Ptr, Opaque, box, discharge, State, Enum, Fork, F64, Unsupported
from props import valmodel as V
from props.c11 import extra_hooks as std_hooks

_MODS = None
OPERAND = ['Int', 'Float', 'Ident']


def load(ctx=None):
    global _MODS
    mods = []
    for c in ('runtime', 'parser', 'core'):
        m, info = mirdump.load(c, closures=(c == 'runtime'))
        mods.append(m)
        if ctx is not None:
            ctx.functions.append({'crate': info['crate'], 'source_hash': info['source_hash'], 'mir_functions': info['functions'], 'dump_s': info['dump_s']})
    _MODS = mods


def sym_operand(tag):
    ex = V.variants()['Expr']
    d = BitVec(tag + '_kind', 64)
    fields = {'Int': [BitVec(tag + '_i', 64)], 'Float': [FP(tag + '_f', F64)], 'Ident': [Opaque('name:x')]}
    return Enum('Expr', d, fields), Or(*[d == ex.index(k) for k in OPERAND])


def val_equal(a, b):
    """a, b: Option<Value> results; equality up to Value::eq; payloads of opaque classes compare by identity"""
    if not (isinstance(a, Enum) and isinstance(b, Enum) and a.ty == 'Option' and b.ty == 'Option'): return BoolVal(False)
    pa, pb = a.fields.get('Some'), b.fields.get('Some')
    both_none = And(a.disc == 0, b.disc == 0)
    if not pa or not pb or not isinstance(pa[0], Enum) or not isinstance(pb[0], Enum):
        return both_none
    va, vb = pa[0], pb[0]
    cs = []
    for c in V.VALUE_CLASSES:
        fa, fb = va.fields.get(c), vb.fields.get(c)
        k = V.vdisc(c)
        if fa is None or fb is None:
            cs.append(Not(And(va.disc == k, vb.disc == k)) if (fa is None) != (fb is None) or c != 'Null' else BoolVal(True))
            if c == 'Null': cs[-1] = BoolVal(True)
            continue
        if c == 'Null': continue
        x, y = fa[0], fb[0]
        if z3.is_expr(x) and z3.is_expr(y):
            e = Or(And(fpIsNaN(x), fpIsNaN(y)), fpEQ(x, y)) if z3.is_fp(x) else x == y
        else:
            xd, yd = x, y
            while isinstance(xd, Ptr): xd = xd.get()
            while isinstance(yd, Ptr): yd = yd.get()
            e = BoolVal(xd is yd)
        cs.append(Implies(And(va.disc == k, vb.disc == k), e))
    return Or(both_none, And(a.disc == 1, b.disc == 1, va.disc == vb.disc, *cs))


POW_MAX = 6


def pow_hooks():
    """exact models for integer/float powers with exponent in [0, POW_MAX] (the stated bound for Pow): wrapping_pow by unrolled
    multiplication, f64::powi by the square-and-multiply loop of compiler-rt's __powidf2 (what rustc emits a call to on x86-64)"""
    from z3 import fpMul, RNE, FPVal, ULE, LShR
    def h_wpow(ex, st, callee, args):
        a, e = args
        r = BitVecVal(1, a.size())
        for i in range(POW_MAX):
            r = If(z3.ULT(BitVecVal(i, e.size()), e), r * a, r)
        st.path.assume(ULE(e, POW_MAX))
        return r

    def h_powi(ex, st, callee, args):
        x, n = args
        st.path.assume(And(n >= 0, n <= POW_MAX))
        r = FPVal(1.0, F64); a = x; b = n
        for i in range(3):     # POW_MAX < 8: three bits
            r = If(z3.Extract(i, i, b) == 1, fpMul(RNE(), r, a), r)
            a = fpMul(RNE(), a, a)
        return r
    return [(r'^core::num::<impl i64>::wrapping_pow$', h_wpow), (r'^(?:std::)?f64::<impl f64>::powi$', h_powi)]


def eval_hooks(xopt):
    def h_bind_get(ex, st, callee, args): return models.none()

    def h_event_get(ex, st, callee, args):
        return xopt

    def h_cloned(ex, st, callee, args):
        o = args[0]
        if not isinstance(o, Enum): raise Unsupported('cloned on %r' % (o,))
        p = o.fields.get('Some')
        v = ex.deref(p[0]) if p else Opaque('none')
        return Enum('Option', o.disc, {'Some': [v], 'None': []})

    def h_or_else(ex, st, callee, args):
        from vlib.containers import call_closure
        o, clo = args
        return Fork([(o.disc == 1, lambda ex, st, a: a[0]), (o.disc != 1, lambda ex, st, a: call_closure(ex, a[1], [], st=st))])
    return [(r'^HashMap::<(?:std::string::)?String, (?:varpulis_core::)?Value, .*>::get::<.*>$', h_bind_get), (r'^(?:event::)?Event::get(?:::<.*>)?$', h_event_get),
            (r'^(?:std::option::)?Option::<&(?:varpulis_core::)?Value>::cloned$', h_cloned), (r'^(?:std::option::)?Option::<(?:varpulis_core::)?Value>::or_else::<.*>$', h_or_else)]


def evaluate(expr, xopt, st0, oc):
    """all evaluation paths of `expr` starting from a copy of state st0: [(pc, ret, obligations)]"""
    import copy
    from vlib import containers
    hooks = pow_hooks() + eval_hooks(xopt) + std_hooks()
    ex = V.ValExec(_MODS, [(p, f) for p, f in hooks] + [(rx.pattern, fn) for rx, fn in containers.container_hooks()], overflow_checks=oc)
    f = ex.find_func('eval_expr_with_functions')
    st = State(roots={})
    st.path.pc = list(st0.path.pc)
    res = ex.run(f, [box(expr), box(Opaque('event')), box(Opaque('ctx')), box(Opaque('functions')), box(Opaque('bindings'))], st=st)
    return ex, res


def job(kind, opname, oc=True):
    t0 = time.time()
    from vlib import containers
    ex = V.ValExec(_MODS, [(r'^Box::<(?:varpulis_core::)?(?:ast::)?Expr>::new$', lambda ex, st, callee, args: box(args[0]))] + pow_hooks() + std_hooks(), overflow_checks=oc)
    exprs = V.variants()['Expr']
    L, cl = sym_operand('L'); R, cr = sym_operand('R')
    xv, cx = V.sym_value('x', V.VALUE_CLASSES)
    xp = z3.Bool('x_present')
    xopt = Enum('Option', If(xp, BitVecVal(1, 64), BitVecVal(0, 64)), {'Some': [box(xv)], 'None': []})
    st = State()
    st.path.assume(And(cl, cx))
    if kind == 'binary':
        st.path.assume(cr)
        ops = V.variants()['BinOp']
        opv = Enum('BinOp', BitVecVal(ops.index(opname), 64), {opname: []})
        import copy
        orig = Enum('Expr', BitVecVal(exprs.index('Binary'), 64), {'Binary': [opv, box(L), box(R)]})
        fres = ex.run('fold_binary', [copy.deepcopy(opv), L, R], st=st)
    else:
        ops = V.variants()['UnaryOp']
        opv = Enum('UnaryOp', BitVecVal(ops.index(opname), 64), {opname: []})
        orig = Enum('Expr', BitVecVal(exprs.index('Unary'), 64), {'Unary': [opv, box(L)]})
        fres = ex.run('fold_unary', [opv, L], st=st)
    verdicts = []
    queries = ex.queries; solver_s = ex.solver_s
    inconc = list(ex.inconclusive)
    # folder panic obligations
    for v in discharge(ex, fres, None):
        verdicts.append(({'name': 'folder: ' + v.name, 'status': v.status, 'secs': v.secs, 'kind': 'panic'}, v.model))
    npaths = 0
    skipped = 0
    for fr_ in fres:
        if fr_.status != 'return': continue
        folded = fr_.ret
        # not folded: the folder rebuilt Binary/Unary from the very same operands — both evaluations run the same code on the same
        # objects, so they agree by construction (and comparing them would only multiply paths)
        if isinstance(folded, Enum) and z3.is_bv_value(z3.simplify(folded.disc)):
            vname = exprs[z3.simplify(folded.disc).as_long()]
            pay = folded.fields.get(vname, [])
            same = False
            if kind == 'binary' and vname == 'Binary' and len(pay) == 3:
                same = ex.deref(pay[1]) is L and ex.deref(pay[2]) is R and z3.is_true(z3.simplify(pay[0].disc == opv.disc))
            if kind == 'unary' and vname == 'Unary' and len(pay) == 2:
                same = ex.deref(pay[1]) is L and z3.is_true(z3.simplify(pay[0].disc == opv.disc))
            if same:
                skipped += 1
                verdicts.append(({'name': 'not folded on this path: the rebuilt expression is the original one (same operator, same operand objects)', 'status': 'proved', 'secs': 0.0, 'kind': 'structural'}, None))
                continue
        e1, r1 = evaluate(orig, xopt, fr_.st, oc)
        e2, r2 = evaluate(folded, xopt, fr_.st, oc)
        inconc += e1.inconclusive + e2.inconclusive
        queries += e1.queries + e2.queries; solver_s += e1.solver_s + e2.solver_s
        for a in r1:
            for b in r2:
                npaths += 1
                pc = a.path.pc + b.path.pc[len(fr_.st.path.pc):]
                # a panic of the evaluator is C11's subject: compare only completed evaluations
                if a.status != 'return' or b.status != 'return': continue
                cond = val_equal(a.ret, b.ret)
                s = z3.Solver(); s.set('timeout', 60000); s.add(*pc); s.add(Not(cond))
                t1 = time.time(); rc = s.check(); queries += 1; dt = time.time() - t1; solver_s += dt
                m = s.model() if rc == z3.sat else None
                verdicts.append(({'name': 'folded and unfolded expression evaluate to the same value (or both to none)', 'status': 'proved' if rc == z3.unsat else ('violated' if rc == z3.sat else 'unknown'), 'secs': dt, 'kind': 'post'}, m))
    out = []
    exv = V.variants()
    for d, m in verdicts:
        if m is not None:
            def opnd(e):
                k = exv['Expr'][m.eval(e.disc, True).as_long()]
                if k == 'Int': return ['Int', str(m.eval(e.fields['Int'][0], True).as_signed_long())]
                if k == 'Float': return ['Float', str(m.eval(z3.fpToIEEEBV(e.fields['Float'][0]), True).as_long())]
                return ['Ident', 'x']
            xc = exv['Value'][m.eval(xv.disc, True).as_long()]
            xpay = {'Int': lambda: str(m.eval(xv.fields['Int'][0], True).as_signed_long()), 'Float': lambda: str(m.eval(z3.fpToIEEEBV(xv.fields['Float'][0]), True).as_long()),
                    'Bool': lambda: 'true' if z3.is_true(m.eval(xv.fields['Bool'][0], True)) else 'false'}.get(xc, lambda: 'x')()
            d['witness'] = {'L': opnd(L), 'R': opnd(R) if kind == 'binary' else None, 'x_present': bool(z3.is_true(m.eval(xp, True))), 'x': [xc, xpay]}
        out.append(d)
    return {'kind': kind, 'op': opname, 'oc': oc, 'paths': npaths, 'verdicts': out, 'queries': queries, 'solver_s': solver_s, 'inconclusive': inconc, 'wall_s': time.time() - t0}


def _worker(a):
    try:
        return job(*a)
    except Exception as e:
        import traceback; traceback.print_exc()
        return {'kind': a[0], 'op': a[1], 'oc': a[2] if len(a) > 2 else True, 'error': '%s: %s' % (type(e).__name__, e), 'verdicts': [], 'paths': 0, 'queries': 0, 'solver_s': 0, 'inconclusive': []}


def wkey(kind, op, w):
    """role-based key of a disagreement: operator, operand kinds, type of the field value"""
    if not w: return '%s:%s' % (kind, op)
    l = w['L'][0] + ('(%s)' % w['L'][1] if w['L'][0] == 'Int' and w['L'][1] in ('0', '1') else '')
    r = (w['R'][0] + ('(%s)' % w['R'][1] if w['R'][0] == 'Int' and w['R'][1] in ('0', '1') else '')) if w.get('R') else ''
    # the evaluator treats every non-numeric type alike (one path): group them so the key does not depend on the solver's pick
    xc = w['x'][0] if w['x'][0] in ('Int', 'Float') else 'non-numeric'
    xs = (xc if w['x_present'] else 'missing') if 'Ident' in (w['L'][0], (w['R'] or [''])[0]) else '-'
    return 'fold_%s:%s:%s,%s:x=%s' % (kind, op, l, r, xs)


def run(ctx):
    from concurrent.futures import ProcessPoolExecutor
    import multiprocessing as mp
    from vlib import replay
    from vlib.driver import Finding
    load(ctx)
    ctx.engines.append('M (MIR symbolic execution -> Z3)')
    binops = V.variants()['BinOp']; unops = V.variants()['UnaryOp']
    ctx.bounds = {'programs': 'Binary(op, L, R) and Unary(op, L) with L, R each an integer literal (any i64), a float literal (any f64) or the field reference x; every operator',
                  'events': 'x missing, or x of any value type (Int/Float/Bool symbolic, strings/arrays/maps opaque)', 'depth': 1,
                  'outside': 'nested sub-expressions beyond one level (fold_expr recursion over the tree), Pow with symbolic exponent is compared through uninterpreted powi/wrapping_pow (native replay decides), statement/stream-op traversal of fold_program'}
    ctx.assumptions += ['bindings are empty (stream filters); Event::get returns the symbolic field', 'Value equality is Value::eq (NaN == NaN, -0.0 == 0.0)']
    tasks = [('binary', op, True) for op in binops] + [('unary', op, True) for op in unops]
    with ProcessPoolExecutor(max_workers=14, mp_context=mp.get_context('fork')) as pool:
        res = list(pool.map(_worker, tasks))
    binp = None
    seen = set()
    for r in res:
        tgt = 'fold_%s[%s] vs eval_expr_with_functions' % (r['kind'], r['op'])
        if r.get('error'):
            ctx.inconclusive.append('%s: %s' % (tgt, r['error'])); continue
        for why in r['inconclusive']: ctx.inconclusive.append('%s: %s' % (tgt, why))
        ctx.queries += r['queries']; ctx.solver_s += r['solver_s']
        ctx.add_obligations(tgt, r['verdicts'], cls='operands Int|Float|x, x of any type or missing')
        ctx.samples.append({'target': tgt, 'paths': r['paths'], 'obligations': len(r['verdicts'])})
        for v in r['verdicts']:
            if v['status'] != 'violated': continue
            w = v.get('witness')
            key = wkey(r['kind'], r['op'], w) + (':panic' if v['kind'] == 'panic' else '')
            if key in seen: continue
            seen.add(key)
            if binp is None: binp = replay.build('rt')
            a = [binp, 'fold', r['kind'], r['op']] + (w['L'] + (w['R'] or []) + [('1' if w['x_present'] else '0')] + w['x'] if w else [])
            ctx.findings.append(Finding(key, '%s: %s (witness %s)' % (tgt, v['name'], w), a, w))
    ctx.models += sorted(models.USED)
