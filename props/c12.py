"""C12 — tumbling, count and session windows partition their input exactly (engine M, one step from an arbitrary valid state).

For CountWindow / TumblingWindow / SessionWindow the MIR of add_shared, advance_watermark and flush_shared (with ColumnarBuffer's
push / take_all / len / is_empty inlined from columnar.rs) is executed with the buffer length enumerated (0..K) and all
timestamps, durations and counters symbolic.  Step obligations:
  * partition: emitted ++ post-buffer == pre-buffer ++ [new event], in arrival order, nothing lost or duplicated
  * a count window closes with exactly `count` events
  * tumbling (in-order): the post-buffer only holds events earlier than its first event + duration; invariant preserved
  * session (in-order): consecutive buffered events are at most `gap` apart; a gap > `gap` closes the session
"""
import time

import z3
from z3 import BitVec, BitVecVal, And, Or, Not, If, BoolVal, ULE, ULT, UGE, Implies

from vlib import mirdump, symex, models
from vlib.symex import Ptr, Opaque, box, discharge, State, Enum
from vlib.containers import ListModel
from props import winmodel as W
from props.c13 import emitted_list

_MODS = None


def load(ctx=None):
    global _MODS
    mods = []
    for c in ('runtime', 'core'):
        m, info = mirdump.load(c, closures=(c == 'runtime'))
        mods.append(m)
        if ctx is not None:
            ctx.functions.append({'crate': info['crate'], 'source_hash': info['source_hash'], 'mir_functions': info['functions'], 'dump_s': info['dump_s']})
    _MODS = mods


def buf_of(w, fields):
    col = w[fields.index('columnar')]
    src_f = W.struct_fields(open(mirdump.crate_dir('runtime') + '/src/columnar.rs').read(), 'ColumnarBuffer')
    ev = col[src_f.index('events')]; tsl = col[src_f.index('timestamps')]
    return W.arcs(ev), len(tsl.items)


def partition(pre, new, em, buf, some):
    """emitted ++ buffer == pre ++ [new] in order (python-level on identities); `em` None means nothing emitted on this path"""
    allv = [W.ev_tag(a) for a in pre] + ([W.ev_tag(new)] if new is not None else [])
    got = ([W.ev_tag(a) for a in em] if em is not None else []) + [W.ev_tag(a) for a in buf]
    return allv == got


def job(kind, method, m, K):
    ex = W.WinExec(_MODS)
    ts = [BitVec('t%d' % i, 64) for i in range(m)]
    evs = [W.mk_event('e%d' % i, ts[i]) for i in range(m)]
    tn = BitVec('tnew', 64)
    new = W.mk_event('new', tn) if method == 'add_shared' else None
    col, _ = W.columnar(evs)
    pre = [And(*[ts[i] <= ts[i + 1] for i in range(m - 1)])]            # in-order arrival (ties allowed)
    syms = {'tnew': tn}
    if kind == 'count':
        cnt = BitVec('count', 64); syms['count'] = cnt
        win, fields = W.struct_of('CountWindow', {'count': cnt, 'columnar': col})
        pre += [UGE(cnt, 1), ULE(cnt, K + 1), ULT(BitVecVal(m, 64), cnt)]     # invariant: fewer than `count` buffered
        name = 'CountWindow'
    elif kind == 'tumbling':
        d = BitVec('duration', 64); start = BitVec('window_start', 64); has = z3.Bool('has_start'); syms.update(duration=d, start=start)
        win, fields = W.struct_of('TumblingWindow', {'duration': d, 'columnar': col, 'window_start': W.opt(has, start)})
        pre += [d >= 1, d < W.D_MAX, W.time_range(start)]       # a zero-length tumbling window is degenerate (every event closes it): outside
        if m:   # invariant: a start exists, is not after the first event, and every buffered event is earlier than start + duration
            pre += [has, start <= ts[0]] + [ts[i] < start + d for i in range(m)]
        name = 'TumblingWindow'
    else:
        g = BitVec('gap', 64); last = BitVec('last_event_time', 64); has = z3.Bool('has_last'); syms.update(gap=g, last=last)
        win, fields = W.struct_of('SessionWindow', {'gap': g, 'columnar': col, 'last_event_time': W.opt(has, last)})
        pre += [g >= 0, g < W.D_MAX, W.time_range(last)]
        if m:   # invariant: last_event_time is the newest buffered event; consecutive gaps within the session gap
            pre += [has, last == ts[-1]] + [ts[i + 1] - ts[i] <= g for i in range(m - 1)]
        else:
            pre += [Not(has)] if method != 'advance_watermark' else []
        name = 'SessionWindow'
    st = State(roots={'win': win})
    st.path.assume(And(W.time_range(tn, *ts), *pre))
    if method == 'add_shared':
        if m: st.path.assume(ts[-1] <= tn)
        if kind == 'tumbling': st.path.assume(Implies(has, start <= tn))
        results = ex.run('%s::add_shared' % name, [box(win), new], st=st)
    elif method == 'advance_watermark':
        results = ex.run('%s::advance_watermark' % name, [box(win), tn], st=st)
    else:
        results = ex.run('%s::flush_shared' % name, [box(win)], st=st)

    def post(r):
        w = r.st.roots['win']
        buf, ntimes = buf_of(w, fields)
        out = []
        if method == 'flush_shared':
            em = W.arcs(r.ret) if isinstance(r.ret, ListModel) else None
            out.append(('flush returns every buffered event once, in arrival order, and empties the buffer', BoolVal(em is not None and partition(evs, None, em, buf, None) and len(buf) == 0)))
            return out
        some, em = emitted_list(r.ret)
        out.append(('every event is in exactly one closed window or still buffered, in arrival order', BoolVal(partition(evs, new, em if em is not None else None, buf, some)) if em is not None else And(Not(some), BoolVal(partition(evs, new, None, buf, some)))))
        out.append(('timestamp column stays aligned with the buffered events', BoolVal(ntimes == len(buf))))
        bts = [W.ev_ts(a) for a in buf]
        if kind == 'count':
            if method == 'add_shared':
                out.append(('a count window closes exactly when it holds `count` events', some == UGE(BitVecVal(m + 1, 64), cnt)))
                if em is not None: out.append(('a closed count window has exactly `count` events', Implies(some, cnt == len(em))))
        elif kind == 'tumbling':
            ws = w[fields.index('window_start')]
            if method == 'add_shared':
                for i, t in enumerate(bts):
                    out.append(('buffered event %d is earlier than the first buffered event + duration' % i, t < bts[0] + d))
                out.append(('invariant: a non-empty buffer has a window start not after its first event', And(ws.disc == 1, (ws.fields.get('Some') or [BitVecVal(0, 64)])[0] <= bts[0]) if bts else BoolVal(True)))
                for i, t in enumerate(bts):
                    out.append(('invariant: buffered event %d is earlier than window_start + duration' % i, t < (ws.fields.get('Some') or [BitVecVal(0, 64)])[0] + d))
                if em is not None and m:
                    out.append(('a window is closed only by an event at or after its end', Implies(some, tn >= start + d)))
            else:
                out.append(('the watermark closes the window exactly when it has passed the window end and events are buffered', some == And(has, tn >= start + d, BoolVal(m > 0))))
        else:
            le = w[fields.index('last_event_time')]
            if method == 'add_shared':
                for i in range(len(bts) - 1):
                    out.append(('consecutive buffered events %d,%d are within the session gap' % (i, i + 1), bts[i + 1] - bts[i] <= g))
                out.append(('invariant: last_event_time is the newest buffered event', And(le.disc == 1, (le.fields.get('Some') or [BitVecVal(0, 64)])[0] == bts[-1]) if bts else BoolVal(False)))
                out.append(('a session is closed exactly by an event more than `gap` after the previous one', some == And(has, tn - last > g)))
            else:
                out.append(('the watermark closes the session exactly when it has reached last event + gap and events are buffered', some == And(has, tn >= last + g, BoolVal(m > 0))))
                out.append(('a closed session leaves no last_event_time behind', Implies(some, le.disc == 0)))
        return out
    return ex, results, post, syms


def run_job(spec):
    kind, method, m, K = spec
    t0 = time.time()
    ex, results, post, syms = job(kind, method, m, K)
    vs = discharge(ex, results, post)
    out = []
    for v in vs:
        d = {'name': v.name, 'status': v.status, 'secs': v.secs, 'kind': v.kind, 'where': v.where}
        if v.model is not None:
            d['witness'] = {k: str(v.model.eval(s, True)) for k, s in syms.items()}
            d['witness'].update({str(x): str(v.model[x]) for x in v.model.decls() if str(x).startswith('t') and len(str(x)) <= 4})
        out.append(d)
    return {'kind': kind, 'method': method, 'm': m, 'paths': len(results), 'verdicts': out, 'queries': ex.queries, 'solver_s': ex.solver_s, 'inconclusive': list(ex.inconclusive),
            'funcs': sorted(ex.visited_funcs), 'wall_s': time.time() - t0}


def _worker(spec):
    try:
        return run_job(spec)
    except Exception as e:
        import traceback; traceback.print_exc()
        return {'kind': spec[0], 'method': spec[1], 'm': spec[2], 'error': '%s: %s' % (type(e).__name__, e), 'verdicts': [], 'paths': 0, 'queries': 0, 'solver_s': 0, 'inconclusive': []}


NAME = {'count': 'CountWindow', 'tumbling': 'TumblingWindow', 'session': 'SessionWindow'}


def run(ctx):
    from concurrent.futures import ProcessPoolExecutor
    import multiprocessing as mp
    from vlib import replay
    from vlib.driver import Finding
    load(ctx)
    K = 3 if ctx.tier == 'quick' else 5
    ctx.engines.append('M (MIR symbolic execution -> Z3)')
    ctx.bounds = {'buffer_length': '0..%d (enumerated), events symbolic' % K, 'count': '1..%d' % (K + 1), 'timestamps': '0 <= t < 2^61 ns, in-order with ties', 'durations/gaps': '0 <= d < 2^50 ns',
                  'steps': 'one step (add_shared / advance_watermark / flush_shared) from an arbitrary valid window state; histories of any length by induction on the stated invariants',
                  'outside': 'Partitioned* wrappers (FxHashMap<String, _>), checkpoint/restore, flush_columnar, out-of-order arrivals for the time conditions (partition obligations hold for any order), engine/pipeline plumbing'}
    ctx.assumptions += ['VecDeque/Vec/iterator models of vlib/containers.py; ColumnarBuffer methods inlined from MIR; column cache (HashMap) opaque',
                        'DateTime<Utc>/TimeDelta are signed 64-bit nanosecond counts; chrono overflow panics are obligations', 'Arc<Event> is a pointer; identity of events = identity of cells']
    tasks = []
    for kind in ('count', 'tumbling', 'session'):
        for method in ('add_shared', 'advance_watermark', 'flush_shared'):
            if kind == 'count' and method == 'advance_watermark': continue
            for m in range(0, K + 1):
                if kind == 'count' and m > K: continue
                tasks.append((kind, method, m, K))
    with ProcessPoolExecutor(max_workers=14, mp_context=mp.get_context('fork')) as pool:
        res = list(pool.map(_worker, tasks))
    binp = None
    seen = set()
    for r in res:
        tgt = '%s::%s' % (NAME[r['kind']], r['method'])
        cls = 'buffer of %d events' % r['m']
        if r.get('error'):
            ctx.inconclusive.append('%s (%s): %s' % (tgt, cls, r['error'])); continue
        for why in r['inconclusive']: ctx.inconclusive.append('%s (%s): %s' % (tgt, cls, why))
        ctx.queries += r['queries']; ctx.solver_s += r['solver_s']
        ctx.add_obligations(tgt, r['verdicts'], cls=cls)
        ctx.samples.append({'target': tgt, 'class': cls, 'paths': r['paths'], 'obligations': len(r['verdicts'])})
        for v in r['verdicts']:
            if v['status'] != 'violated': continue
            key = '%s:%s' % (tgt, v['name'][:70])
            if key in seen: continue
            seen.add(key)
            if binp is None: binp = replay.build('rt')
            ctx.findings.append(Finding(key, '%s with %s: %s violated (witness %s)' % (tgt, cls, v['name'], v.get('witness')), [binp, 'window', r['kind'], '4'], v.get('witness')))
    ctx.models += sorted(models.USED)
