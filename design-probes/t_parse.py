import sys
from mirparse import *
txt=open(sys.argv[1]).read()
fs=parse_functions(txt)
print(len(fs),'functions')
bad=0; tot=0; errs={}
for n,f in fs.items():
    for bb,(st,tm) in f.blocks.items():
        for s in st:
            tot+=1
            try: parse_stmt(s)
            except Exception as e:
                bad+=1; errs.setdefault(str(e)[:60],[]).append(s)
        tot+=1
        try: parse_term(tm)
        except Exception as e:
            bad+=1; errs.setdefault(str(e)[:60],[]).append(tm)
print(tot,'stmts',bad,'unparsed')
for k,v in list(errs.items())[:25]:
    print(len(v),k,'|',v[0][:150])
