"""Spike 2: value-level MIR symbolic execution: eval_binary_op and the Expr::Binary arm of eval_expr_with_functions."""
import copy, re, sys, time
from z3 import *
from mirparse import *

VARIANTS = {
    'Value': ['Null', 'Bool', 'Int', 'Float', 'Str', 'Timestamp', 'Duration', 'Array', 'Map'],
    'Option': ['None', 'Some'],
    'ControlFlow': ['Continue', 'Break'],
    'BinOp': ['Add', 'Sub', 'Mul', 'Div', 'Mod', 'Pow', 'Eq', 'NotEq', 'Lt', 'Le', 'Gt', 'Ge', 'In', 'NotIn', 'Is', 'And', 'Or', 'Xor'],
    'Expr': ['Null', 'Bool', 'Int', 'Float', 'Str', 'Duration', 'Timestamp', 'Array', 'Map', 'Ident', 'Binary', 'Unary'],
}
F64 = Float64(); RNE_ = RNE()


class E:
    def __init__(s, ty, disc, fields): s.ty, s.disc, s.fields = ty, disc, fields
    def __repr__(s): return 'E(%s,%s)' % (s.ty, s.disc)


class Ptr:
    def __init__(s, frame, place): s.frame, s.place = frame, place


class Val:
    def __init__(s, v): s.v = v


class Frame:
    def __init__(s, fn): s.fn = fn; s.locals = {}


class Opaque:
    def __init__(s, tag): s.tag = tag
    def __repr__(s): return 'Opaque(%s)' % s.tag


class Path:
    def __init__(s): s.pc = []; s.obl = []; s.trace = []; s.n = 0


class Unsupported(Exception): pass


def tyname(t):
    t = t.strip().lstrip('&')
    d = 0; out = ''
    for c in t:
        if c == '<': d += 1
        elif c == '>': d -= 1
        elif d == 0: out += c
    out = out.rstrip(':')
    return out.split('::')[-1]


def is_signed(t): return t.strip() in ('i64', 'i32', 'isize', 'i8', 'i16', 'i128')


class Exec:
    def __init__(s, funcs, hooks):
        s.funcs, s.hooks = funcs, hooks
        s.solver = Solver(); s.results = []; s.queries = 0; s.fresh = 0

    def feasible(s, pc):
        s.queries += 1
        s.solver.push(); s.solver.add(*pc); r = s.solver.check(); s.solver.pop()
        return r == sat

    def sym_value(s, tag, classes):
        """fresh symbolic varpulis_core::Value restricted to variant classes"""
        s.fresh += 1; n = '%s%d' % (tag, s.fresh)
        d = BitVec(n + '_disc', 64)
        fields = {'Null': [], 'Bool': [Bool(n + '_b')], 'Int': [BitVec(n + '_i', 64)], 'Float': [FP(n + '_f', F64)], 'Str': [Opaque(n + '_s')],
                  'Timestamp': [BitVec(n + '_t', 64)], 'Duration': [BitVec(n + '_d', 64)], 'Array': [Opaque(n + '_a')], 'Map': [Opaque(n + '_m')]}
        cons = Or(*[d == VARIANTS['Value'].index(c) for c in classes])
        return E('Value', d, fields), cons

    # ---------- places
    def read(s, fr, pl):
        k = pl[0]
        if k == 'local':
            if pl[1] not in fr.locals: raise Unsupported('uninit local %s in %s' % (pl[1], fr.fn.name))
            return fr.locals[pl[1]]
        if k == 'deref':
            p = s.read(fr, pl[1])
            if isinstance(p, Ptr): return s.read(p.frame, p.place)
            if isinstance(p, Val): return p.v
            raise Unsupported('deref of %r' % (p,))
        if k == 'field':
            b = s.read(fr, pl[1])
            if isinstance(b, list): return b[pl[2]]
            if isinstance(b, tuple) and b[0] == 'variant': return b[1][pl[2]]
            if isinstance(b, Opaque): return Opaque('%s.%d' % (b.tag, pl[2]))
            if isinstance(b, (Ptr, Val)): return b          # Box/Unique/NonNull wrappers: transparent
            raise Unsupported('field of %r' % (b,))
        if k == 'downcast':
            b = s.read(fr, pl[1])
            if isinstance(b, E): return ('variant', b.fields[pl[2]])
            raise Unsupported('downcast of %r' % (b,))
        raise Unsupported('read ' + str(pl))

    def write(s, fr, pl, v):
        if pl[0] == 'local': fr.locals[pl[1]] = v; return
        if pl[0] == 'deref':
            p = s.read(fr, pl[1])
            if isinstance(p, Ptr): return s.write(p.frame, p.place, v)
        if pl[0] == 'field':
            b = s.read(fr, pl[1])
            if isinstance(b, list): b[pl[2]] = v; return
        raise Unsupported('write ' + str(pl))

    def operand(s, fr, op):
        if op[0] in ('copy', 'move'): return s.read(fr, op[1])
        c = op[1]
        m = re.match(r'(-?\d+)_(\w+)$', c)
        if m: return BitVecVal(int(m.group(1)), {'u8': 8, 'i32': 32, 'u32': 32}.get(m.group(2), 64))
        if c in ('true', 'false'): return BoolVal(c == 'true')
        m = re.match(r'(-?[\d\.]+(?:[eE][-+]?\d+)?)f64$', c)
        if m: return FPVal(float(m.group(1)), F64)
        m = re.match(r'.*Option::<.*>::None$', c)
        if m: return E('Option', BitVecVal(0, 64), {'Some': [Opaque('none')]})
        return Opaque('const ' + c)

    def rvalue(s, fr, rv, lhs_ty=None):
        k = rv[0]
        if k == 'use': return s.operand(fr, rv[1])
        if k == 'ref': return Ptr(fr, rv[1])
        if k == 'discr':
            v = s.read(fr, rv[1])
            if isinstance(v, E): return v.disc
            raise Unsupported('discr of %r' % (v,))
        if k == 'tuple': return [s.operand(fr, o) for o in rv[1]]
        if k == 'adt':
            ty, var, args = tyname(rv[1]), rv[2], [s.operand(fr, o) for o in rv[3]]
            if ty in VARIANTS and var in VARIANTS[ty]:
                return E(ty, BitVecVal(VARIANTS[ty].index(var), 64), {var: args})
            raise Unsupported('adt %s::%s' % (rv[1], var))
        if k == 'struct':
            return [s.operand(fr, o) for _, o in rv[2]]
        if k == 'cast':
            v = s.operand(fr, rv[1]); kind = rv[3]
            if kind == 'IntToFloat': return fpSignedToFP(RNE_, v, F64)
            if kind in ('Transmute', 'PtrToPtr') or kind.startswith('PointerCoercion'): return v
            if kind == 'IntToInt': return v
            raise Unsupported('cast ' + kind)
        if k == 'binop':
            a, b = s.operand(fr, rv[2]), s.operand(fr, rv[3]); op = rv[1]
            ty = s.optype(fr, rv[2])
            if is_fp(a):
                return {'Lt': fpLT, 'Le': fpLEQ, 'Gt': fpGT, 'Ge': fpGEQ, 'Eq': fpEQ, 'Ne': lambda x, y: Not(fpEQ(x, y)),
                        'Add': lambda x, y: fpAdd(RNE_, x, y), 'Sub': lambda x, y: fpSub(RNE_, x, y), 'Mul': lambda x, y: fpMul(RNE_, x, y), 'Div': lambda x, y: fpDiv(RNE_, x, y)}[op](a, b)
            if is_bool(a): return {'Eq': lambda: a == b, 'Ne': lambda: a != b, 'BitAnd': lambda: And(a, b), 'BitOr': lambda: Or(a, b), 'BitXor': lambda: Xor(a, b)}[op]()
            sg = is_signed(ty)
            tbl = {'Lt': (lambda: a < b) if sg else (lambda: ULT(a, b)), 'Le': (lambda: a <= b) if sg else (lambda: ULE(a, b)),
                   'Gt': (lambda: a > b) if sg else (lambda: UGT(a, b)), 'Ge': (lambda: a >= b) if sg else (lambda: UGE(a, b)),
                   'Eq': lambda: a == b, 'Ne': lambda: a != b, 'Add': lambda: a + b, 'Sub': lambda: a - b, 'Mul': lambda: a * b,
                   'AddWithOverflow': lambda: [a + b, Not(BVAddNoOverflow(a, b, sg)) if True else None],
                   'SubWithOverflow': lambda: [a - b, Not(BVSubNoOverflow(a, b)) if sg else ULT(a, b)],
                   'MulWithOverflow': lambda: [a * b, Not(BVMulNoOverflow(a, b, sg))],
                   'Div': (lambda: a / b) if sg else (lambda: UDiv(a, b)), 'Rem': (lambda: SRem(a, b)) if sg else (lambda: URem(a, b))}
            return tbl[op]()
        if k == 'unop':
            a = s.operand(fr, rv[2])
            if rv[1] == 'Not': return Not(a) if is_bool(a) else ~a
            if rv[1] == 'Neg': return fpNeg(a) if is_fp(a) else -a
        raise Unsupported('rvalue ' + str(rv))

    def optype(s, fr, op):
        if op[0] == 'const':
            m = re.match(r'-?\d+_(\w+)$', op[1]); return m.group(1) if m else ''
        pl = op[1]
        while pl[0] != 'local': pl = pl[1]
        return fr.fn.locals.get(pl[1], '') if op[1][0] == 'local' else ''

    # ---------- driver
    def run(s, fname, args, path):
        f = s.funcs[fname]; fr = Frame(f)
        for (l, _), a in zip(f.params, args): fr.locals[l] = a
        s.step(fr, 'bb0', path, [])

    def fork(s, fr, path, stack, alts, cont):
        live = [(c, v) for c, v in alts if s.feasible(path.pc + [c])]
        for i, (c, v) in enumerate(live):
            if i == len(live) - 1:
                path.pc.append(c); return (fr, path, stack, v)
            f2, p2, s2 = copy.deepcopy((fr, path, stack)); p2.pc.append(c)
            cont(f2, p2, s2, copy.deepcopy(v))
        return None

    def step(s, fr, bb, path, stack):
        while True:
            path.n += 1
            if path.n > 4000: raise Unsupported('step budget')
            st, tm = fr.fn.blocks[bb]
            for x in st:
                ps = parse_stmt(x)
                if ps[0] == 'assign': s.write(fr, ps[1], s.rvalue(fr, ps[2]))
            t = parse_term(tm)
            if t[0] == 'goto': bb = t[1]; continue
            if t[0] == 'return':
                rv = fr.locals.get('_0')
                if not stack: s.results.append((path, rv)); return
                (cfr, lhs, nxt), stack = stack[-1], stack[:-1]
                s.write(cfr, lhs, rv); fr, bb = cfr, nxt; continue
            if t[0] == 'unreachable':
                path.obl.append(('unreachable not reached', BoolVal(False), fr.fn.name)); s.results.append((path, None)); return
            if t[0] == 'diverge':
                path.obl.append(('no panic: ' + t[1][:60], BoolVal(False), fr.fn.name)); s.results.append((path, None)); return
            if t[0] == 'assert':
                _, neg, op, msg, nxt = t
                c = s.operand(fr, op); ok = Not(c) if neg else c
                path.obl.append(('no panic: ' + msg, ok, fr.fn.name))
                path.pc.append(ok); bb = nxt
                if not s.feasible(path.pc): return
                continue
            if t[0] == 'switch':
                d = s.operand(fr, t[1]); tg = t[2]
                if is_bool(d): d = If(d, BitVecVal(1, 64), BitVecVal(0, 64))
                alts = [(d == int(k), v) for k, v in tg.items() if k != 'otherwise']
                if 'otherwise' in tg: alts.append((And(*[d != int(k) for k in tg if k != 'otherwise']), tg['otherwise']))
                r = s.fork(fr, path, stack, alts, lambda f2, p2, s2, v: s.step(f2, v, p2, s2))
                if r is None: return
                fr, path, stack, bb = r; continue
            if t[0] == 'call':
                _, lhs, callee, aops, nxt = t
                args = [s.operand(fr, o) for o in aops]
                path.trace.append(callee)
                r = s.call(fr, callee, args, path)
                if isinstance(r, tuple) and r[0] == 'inline':
                    nf = Frame(s.funcs[r[1]])
                    for (l, _), a in zip(nf.fn.params, args): nf.locals[l] = a
                    stack = stack + [(fr, lhs, nxt)]; fr, bb = nf, 'bb0'; continue
                if isinstance(r, tuple) and r[0] == 'fork':
                    def cont(f2, p2, s2, v, lhs=lhs, nxt=nxt): s.write(f2, lhs, v); s.step(f2, nxt, p2, s2)
                    rr = s.fork(fr, path, stack, r[1], cont)
                    if rr is None: return
                    fr, path, stack, v = rr; s.write(fr, lhs, v); bb = nxt; continue
                s.write(fr, lhs, r); bb = nxt; continue
            raise Unsupported('term ' + str(t))

    def deref(s, v):
        while isinstance(v, (Ptr, Val)):
            v = s.read(v.frame, v.place) if isinstance(v, Ptr) else v.v
        return v

    def call(s, fr, callee, args, path):
        for pat, fn in s.hooks:
            if re.match(pat, callee): return fn(s, fr, callee, args, path)
        m = re.match(r'<(&?)(i64|f64) as (?:std::ops::)?(Add|Sub|Mul|Div|Rem)(?:<(&?)(?:i64|f64)>)?>::(add|sub|mul|div|rem)$', callee)
        if m:
            a, b = s.deref(args[0]), s.deref(args[1]); op = m.group(3)
            if m.group(2) == 'f64':
                return {'Add': fpAdd, 'Sub': fpSub, 'Mul': fpMul, 'Div': fpDiv}[op](RNE_, a, b) if op != 'Rem' else fpRem(a, b)
            if op in ('Add', 'Sub', 'Mul'):
                nov = {'Add': lambda: And(BVAddNoOverflow(a, b, True), BVAddNoUnderflow(a, b)), 'Sub': lambda: And(BVSubNoOverflow(a, b), BVSubNoUnderflow(a, b, True)),
                       'Mul': lambda: And(BVMulNoOverflow(a, b, True), BVMulNoUnderflow(a, b))}[op]()
                if s.overflow_checks: path.obl.append(('no panic: i64 %s overflow' % op, nov, callee)); path.pc.append(nov)
                return {'Add': a + b, 'Sub': a - b, 'Mul': a * b}[op]
            ok = And(b != 0, Not(And(a == BitVecVal(-2**63, 64), b == BitVecVal(-1, 64))))
            path.obl.append(('no panic: i64 %s by zero / MIN by -1' % op, ok, callee)); path.pc.append(ok)
            return a / b if op == 'Div' else SRem(a, b)
        m = re.match(r'<&?(i64|f64|bool|u64) as PartialEq(?:<.*>)?>::(eq|ne)$', callee) or re.match(r'<&&?(i64|f64|bool|u64) as PartialEq(?:<.*>)?>::(eq|ne)$', callee)
        if m:
            a, b = s.deref(args[0]), s.deref(args[1])
            e = fpEQ(a, b) if is_fp(a) else a == b
            return e if m.group(2) == 'eq' else Not(e)
        m = re.match(r'<&&?(i64|f64) as PartialOrd(?:<.*>)?>::(lt|le|gt|ge)$', callee)
        if m:
            a, b = s.deref(args[0]), s.deref(args[1])
            if is_fp(a): return {'lt': fpLT, 'le': fpLEQ, 'gt': fpGT, 'ge': fpGEQ}[m.group(2)](a, b)
            return {'lt': a < b, 'le': a <= b, 'gt': a > b, 'ge': a >= b}[m.group(2)]
        if re.match(r'<.*Option<.*> as Try>::branch$', callee):
            o = args[0]
            return E('ControlFlow', If(o.disc == 1, BitVecVal(0, 64), BitVecVal(1, 64)), {'Continue': o.fields.get('Some', [Opaque('x')]), 'Break': [Opaque('residual')]})
        if 'FromResidual' in callee: return E('Option', BitVecVal(0, 64), {'Some': [Opaque('none')]})
        if callee in s.funcs: return ('inline', callee)
        raise Unsupported('call ' + callee)


def cmp_int_float(a, f):
    """exact order of i64 a vs finite f64 f, inside BV/FP theories. returns (lt, eq, gt)"""
    two63 = FPVal(2.0**63, F64)
    big = fpGEQ(f, two63); small = fpLT(f, fpNeg(two63))
    t = fpRoundToIntegral(RTZ(), f)
    ti = fpToSBV(RTZ(), t, BitVecSort(64))
    lt = Or(big, And(Not(small), Or(a < ti, And(a == ti, fpGT(f, t)))))
    gt = Or(small, And(Not(big), Or(a > ti, And(a == ti, fpLT(f, t)))))
    return lt, And(Not(lt), Not(gt)), gt


def math_cmp(l, lc, r, rc):
    if lc == 'Int' and rc == 'Int':
        a, b = l.fields['Int'][0], r.fields['Int'][0]; return a < b, a == b, a > b
    if lc == 'Float' and rc == 'Float':
        a, b = l.fields['Float'][0], r.fields['Float'][0]; return fpLT(a, b), fpEQ(a, b), fpGT(a, b)
    if lc == 'Int': return cmp_int_float(l.fields['Int'][0], r.fields['Float'][0])
    lt, eq, gt = cmp_int_float(r.fields['Int'][0], l.fields['Float'][0]); return gt, eq, lt


def arm_main(overflow_checks):
    t0 = time.time()
    funcs = parse_functions(open('/root/scratch/mir/runtime.mir').read())
    names = VARIANTS['BinOp']
    ops = ['Add', 'Sub', 'Mul', 'Div', 'Mod', 'Lt', 'Le', 'Gt', 'Ge']
    total_paths = 0; findings = {}; shapes = {}
    for opname in ops:
        for lc in ('Int', 'Float'):
            for rc in ('Int', 'Float'):
                def rec_hook(ex, fr, callee, args, path):
                    ex.calls += 1
                    cls = lc if ex.calls == 1 else rc
                    v, c = ex.sym_value('opnd%d_' % ex.calls, [cls])
                    path.pc.append(c)
                    return E('Option', BitVecVal(1, 64), {'Some': [v]})
                ex = Exec(funcs, [(r'^eval_expr_with_functions$', rec_hook)]); ex.overflow_checks = overflow_checks; ex.calls = 0
                op = E('BinOp', BitVecVal(names.index(opname), 64), {})
                box = lambda tag: [[Val(Opaque(tag))]]
                expr = E('Expr', BitVecVal(10, 64), {'Binary': [op, box('L'), box('R')]})
                try:
                    ex.run('eval_expr_with_functions', [Val(expr), Opaque('event'), Opaque('ctx'), Opaque('fns'), Opaque('bind')], Path())
                except Unsupported as e:
                    findings[(opname, lc, rc)] = ['UNSUPPORTED: %s' % e]; continue
                total_paths += len(ex.results)
                for path, rv in ex.results:
                    for name, o, where in path.obl:
                        sv = Solver(); sv.set('timeout', 30000)
                        pc = [c for c in path.pc if not c.eq(o)]
                        sv.add(*pc); sv.add(Not(o))
                        if sv.check() == sat:
                            m = sv.model()
                            vals = {str(d): m[d] for d in m.decls() if str(d).endswith(('_i', '_f'))}
                            findings.setdefault((opname, lc, rc), []).append('%s  %s' % (name, vals))
                    if rv is not None:
                        sv = Solver(); sv.add(*path.pc)
                        if sv.check() == sat:
                            mm = sv.model(); d = mm.eval(rv.disc, True).as_long()
                            shapes.setdefault((opname, lc, rc), set()).add('Some' if d == 1 else 'None')
    print('profile overflow-checks=%s: %d paths, %.1fs' % (overflow_checks, total_paths, time.time() - t0))
    for k, v in sorted(findings.items()): print('  PANIC/UNSUPPORTED', k, v[:2])
    print('  result shapes with None:', sorted(k for k, v in shapes.items() if 'None' in v))


class ListModel:
    def __init__(s, items): s.items = list(items)
    def __repr__(s): return 'List(%d)' % len(s.items)


def win_main():
    t0 = time.time()
    funcs = parse_functions(open('/root/scratch/mir/runtime.mir').read())
    fname = [n for n in funcs if n.endswith('369:1: 369:24>::add_shared')][0]
    cname = [n for n in funcs if n.endswith('369:1: 369:24>::add_shared::{closure#0}')][0]
    total = 0; bad = []
    def push_back(ex, fr, callee, args, path):
        ex.deref(args[0]).items.append(args[1]); return []
    def vlen(ex, fr, callee, args, path): return BitVecVal(len(ex.deref(args[0]).items), 64)
    def sat_sub(ex, fr, callee, args, path): return If(ULT(args[0], args[1]), BitVecVal(0, 64), args[0] - args[1])
    def drain(ex, fr, callee, args, path):
        lst = ex.deref(args[0]); rng = args[1]; n = len(lst.items)
        alts = []
        for k in range(n + 1):
            alts.append((And(rng[0] == 0, rng[1] == k), ('drain', k)))
        path.obl.append(('no panic: drain range within len', And(rng[0] == 0, ULE(rng[1], n)), callee))
        return ('fork', alts)
    def then(ex, fr, callee, args, path):
        cond, clo = args
        return ('fork', [(Not(cond), E('Option', BitVecVal(0, 64), {'Some': [Opaque('none')]})), (cond, ('callclosure', clo))])
    def viter(ex, fr, callee, args, path): return ListModel(ex.deref(args[0]).items)
    def imap(ex, fr, callee, args, path): return args[0]
    def collect(ex, fr, callee, args, path): return ListModel(args[0].items)
    hooks = [(r'^VecDeque::<.*>::push_back$', push_back), (r'^VecDeque::<.*>::len$', vlen), (r'^core::num::<impl usize>::saturating_sub$', sat_sub),
             (r'^VecDeque::<.*>::drain', drain), (r'^core::bool::<impl bool>::then', then), (r'^VecDeque::<.*>::iter$', viter),
             (r'.* as Iterator>::map::', imap), (r'.* as Iterator>::collect::', collect)]
    for m in range(0, 4):
        ex = Exec(funcs, hooks); ex.overflow_checks = True
        ws, sl, e = BitVecs('ws sl e', 64)
        evs = [BitVec('ev%d' % i, 64) for i in range(m)]; new = BitVec('ev_new', 64)
        win = [ws, sl, ListModel(evs), e]
        p = Path(); p.pc += [UGE(ws, 1), ULE(ws, 3), UGE(sl, 1), ULE(sl, 3), ULE(BitVecVal(m, 64), ws), ULT(e, 1000)]
        # patch: fork results ('drain',k) and ('callclosure',clo) handled by wrapping write
        orig_write = ex.write
        def write(fr, pl, v, ex=ex, orig_write=orig_write):
            if isinstance(v, tuple) and v and v[0] == 'drain':
                # find the deque: window field 2
                del win_ref[0][2].items[:v[1]]; return orig_write(fr, pl, Opaque('drain'))
            if isinstance(v, tuple) and v and v[0] == 'callclosure':
                clo = v[1]
                cf = Frame(funcs[cname]); cf.locals['_1'] = clo
                sub = Exec(funcs, hooks); sub.overflow_checks = True
                # run closure body inline (straight-line)
                bb = 'bb0'
                while True:
                    st, tm = cf.fn.blocks[bb]
                    for x in st:
                        ps = parse_stmt(x)
                        if ps[0] == 'assign': ex.write(cf, ps[1], ex.rvalue(cf, ps[2]))
                    t = parse_term(tm)
                    if t[0] == 'return': break
                    if t[0] == 'call':
                        args = [ex.operand(cf, o) for o in t[3]]
                        ex.write(cf, t[1], ex.call(cf, t[2], args, Path())); bb = t[4]; continue
                    raise Unsupported('closure term %s' % (t,))
                return orig_write(fr, pl, E('Option', BitVecVal(1, 64), {'Some': [cf.locals['_0']]}))
            return orig_write(fr, pl, v)
        ex.write = write
        win_ref = [win]
        # closure aggregate printed lossy: patch rvalue for closure struct to capture (&events, &mut e)
        orig_rvalue = ex.rvalue
        def rvalue(fr, rv, lhs_ty=None, ex=ex, orig_rvalue=orig_rvalue):
            if rv[0] == 'struct' and rv[1].startswith('{closure@'):
                return [ex.read(fr, ('local', '_22')), ex.read(fr, ('local', '_23'))]
            return orig_rvalue(fr, rv)
        ex.rvalue = rvalue
        # deepcopy on fork must keep win_ref pointing at the copied window: use the frame's view instead
        holder = Frame(None); holder.locals['w'] = win
        def write2(fr, pl, v, ex=ex, w=write):
            if isinstance(v, tuple) and v and v[0] == 'drain':
                wnd = ex.deref(fr.locals['_1']); del wnd[2].items[:v[1]]; return orig_write(fr, pl, Opaque('drain'))
            return w(fr, pl, v)
        ex.write = write2
        ex.run(fname, [Ptr(holder, ('local', 'w')), new], p)
        for path, rv in ex.results:
            total += 1
            # recover post-state through the path's own copy of the window: result frames are gone; use spec on rv only + panic obligations
            full = [ev for ev in evs] + [new]
            for name, o, where in path.obl:
                sv = Solver(); sv.add(*[c for c in path.pc if not c.eq(o)]); sv.add(Not(o))
                if sv.check() != unsat: bad.append((m, name, str(sv.model())[:120]))
            emitted = rv.disc
            postlen = If(ULT(BitVecVal(m + 1, 64), ws), BitVecVal(m + 1, 64), ws)
            want_emit = And(UGE(postlen, ws), UGE(e + 1, sl))
            sv = Solver(); sv.add(*path.pc); sv.add(Not((emitted == 1) == want_emit))
            if sv.check() != unsat: bad.append((m, 'emit iff full and slide elapsed', str(sv.model())[:160]))
            sv = Solver(); sv.add(*path.pc); sv.add(emitted == 1)
            if sv.check() == sat:
                out = rv.fields['Some'][0].items
                # emitted window must be exactly the last ws events of full
                for k in range(1, 4):
                    sv2 = Solver(); sv2.add(*path.pc); sv2.add(emitted == 1, ws == k)
                    if sv2.check() == sat:
                        exp = full[-k:]
                        okshape = len(out) == len(exp) and all(a.eq(b) for a, b in zip(out, exp))
                        if not okshape: bad.append((m, 'emitted = last %d events' % k, 'got %d items' % len(out)))
    print('SlidingCountWindow::add_shared: %d paths, %d violated, %.1fs' % (total, len(bad), time.time() - t0))
    for b in bad[:10]: print('  ', b)


def main():
    t0 = time.time()
    funcs = parse_functions(open('/root/scratch/mir/runtime.mir').read())
    print('parsed runtime.mir: %d fns in %.1fs' % (len(funcs), time.time() - t0))
    OPS = {'Lt': 8, 'Le': 9, 'Gt': 10, 'Ge': 11}
    tot = 0; viol = []
    for opname, opidx in OPS.items():
        for lc in ('Int', 'Float'):
            for rc in ('Int', 'Float'):
                ex = Exec(funcs, []); ex.overflow_checks = True
                l, cl = ex.sym_value('l', [lc]); r, cr = ex.sym_value('r', [rc])
                op = E('BinOp', BitVecVal(opidx, 64), {})
                p = Path(); p.pc += [cl, cr]
                # finite floats only here; NaN/inf handled by a separate obligation class
                for v in (l, r): p.pc.append(Not(Or(fpIsNaN(v.fields['Float'][0]), fpIsInf(v.fields['Float'][0]))))
                ex.run('eval_binary_op', [Val(op), Val(l), Val(r)], p)
                lt, eq, gt = math_cmp(l, lc, r, rc)
                want = {'Lt': lt, 'Le': Or(lt, eq), 'Gt': gt, 'Ge': Or(gt, eq)}[opname]
                for path, rv in ex.results:
                    tot += 1
                    sv = Solver(); sv.set('timeout', 60000); sv.add(*path.pc)
                    good = And(rv.disc == 1, rv.fields['Some'][0].disc == 1, rv.fields['Some'][0].fields['Bool'][0] == want) if 'Some' in rv.fields and isinstance(rv.fields['Some'][0], E) else BoolVal(False)
                    sv.add(Not(good)); t1 = time.time(); res = sv.check()
                    if res != unsat:
                        m = sv.model() if res == sat else None
                        def show(v, c):
                            if m is None: return '?'
                            return str(m.eval(v.fields['Int'][0], True).as_signed_long()) if c == 'Int' else str(m.eval(v.fields['Float'][0], True))
                        viol.append((opname, lc, rc, str(res), show(l, lc), show(r, rc), '%.1fs' % (time.time() - t1)))
    print('eval_binary_op: %d path-obligations, %d not proved' % (tot, len(viol)))
    for v in viol: print('  ', v)
    print('total %.1fs' % (time.time() - t0))


if len(sys.argv) > 1 and sys.argv[1] == 'win':
    win_main()
elif len(sys.argv) > 1 and sys.argv[1] == 'arm':
    arm_main(True); arm_main(False)
else:
    main()
