#![allow(dead_code)]
use std::hash::{Hash, Hasher};
use varpulis_core::Value;


pub struct Rec { pub buf: [u8; 64], pub n: usize }
impl Hasher for Rec {
    fn finish(&self) -> u64 { 0 }
    fn write(&mut self, bytes: &[u8]) { let mut i = 0; while i < bytes.len() { if self.n < 64 { self.buf[self.n] = bytes[i]; self.n += 1; } i += 1; } }
}
fn rec(v: &Value) -> Rec { let mut r = Rec { buf: [0; 64], n: 0 }; v.hash(&mut r); r }
fn same(a: &Rec, b: &Rec) -> bool { if a.n != b.n { return false; } let mut i = 0; while i < a.n { if a.buf[i] != b.buf[i] { return false; } i += 1; } true }

fn any_scalar() -> Value {
    match kani::any::<u8>() % 6 { 0 => Value::Null, 1 => Value::Bool(kani::any()), 2 => Value::Int(kani::any()), 3 => Value::Float(kani::any()), 4 => Value::Timestamp(kani::any()), _ => Value::Duration(kani::any()) }
}

#[cfg(q1)]
#[kani::proof]
#[kani::unwind(66)]
fn q1_scalar_eq_hash() {
    let a = any_scalar(); let b = any_scalar();
    let ab = a == b; let ba = b == a; let aa = a == a;
    let (ra, rb) = (rec(&a), rec(&b));
    std::mem::forget(a); std::mem::forget(b);
    assert!(aa); assert!(ab == ba);
    if ab { assert!(same(&ra, &rb)); }
}

#[cfg(q2)]
#[kani::proof]
#[kani::unwind(66)]
fn q2_map_order_hash() {
    use indexmap::IndexMap; use rustc_hash::FxBuildHasher; use std::sync::Arc;
    let x: i64 = kani::any(); let y: i64 = kani::any();
    let mut m1: IndexMap<Arc<str>, Value, FxBuildHasher> = IndexMap::with_hasher(FxBuildHasher);
    m1.insert("a".into(), Value::Int(x)); m1.insert("b".into(), Value::Int(y));
    let mut m2: IndexMap<Arc<str>, Value, FxBuildHasher> = IndexMap::with_hasher(FxBuildHasher);
    m2.insert("b".into(), Value::Int(y)); m2.insert("a".into(), Value::Int(x));
    let a = Value::map(m1); let b = Value::map(m2);
    let e = a == b;
    let (ra, rb) = (rec(&a), rec(&b));
    std::mem::forget(a); std::mem::forget(b);
    assert!(e);
    assert!(same(&ra, &rb));
}

#[cfg(q3)]
#[kani::proof]
#[kani::unwind(8)]
fn q3_watermark() {
    use varpulis_runtime::watermark::PerSourceWatermarkTracker;
    use chrono::{DateTime, Duration, Utc};
    let mut t = PerSourceWatermarkTracker::new();
    let o1: i64 = kani::any(); kani::assume(o1 >= 0 && o1 <= 1000);
    t.register_source("a", Duration::milliseconds(o1));
    t.register_source("b", Duration::milliseconds(0));
    let t1: i64 = kani::any(); let t2: i64 = kani::any();
    kani::assume(t1 >= 0 && t1 < 1_000_000 && t2 >= 0 && t2 < 1_000_000);
    t.observe_event("a", DateTime::<Utc>::from_timestamp_millis(t1).unwrap());
    let w1 = t.effective_watermark();
    t.observe_event("a", DateTime::<Utc>::from_timestamp_millis(t2).unwrap());
    let w2 = t.effective_watermark();
    std::mem::forget(t);
    assert!(w1.is_some() && w2.is_some());
    assert!(w2.unwrap() >= w1.unwrap());
}

fn position_to_line_col(source: &str, position: usize) -> (usize, usize) {
    let mut line = 0; let mut col = 0; let mut pos = 0;
    for ch in source.chars() { if pos >= position { break; } if ch == '\n' { line += 1; col = 0; } else { col += 1; } pos += ch.len_utf8(); }
    (line, col)
}
fn get_error_end_column(source: &str, line: usize, start_col: usize) -> usize {
    if let Some(line_text) = source.lines().nth(line) {
        let remaining = &line_text[start_col.min(line_text.len())..];
        let token_len = remaining.chars().take_while(|c| *c == '_' || c.is_ascii_alphanumeric()).count();
        start_col + token_len.max(1)
    } else { start_col + 1 }
}
#[cfg(q5)]
#[kani::proof]
#[kani::unwind(6)]
fn q5_lsp_pos() {
    let b: [u8; 3] = kani::any();
    let n: usize = kani::any(); kani::assume(n <= 3);
    if let Ok(s) = std::str::from_utf8(&b[..n]) {
        let p: usize = kani::any(); kani::assume(p <= n + 1);
        let (l, c) = position_to_line_col(s, p);
        let e = get_error_end_column(s, l, c);
        assert!(e >= c);
    }
}

#[cfg(q6)]
#[kani::proof]
#[kani::unwind(4)]
fn q6_json_num() {
    let u: u64 = kani::any();
    let j = serde_json::Value::from(u);
    let ok = match &j { serde_json::Value::Number(n) => { if let Some(i) = n.as_i64() { i as u64 == u } else if let Some(f) = n.as_f64() { f as u64 == u } else { false } } _ => false };
    std::mem::forget(j);
    assert!(ok);
}

fn min_f64_scalar(values: &[f64]) -> f64 { let mut min = f64::INFINITY; for &v in values { if v < min { min = v; } } min }
fn sum_f64_scalar(values: &[f64]) -> f64 {
    let mut sum0 = 0.0; let mut sum1 = 0.0; let mut sum2 = 0.0; let mut sum3 = 0.0;
    let chunks = values.len() / 4; let remainder = values.len() % 4;
    for i in 0..chunks { let base = i * 4; unsafe { sum0 += *values.get_unchecked(base); sum1 += *values.get_unchecked(base + 1); sum2 += *values.get_unchecked(base + 2); sum3 += *values.get_unchecked(base + 3); } }
    let base = chunks * 4;
    for i in 0..remainder { unsafe { sum0 += *values.get_unchecked(base + i); } }
    sum0 + sum1 + sum2 + sum3
}
#[cfg(q7)]
#[kani::proof]
#[kani::unwind(8)]
fn q7_sum_min() {
    let xs: [i32; 6] = kani::any();
    let n: usize = kani::any(); kani::assume(n <= 6);
    let mut v = [0.0f64; 6]; let mut exact: i64 = 0; let mut i = 0;
    while i < 6 { kani::assume(xs[i] >= -1000 && xs[i] <= 1000); v[i] = xs[i] as f64; if i < n { exact += xs[i] as i64; } i += 1; }
    let s = sum_f64_scalar(&v[..n]);
    assert!(s == exact as f64);
    let m = min_f64_scalar(&v[..n]);
    let mut j = 0; while j < n { assert!(m <= v[j]); j += 1; }
}

#[cfg(q8)]
#[kani::proof]
#[kani::unwind(4)]
fn q8_ts_roundtrip() {
    use chrono::{DateTime, Utc};
    let s: i64 = kani::any(); let ns: u32 = kani::any();
    kani::assume(s >= 0 && s < 4_000_000_000 && ns < 1_000_000_000);
    let t = DateTime::<Utc>::from_timestamp(s, ns).unwrap();
    let ms = t.timestamp_millis();
    let back = DateTime::<Utc>::from_timestamp_millis(ms).unwrap();
    assert!(back == t);
}
