"""Minimal parser for `rustc -Zunpretty=mir` text (spike)."""
import re
from dataclasses import dataclass, field


@dataclass
class Func:
    name: str
    params: list
    ret: str
    locals: dict = field(default_factory=dict)
    blocks: dict = field(default_factory=dict)  # bb -> (stmts, term)


def split_top(s, sep=','):
    out, depth, cur = [], 0, ''
    i = 0
    while i < len(s):
        c = s[i]
        if c in '([{<':
            # '<' only counts as bracket when not an operator; MIR operands never contain bare '<'
            depth += 1
        elif c in ')]}>':
            if c == '>' and i > 0 and s[i - 1] == '-':
                pass
            else:
                depth -= 1
        if c == sep and depth == 0:
            out.append(cur.strip()); cur = ''
        else:
            cur += c
        i += 1
    if cur.strip():
        out.append(cur.strip())
    return out


def parse_functions(text):
    funcs = {}
    lines = text.split('\n')
    i = 0
    while i < len(lines):
        ln = lines[i]
        if ln.startswith('fn ') and ln.rstrip().endswith('{'):
            hdr = ln[3:].rstrip()[:-1].strip()
            # name(params) -> ret
            depth = 0; p0 = None
            for k, c in enumerate(hdr):
                if c == '<': depth += 1
                elif c == '>' and hdr[k - 1] != '-': depth -= 1
                elif c == '(' and depth == 0: p0 = k; break
            name = hdr[:p0]
            # matching paren
            d = 0; p1 = None
            for k in range(p0, len(hdr)):
                if hdr[k] == '(': d += 1
                elif hdr[k] == ')':
                    d -= 1
                    if d == 0: p1 = k; break
            params = []
            for p in split_top(hdr[p0 + 1:p1]):
                m = re.match(r'(_\d+): (.*)', p)
                if m: params.append((m.group(1), m.group(2)))
            ret = hdr[p1 + 1:].strip()
            ret = ret[2:].strip() if ret.startswith('->') else '()'
            f = Func(name, params, ret)
            for l, t in params: f.locals[l] = t
            i += 1
            cur = None
            while i < len(lines) and lines[i] != '}':
                l = lines[i]
                m = re.match(r'\s+let (?:mut )?(_\d+): (.*);$', l)
                if m: f.locals[m.group(1)] = m.group(2)
                m = re.match(r'    (bb\d+)(?: \(cleanup\))?: \{$', l)
                if m:
                    cur = m.group(1); body = []
                    i += 1
                    while lines[i] != '    }':
                        s = lines[i].strip()
                        if s: body.append(s)
                        i += 1
                    f.blocks[cur] = (body[:-1], body[-1])
                i += 1
            funcs.setdefault(name, f)
        i += 1
    return funcs


# ---------------- places / operands ----------------
def parse_place(s, i=0):
    """returns (place, next_index); place = ('local', n) | ('deref', p) | ('field', p, k) | ('downcast', p, variant) | ('index', p, localname)"""
    if s[i] == '_':
        m = re.match(r'_\d+', s[i:]); p = ('local', m.group(0)); i += m.end()
    elif s[i] == '(':
        if s[i + 1] == '*':
            inner, j = parse_place(s, i + 2)
            assert s[j] == ')', s[j:]
            p = ('deref', inner); i = j + 1
        else:
            inner, j = parse_place(s, i + 1)
            if s[j:].startswith(' as '):
                k = s.index(')', j)
                p = ('downcast', inner, s[j + 4:k]); i = k + 1
            elif s[j] == '.':
                m = re.match(r'\.(\d+): ', s[j:])
                k = j + m.end(); d = 1
                while d > 0:
                    if s[k] in '(': d += 1
                    elif s[k] == ')': d -= 1
                    k += 1
                p = ('field', inner, int(m.group(1))); i = k
            else:
                raise ValueError('place? ' + s[i:])
    else:
        raise ValueError('place? ' + s[i:])
    while i < len(s) and s[i] == '[':
        k = s.index(']', i)
        p = ('index', p, s[i + 1:k]); i = k + 1
    return p, i


def parse_operand(s):
    s = s.strip()
    if s.startswith('copy '): return ('copy', parse_place(s[5:])[0])
    if s.startswith('move '): return ('move', parse_place(s[5:])[0])
    if s.startswith('const '): return ('const', s[6:])
    return ('const', 'fnitem ' + s)


BINOPS = {'Add', 'Sub', 'Mul', 'Div', 'Rem', 'BitAnd', 'BitOr', 'BitXor', 'Shl', 'Shr', 'Eq', 'Lt', 'Le', 'Ne', 'Ge', 'Gt',
          'AddWithOverflow', 'SubWithOverflow', 'MulWithOverflow', 'Cmp', 'AddUnchecked', 'SubUnchecked', 'MulUnchecked'}
UNOPS = {'Not', 'Neg', 'PtrMetadata'}


def parse_rvalue(s):
    s = s.strip()
    if s.startswith(('copy ', 'move ', 'const ')):
        m = re.match(r'(.*) as (.*) \((\w+(?:\(.*\))?)\)$', s)
        if m and not s.startswith('const'):
            return ('cast', parse_operand(m.group(1)), m.group(2), m.group(3))
        return ('use', parse_operand(s))
    if s.startswith('&raw '): return ('ref', parse_place(s.split(' ', 2)[2])[0])
    if s.startswith('&mut '): return ('ref', parse_place(s[5:])[0])
    if s.startswith('&'): return ('ref', parse_place(s[1:])[0])
    if s.startswith('no_retag '): return parse_rvalue(s[9:])
    if s.startswith('discriminant('): return ('discr', parse_place(s[13:-1])[0])
    m = re.match(r'(\w+)\((.*)\)$', s)
    if m and m.group(1) in BINOPS:
        a, b = split_top(m.group(2)); return ('binop', m.group(1), parse_operand(a), parse_operand(b))
    if m and m.group(1) in UNOPS:
        return ('unop', m.group(1), parse_operand(m.group(2)))
    if s == '()': return ('tuple', [])
    if s.startswith('[') and s.endswith(']'):
        if '; ' in s and not s.startswith('[move') and not s.startswith('[copy') and not s.startswith('[const'):
            pass
        return ('array', [parse_operand(x) for x in split_top(s[1:-1])])
    if s.startswith('{closure@'):
        k = s.index('}') + 1
        body = s[k:].strip()
        fs = [] if body in ('', '{ }') else [x.split(': ', 1) for x in split_top(body[2:-2])]
        return ('struct', s[:k], [(a, parse_operand(b)) for a, b in fs])
    if re.match(r'^\w+$', s): return ('adt', '', s, [])
    if s.startswith('(') and s.endswith(')'):
        return ('tuple', [parse_operand(x) for x in split_top(s[1:-1])])
    m = re.match(r'([\w:<>, &\[\]\(\)\']+?)::(\w+)\((.*)\)$', s)
    if m:
        return ('adt', m.group(1), m.group(2), [parse_operand(x) for x in split_top(m.group(3))])
    m = re.match(r'([\w:<>, &\[\]\']+?)::(\w+)$', s)
    if m: return ('adt', m.group(1), m.group(2), [])
    m = re.match(r'([\w:<>, &\[\]\']+?) \{ (.*) \}$', s)
    if m:
        fs = [x.split(': ', 1) for x in split_top(m.group(2))]
        return ('struct', m.group(1), [(k, parse_operand(v)) for k, v in fs])
    raise ValueError('rvalue? ' + s)


def parse_stmt(s):
    s = s.rstrip(';')
    m = re.match(r'discriminant\((.*)\) = (\d+)$', s)
    if m: return ('setdiscr', parse_place(m.group(1))[0], int(m.group(2)))
    if s.startswith(('StorageLive', 'StorageDead', 'nop', 'FakeRead', 'PlaceMention', 'AscribeUserType', 'Retag', 'Coverage', 'Deinit', 'ConstEvalCounter')):
        return ('nop',)
    lhs, i = parse_place(s)
    assert s[i:i + 3] == ' = ', s
    return ('assign', lhs, parse_rvalue(s[i + 3:]))


def parse_targets(t):
    d = {}
    for x in split_top(t):
        if ':' in x:
            k, v = x.split(':', 1); d[k.strip()] = v.strip()
        else:
            k, _, v = x.partition(' '); d[k.strip()] = v.strip()
    return d


def parse_term(s):
    s = s.rstrip(';')
    if s == 'return': return ('return',)
    if s in ('unreachable', 'resume', 'abort') or s.startswith('resume'): return ('unreachable',)
    m = re.match(r'goto -> (bb\d+)$', s)
    if m: return ('goto', m.group(1))
    m = re.match(r'switchInt\((.*)\) -> \[(.*)\]$', s)
    if m: return ('switch', parse_operand(m.group(1)), parse_targets(m.group(2)))
    m = re.match(r'drop\((.*)\) -> \[(.*)\]$', s)
    if m: return ('goto', parse_targets(m.group(2))['return'])
    m = re.match(r'assert\((!?)(.*?), "(.*)"(?:, .*)?\) -> \[(.*)\]$', s)
    if m: return ('assert', m.group(1) == '!', parse_operand(m.group(2)), m.group(3), parse_targets(m.group(4))['success'])
    m = re.match(r'(.*) -> \[(.*)\]$', s)
    if m:
        call, tg = m.group(1), parse_targets(m.group(2))
        lhs, i = parse_place(call)
        assert call[i:i + 3] == ' = '
        c = call[i + 3:]
        # last balanced (...) group
        d = 0; k = len(c) - 1
        assert c[k] == ')'
        while True:
            if c[k] == ')': d += 1
            elif c[k] == '(':
                d -= 1
                if d == 0: break
            k -= 1
        callee = c[:k]; args = [parse_operand(x) for x in split_top(c[k + 1:-1])]
        return ('call', lhs, callee, args, tg.get('return'))
    m = re.match(r'(.*) -> unwind .*$', s)
    if m:
        call = m.group(1)
        lhs, i = parse_place(call)
        return ('diverge', call[i + 3:])
    raise ValueError('term? ' + s)
