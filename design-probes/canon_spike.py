import sys, time
from z3 import *
n=int(sys.argv[1]); NN=int(sys.argv[2])
W=1<<n; FULL=(1<<W)-1
MW=[sum(1<<m for m in range(W) if not (m>>v)&1) for v in range(n)]
BVW=lambda x: BitVecVal(x,W)
def addvar(F,v):
    e=(F & BVW(MW[n-1])) << (1<<(n-1))
    for k in reversed(range(n-1)): e=If(v==k,(F & BVW(MW[k])) << (1<<k),e)
    return e
def uses_only_above(F,v):  # all sets in F use only vars > v
    cs=[]
    for k in range(n):
        cs.append(Implies(ULE(BitVecVal(k,8),v), (F & BVW(~MW[k] & FULL))==0))
    return And(*cs)
# table: node i has var[i] (8-bit), lo/hi refs: tag (0 empty,1 base,2 node) + id
var=[BitVec('var%d'%i,8) for i in range(NN)]
lt=[BitVec('lt%d'%i,2) for i in range(NN)]; li=[BitVec('li%d'%i,8) for i in range(NN)]
ht=[BitVec('ht%d'%i,2) for i in range(NN)]; hi=[BitVec('hi%d'%i,8) for i in range(NN)]
D=[BitVec('D%d'%i,W) for i in range(NN)]
def den(tag,idx,upto):
    e=BVW(0)
    for j in range(upto): e=If(And(tag==2,idx==j),D[j],e)
    return If(tag==0,BVW(0),If(tag==1,BVW(1),e))
s=Solver()
for i in range(NN):
    s.add(ULT(var[i],n), ULE(lt[i],2), ULE(ht[i],2))
    s.add(ht[i]!=0)                                   # (a) reduced
    s.add(Implies(lt[i]==2, ULT(li[i],i)), Implies(ht[i]==2, ULT(hi[i],i)))   # children ids < parent
    if i==0: s.add(lt[i]!=2, ht[i]!=2)
    dl=den(lt[i],li[i],i); dh=den(ht[i],hi[i],i)
    s.add(uses_only_above(dl,var[i]), uses_only_above(dh,var[i]))   # (b) ordered (semantic form)
    s.add(D[i]==(dl | addvar(dh,var[i])))
    for j in range(i):                                 # (c) unique triples
        s.add(Not(And(var[i]==var[j],lt[i]==lt[j],ht[i]==ht[j],Implies(lt[i]==2,li[i]==li[j]),Implies(ht[i]==2,hi[i]==hi[j]))))
# negated canonicity: two distinct nodes with same family, or a node denoting Empty/Base
bad=[]
for i in range(NN):
    bad.append(Or(D[i]==0,D[i]==1))
    for j in range(i): bad.append(D[i]==D[j])
s.add(Or(*bad))
t=time.time(); r=s.check(); print('n=%d N=%d: %s in %.1fs'%(n,NN,r,time.time()-t))
if r==sat:
    m=s.model(); print([(m.eval(var[i]),m.eval(lt[i]),m.eval(li[i]),m.eval(ht[i]),m.eval(hi[i]),m.eval(D[i])) for i in range(NN)])
