#![allow(dead_code)]
pub mod tb;
pub mod cb;
#[cfg(kani)]
mod p {
use std::time::{Duration, Instant};
static mut NOW_S: u64 = 0;
static mut NOW_N: u32 = 0;
#[repr(C)] struct Ts { s: i64, n: u32 }
fn stub_now() -> Instant { unsafe { std::mem::transmute::<Ts, Instant>(Ts { s: NOW_S as i64 + 1000, n: NOW_N }) } }
fn advance() {
    let ds: u64 = kani::any(); let n: u32 = kani::any();
    kani::assume(ds <= 100 && n < 1_000_000_000);
    unsafe { let s = NOW_S + ds; kani::assume(s > NOW_S || n >= NOW_N); NOW_S = s; NOW_N = n; }
}

#[cfg(t1)]
#[kani::proof]
#[kani::unwind(4)]
#[kani::stub(std::time::Instant::now, stub_now)]
fn token_bucket_no_panic() {
    let burst: u32 = kani::any(); let rate: u32 = kani::any();
    kani::assume(burst <= 20 && rate <= 50);
    let mut b = crate::tb::TokenBucket::new(burst, rate);
    let mut i = 0;
    while i < 2 {
        advance();
        let ok = b.try_consume();
        if !ok { let d = b.reset_after(); assert!(d.as_secs() < u64::MAX); }
        i += 1;
    }
}

#[cfg(t2)]
#[kani::proof]
#[kani::unwind(6)]
#[kani::stub(std::time::Instant::now, stub_now)]
fn breaker_half_open_single_probe() {
    use crate::cb::*;
    let thr: u32 = kani::any(); kani::assume(thr >= 1 && thr <= 2);
    let cb = CircuitBreaker::new(CircuitBreakerConfig { failure_threshold: thr, reset_timeout: Duration::from_secs(30) });
    let mut probe_in_flight = false;
    let mut i = 0;
    while i < 5 {
        advance();
        let before = cb.state();
        match kani::any::<u8>() % 3 {
            0 => { let a = cb.allow_request();
                   let after = cb.state();
                   if after == State::HalfOpen { if a { assert!(!probe_in_flight); probe_in_flight = true; } }
                   let _ = before; }
            1 => { cb.record_success(); probe_in_flight = false; }
            _ => { cb.record_failure(); probe_in_flight = false; }
        }
        i += 1;
    }
}
}
