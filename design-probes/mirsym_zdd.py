"""Spike: symbolic execution of ZddArena::difference_refs MIR with denotational ZDD model."""
import copy, re, sys, time
from z3 import *
from mirparse import *

N = 5
W = 1 << N
FULL = (1 << W) - 1
MW = [sum(1 << m for m in range(W) if not (m >> v) & 1) for v in range(N)]


def BVW(x): return BitVecVal(x, W)
def addvar_c(F, v): return (F & BVW(MW[v])) << (1 << v)
def remvar_c(F, v): return LShR(F & BVW(~MW[v] & FULL), (1 << v))


def ite_v(vexpr, f):
    e = f(N - 1)
    for v in reversed(range(N - 1)):
        e = If(vexpr == v, f(v), e)
    return e


def minvar(F):
    e = BitVecVal(N, 32)
    for v in reversed(range(N)):
        e = If((F & BVW(~MW[v] & FULL)) != 0, BitVecVal(v, 32), e)
    return e


def addvar(F, v): return ite_v(v, lambda k: addvar_c(F, k))
def depth(F): return If(Or(F == 0, F == 1), BitVecVal(0, 32), BitVecVal(N, 32) - minvar(F))


class ZRef:  # a ZddRef abstracted by the family it denotes
    def __init__(s, F): s.F = F
    def __repr__(s): return 'ZRef(%s)' % s.F


class Enum:
    def __init__(s, ty, disc, fields): s.ty, s.disc, s.fields = ty, disc, fields
    def __repr__(s): return 'Enum(%s,%s,%s)' % (s.ty, s.disc, s.fields)


class Ptr:
    def __init__(s, frame, place): s.frame, s.place = frame, place


class Val:  # boxed rvalue target for model-returned references
    def __init__(s, v): s.v = v


class Frame:
    def __init__(s, fn): s.fn = fn; s.locals = {}


class Opaque:
    def __init__(s, tag): s.tag = tag
    def __repr__(s): return 'Opaque(%s)' % s.tag


class Path:
    def __init__(s): s.pc = []; s.obl = []; s.trace = []


class Exec:
    def __init__(s, funcs, consts, spec, cache_spec):
        s.funcs, s.consts = funcs, consts
        s.spec = spec            # contract of recursive call: (Fa,Fb)->F
        s.solver = Solver()
        s.results = []           # (path, retval)
        s.queries = 0

    def feasible(s, pc):
        s.queries += 1
        s.solver.push(); s.solver.add(*pc); r = s.solver.check(); s.solver.pop()
        return r == sat

    # ---- places
    def read(s, fr, pl):
        k = pl[0]
        if k == 'local': return fr.locals[pl[1]]
        if k == 'deref':
            p = s.read(fr, pl[1])
            if isinstance(p, Ptr): return s.read(p.frame, p.place)
            if isinstance(p, Val): return p.v
            raise Exception('deref of %r' % p)
        if k == 'field':
            b = s.read(fr, pl[1])
            if isinstance(b, list): return b[pl[2]]
            if isinstance(b, tuple) and b[0] == 'variant': return b[1][pl[2]]
            if isinstance(b, Opaque): return Opaque('%s.%d' % (b.tag, pl[2]))
            raise Exception('field of %r' % (b,))
        if k == 'downcast':
            b = s.read(fr, pl[1])
            if isinstance(b, ZRef):
                assert pl[2] == 'Node'; return ('variant', [b])   # node id ~ family
            if isinstance(b, Enum): return ('variant', b.fields[pl[2]])
            raise Exception('downcast of %r' % (b,))
        raise Exception('read ' + str(pl))

    def write(s, fr, pl, v):
        if pl[0] == 'local': fr.locals[pl[1]] = v; return
        if pl[0] == 'deref':
            p = s.read(fr, pl[1])
            if isinstance(p, Ptr): return s.write(p.frame, p.place, v)
        if pl[0] == 'field':
            b = s.read(fr, pl[1])
            if isinstance(b, list): b[pl[2]] = v; return
        raise Exception('write ' + str(pl))

    def operand(s, fr, op):
        if op[0] in ('copy', 'move'): return s.read(fr, op[1])
        c = op[1]
        if c in s.consts: return s.run_const(c)
        if 'promoted[' in c:
            ks = [k for k in s.consts if c.endswith('::' + k) or c.endswith(k)]
            if len(ks) == 1: return s.run_const(ks[0])
        m = re.match(r'(-?\d+)_(\w+)$', c)
        if m: return BitVecVal(int(m.group(1)), 64 if m.group(2) in ('usize', 'isize', 'u64', 'i64') else 32)
        if c in ('true', 'false'): return BoolVal(c == 'true')
        return Opaque('const ' + c)

    def run_const(s, name):
        f = s.consts[name]; fr = Frame(f)
        st, tm = f.blocks['bb0']
        for x in st:
            ps = parse_stmt(x)
            if ps[0] == 'assign': s.write(fr, ps[1], s.rvalue(fr, ps[2]))
        return fr.locals['_0']

    def discr(s, v):
        if isinstance(v, ZRef): return If(v.F == 0, BitVecVal(0, 64), If(v.F == 1, BitVecVal(1, 64), BitVecVal(2, 64)))
        if isinstance(v, Enum): return v.disc
        raise Exception('discr of %r' % (v,))

    def rvalue(s, fr, rv):
        k = rv[0]
        if k == 'use': return s.operand(fr, rv[1])
        if k == 'ref': return Ptr(fr, rv[1])
        if k == 'discr': return s.discr(s.read(fr, rv[1]))
        if k == 'tuple': return [s.operand(fr, o) for o in rv[1]]
        if k == 'adt':
            ty, var, args = rv[1], rv[2], [s.operand(fr, o) for o in rv[3]]
            if ty.endswith('ZddRef'):
                return ZRef({'Empty': BVW(0), 'Base': BVW(1)}[var]) if var != 'Node' else ZRef(args[0].F if isinstance(args[0], ZRef) else args[0])
            if 'Option' in ty: return Enum('Option', BitVecVal(1 if var == 'Some' else 0, 64), {'Some': args})
            raise Exception('adt ' + ty)
        if k == 'binop':
            a, b = s.operand(fr, rv[2]), s.operand(fr, rv[3])
            return {'Lt': lambda: ULT(a, b), 'Gt': lambda: UGT(a, b), 'Le': lambda: ULE(a, b), 'Ge': lambda: UGE(a, b), 'Eq': lambda: a == b, 'Ne': lambda: a != b}[rv[1]]()
        raise Exception('rvalue ' + str(rv))

    # ---- main loop (DFS over paths)
    def run(s, fname, args, path):
        f = s.funcs[fname]
        fr = Frame(f)
        for (l, _), a in zip(f.params, args): fr.locals[l] = a
        s.step(fr, 'bb0', path, [])

    def step(s, fr, bb, path, stack):
        while True:
            st, tm = fr.fn.blocks[bb]
            for x in st:
                ps = parse_stmt(x)
                if ps[0] == 'assign': s.write(fr, ps[1], s.rvalue(fr, ps[2]))
            t = parse_term(tm)
            if t[0] == 'goto': bb = t[1]; continue
            if t[0] == 'return':
                rv = fr.locals.get('_0')
                if not stack: s.results.append((path, rv)); return
                (cfr, lhs, nxt), stack = stack[-1], stack[:-1]
                s.write(cfr, lhs, rv); fr, bb = cfr, nxt; continue
            if t[0] == 'unreachable':
                path.obl.append(('unreachable reached in ' + fr.fn.name, BoolVal(False))); return
            if t[0] == 'switch':
                d = s.operand(fr, t[1]); tg = t[2]
                if is_bool(d): d = If(d, BitVecVal(1, 64), BitVecVal(0, 64))
                conds = []
                for k, v in tg.items():
                    if k != 'otherwise': conds.append((d == int(k), v))
                if 'otherwise' in tg: conds.append((And(*[d != int(k) for k in tg if k != 'otherwise']), tg['otherwise']))
                live = [(c, v) for c, v in conds if s.feasible(path.pc + [c])]
                for i, (c, v) in enumerate(live):
                    if i == len(live) - 1:
                        path.pc.append(c); bb = v
                    else:
                        st2 = copy.deepcopy((fr, path, stack))
                        st2[1].pc.append(c)
                        s.step(st2[0], v, st2[1], st2[2])
                if not live: return
                continue
            if t[0] == 'call':
                _, lhs, callee, aops, nxt = t
                args = [s.operand(fr, o) for o in aops]
                r = s.call(fr, callee, args, path)
                if isinstance(r, tuple) and r[0] == 'inline':
                    nf = Frame(s.funcs[r[1]])
                    for (l, _), a in zip(nf.fn.params, args): nf.locals[l] = a
                    stack = stack + [(fr, lhs, nxt)]; fr, bb = nf, 'bb0'; continue
                if isinstance(r, tuple) and r[0] == 'fork':
                    alts = [(c, v) for c, v in r[1] if s.feasible(path.pc + [c])]
                    for i, (c, v) in enumerate(alts):
                        if i == len(alts) - 1:
                            path.pc.append(c); s.write(fr, lhs, v); bb = nxt
                        else:
                            f2, p2, s2 = copy.deepcopy((fr, path, stack))
                            p2.pc.append(c); s.write(f2, lhs, copy.deepcopy(v)); s.step(f2, nxt, p2, s2)
                    continue
                s.write(fr, lhs, r); bb = nxt; continue
            raise Exception('term ' + str(t))

    def deref(s, v):
        while isinstance(v, (Ptr, Val)):
            v = s.read(v.frame, v.place) if isinstance(v, Ptr) else v.v
        return v

    def call(s, fr, callee, args, path):
        path.trace.append(callee)
        if callee == '<ZddRef as PartialEq>::eq':
            a, b = s.deref(args[0]), s.deref(args[1]); return a.F == b.F
        if callee == '<ZddRef as PartialOrd>::le':
            a, b = s.deref(args[0]), s.deref(args[1])
            rank = Function('rank', BitVecSort(W), IntSort())
            path.pc.append(Implies(a.F != b.F, rank(a.F) != rank(b.F)))   # arbitrary total order on the refs involved
            return rank(a.F) <= rank(b.F)
        if callee == 'ZddRef::node_id': return ('inline', [n for n in s.funcs if n.endswith('::node_id')][0])
        if callee.startswith('Option::<u32>::unwrap'):
            o = args[0]; path.obl.append(('unwrap on Some', o.disc == 1)); return o.fields['Some'][0]
        if callee.startswith('HashMap::') and '::get::' in callee:
            key = s.deref(args[1])
            c = BitVec('cache_hit_%d' % len(path.trace), W)
            hit = Bool('cache_has_%d' % len(path.trace))
            inv = c == (s.spec(key[0].F, key[1].F) if isinstance(key, list) else s.spec(key.F, None))        # cache invariant
            return ('fork', [(Not(hit), Enum('Option', BitVecVal(0, 64), {})),
                             (And(hit, inv), Enum('Option', BitVecVal(1, 64), {'Some': [Val(ZRef(c))]}))])
        if callee.startswith('HashMap::') and callee.endswith('::insert'):
            key, val = args[1], args[2]
            path.obl.append(('cache insert keeps invariant', val.F == (s.spec(key[0].F, key[1].F) if isinstance(key, list) else s.spec(key.F, None))))
            return Opaque('insert-ret')
        if callee == 'get_node_info': return ('inline', [n for n in s.funcs if n == 'get_node_info'][0])
        if callee == 'ZddArena::get_node_info': return ('inline', [n for n in s.funcs if n.endswith('::get_node_info') and 'arena' in n][0])
        if callee == 'UniqueTable::get_node':
            F = args[1].F if isinstance(args[1], ZRef) else args[1]
            v = minvar(F)
            lo = ite_v(v, lambda k: F & BVW(MW[k])); hi = ite_v(v, lambda k: remvar_c(F, k))
            return Val([v, ZRef(lo), ZRef(hi)])
        if callee == 'UniqueTable::get_or_create':
            v, lo, hi = args[1], args[2].F, args[3].F
            path.obl.append(('get_or_create var in range', ULT(v, N)))
            path.obl.append(('get_or_create ordered', And(ULT(v, minvar(lo)), ULT(v, minvar(hi)))))
            return ZRef(If(hi == 0, lo, lo | addvar(hi, v)))
        if callee in s.recursive:
            sp, kind = s.recursive[callee]
            if kind == 'arena2': a, b = args[1].F, args[2].F
            elif kind == 'free2': a, b = args[0].F, args[1].F
            elif kind == 'prod':
                a, b = args[1].F, None
                path.obl.append(('recursion measure decreases', ULT(depth(a), s.measure0)))
                return ZRef(sp(a, None))
            path.obl.append(('recursion measure decreases', ULT(depth(a) + depth(b), s.measure0)))
            return ZRef(sp(a, b))
        raise Exception('unsupported call ' + callee)


def main(mirfile):
    txt = open(mirfile).read()
    funcs = parse_functions(txt)
    consts = {}
    for m in re.finditer(r'^const (.*?promoted\[\d+\]): [^\n]*? = \{\n(.*?)\n\}\n', txt, re.S | re.M):
        body = 'fn ' + m.group(1) + '() -> X {\n' + m.group(2) + '\n}\n'
        nm = m.group(1).replace('<impl at src/arena.rs:100:1: 100:14>', 'ZddArena')
        consts[nm] = list(parse_functions(body).values())[0]
        consts[nm.split('::', 1)[1] if nm.startswith('ops::') else nm] = consts[nm]
    A, B = BitVecs('A B', W)
    V = BitVec('V', 32)
    U, I_, D = (lambda a, b: a | b), (lambda a, b: a & b), (lambda a, b: a & ~b)
    P = lambda a, b: a | addvar(a, V)
    arena = lambda: [Opaque('table'), Opaque('ucache'), Opaque('icache'), Opaque('dcache'), Opaque('ccache')]
    jobs = [('arena union_refs', 'arena::<impl at src/arena.rs:100:1: 100:14>::union_refs', U, 'arena2'),
            ('arena intersection_refs', 'arena::<impl at src/arena.rs:100:1: 100:14>::intersection_refs', I_, 'arena2'),
            ('arena difference_refs', 'arena::<impl at src/arena.rs:100:1: 100:14>::difference_refs', D, 'arena2'),
            ('arena product_with_optional_rec', 'arena::<impl at src/arena.rs:100:1: 100:14>::product_with_optional_rec', P, 'prod'),
            ('ops difference_rec', 'difference_rec', D, 'free2'),
            ('ops union_rec', 'union_rec', U, 'free2'),
            ('ops intersection_rec', 'intersection_rec', I_, 'free2')]
    for title, fname, spec, kind in jobs:
        if fname not in funcs: print(title, 'NOT FOUND'); continue
        ex = Exec(funcs, consts, spec, None)
        short = fname.split('::')[-1]
        ex.recursive = {('ZddArena::' + short if kind != 'free2' else short): (spec, kind),
                        'ZddArena::union_refs': (U, 'arena2')}
        t0 = time.time()
        ar = Ptr(Frame(None), ('local', 'arena')); ar.frame.locals['arena'] = arena()
        cache = Ptr(Frame(None), ('local', 'c')); cache.frame.locals['c'] = Opaque('cache')
        table = Ptr(Frame(None), ('local', 't')); table.frame.locals['t'] = Opaque('table')
        try:
            if kind == 'arena2':
                ex.measure0 = depth(A) + depth(B); ex.run(fname, [ar, ZRef(A), ZRef(B)], Path()); goal = spec(A, B)
            elif kind == 'free2':
                ex.measure0 = depth(A) + depth(B); ex.run(fname, [ZRef(A), ZRef(B), table, cache], Path()); goal = spec(A, B)
            else:
                ex.measure0 = depth(A); p0 = Path(); p0.pc.append(ULT(V, N)); ex.run(fname, [ar, ZRef(A), V, cache], p0); goal = spec(A, None)
        except Exception as e:
            import traceback; traceback.print_exc(); print(title, 'EXEC ERROR:', e); continue
        nob = bad = 0
        for path, rv in ex.results:
            for name, o in path.obl + [('result = spec', rv.F == goal)]:
                nob += 1
                sv = Solver(); sv.add(*path.pc); sv.add(Not(o))
                if sv.check() != unsat:
                    bad += 1; m = sv.model()
                    fam = lambda x: [[v for v in range(N) if (s_ >> v) & 1] for s_ in range(W) if (x >> s_) & 1]
                    print('  VIOLATED:', name, 'A=', fam(m.eval(A, True).as_long()), 'B=', fam(m.eval(B, True).as_long()), 'V=', m.eval(V, True))
        print('%s: paths=%d feas-queries=%d obligations=%d violated=%d  %.2fs' % (title, len(ex.results), ex.queries, nob, bad, time.time() - t0))


main(sys.argv[1])
