import time
from z3 import *
N=5; W=1<<N   # 5 vars -> 32-bit family vectors
def mask_without(v): # bit positions m where (m>>v)&1==0
    return sum(1<<m for m in range(W) if not (m>>v)&1)
MW=[mask_without(v) for v in range(N)]
def BV(x): return BitVecVal(x,W)
def addvar(F,v):  # v concrete: sets without v -> add v
    return (F & BV(MW[v])) << (1<<v)
def remvar(F,v):
    return LShR(F & BV(~MW[v] & (W and (1<<W)-1)), (1<<v))
def minvar(F):  # smallest var appearing in any set; returns int expr 0..N-1, N if none
    e=IntVal(N)
    for v in reversed(range(N)):
        e=If((F & BV(~MW[v] & ((1<<W)-1)))!=0, IntVal(v), e)
    return e
def ite_v(vexpr, f):  # f(v) for concrete v, merged
    e=f(N-1)
    for v in reversed(range(N-1)):
        e=If(vexpr==v, f(v), e)
    return e
def node_info(F):
    v=minvar(F)
    lo=ite_v(v, lambda k: F & BV(MW[k]))
    hi=ite_v(v, lambda k: remvar(F,k))
    return v,lo,hi
def goc(v, lo, hi): # get_or_create
    return ite_v(v, lambda k: lo | addvar(hi,k))
def step(buggy):
    A,B=BitVecs('A B',W)
    s=Solver()
    # only non-terminal distinct case (Node,Node)
    s.add(A!=0,A!=1,B!=0,B!=1,A!=B)
    av,alo,ahi=node_info(A); bv,blo,bhi=node_info(B)
    rec=lambda x,y: x & ~y   # contract of recursive call
    r_lt = goc(av, rec(alo,B), rec(ahi,B) if buggy else ahi)
    r_gt = rec(A,blo)
    r_eq = goc(av, rec(alo,blo), rec(ahi,bhi))
    R=If(av<bv, r_lt, If(av>bv, r_gt, r_eq))
    s.add(R != (A & ~B))
    t=time.time(); r=s.check(); dt=time.time()-t
    if r==sat:
        m=s.model(); return r,dt,(m[A].as_long(),m[B].as_long())
    return r,dt,None
print('good',step(False))
print('buggy',step(True))
