//! Verification model of rustc-hash: FxHashMap/FxHashSet are association vectors
//! (linear scan, Eq only). Same observable get/insert/remove/len contract.
use std::borrow::Borrow;
use std::hash::{BuildHasher, Hasher};

#[derive(Clone, Default)]
pub struct FxHasher { hash: usize }
impl Hasher for FxHasher {
    fn write(&mut self, bytes: &[u8]) { for b in bytes { self.hash = self.hash.wrapping_mul(31).wrapping_add(*b as usize); } }
    fn finish(&self) -> u64 { self.hash as u64 }
}
#[derive(Clone, Copy, Default, Debug)]
pub struct FxBuildHasher;
impl BuildHasher for FxBuildHasher { type Hasher = FxHasher; fn build_hasher(&self) -> FxHasher { FxHasher::default() } }

#[derive(Clone, Debug)]
pub struct FxHashMap<K, V> { items: Vec<(K, V)> }
impl<K, V> Default for FxHashMap<K, V> { fn default() -> Self { Self { items: Vec::new() } } }
impl<K: Eq, V> FxHashMap<K, V> {
    pub fn new() -> Self { Self::default() }
    pub fn with_capacity_and_hasher(_c: usize, _h: FxBuildHasher) -> Self { Self::default() }
    pub fn with_hasher(_h: FxBuildHasher) -> Self { Self::default() }
    pub fn len(&self) -> usize { self.items.len() }
    pub fn is_empty(&self) -> bool { self.items.is_empty() }
    pub fn capacity(&self) -> usize { self.items.capacity() }
    pub fn clear(&mut self) { self.items.clear() }
    pub fn get<Q: ?Sized + Eq>(&self, k: &Q) -> Option<&V> where K: Borrow<Q> {
        let mut i = 0;
        while i < self.items.len() { if self.items[i].0.borrow() == k { return Some(&self.items[i].1); } i += 1; }
        None
    }
    pub fn contains_key<Q: ?Sized + Eq>(&self, k: &Q) -> bool where K: Borrow<Q> { self.get(k).is_some() }
    pub fn insert(&mut self, k: K, v: V) -> Option<V> {
        let mut i = 0;
        while i < self.items.len() { if self.items[i].0 == k { return Some(std::mem::replace(&mut self.items[i].1, v)); } i += 1; }
        self.items.push((k, v)); None
    }
}
#[derive(Clone, Debug)]
pub struct FxHashSet<K> { items: Vec<K> }
impl<K> Default for FxHashSet<K> { fn default() -> Self { Self { items: Vec::new() } } }
impl<K: Eq> FxHashSet<K> {
    pub fn len(&self) -> usize { self.items.len() }
    pub fn contains(&self, k: &K) -> bool { let mut i = 0; while i < self.items.len() { if &self.items[i] == k { return true; } i += 1; } false }
    pub fn insert(&mut self, k: K) -> bool { if self.contains(&k) { false } else { self.items.push(k); true } }
}
