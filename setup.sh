#!/bin/bash
# Build the framework from files on disk only (offline).  Idempotent.
set -e
cd "$(dirname "$0")"
export CARGO_NET_OFFLINE=true
mkdir -p .cache evidence replays
python3-vt - <<'PY'
import sys
sys.path.insert(0, '/verif')
from vlib import mirdump, replay
for c in ('zdd',):
    p, info = mirdump.dump(c)
    print('MIR', c, info)
for r in ('zdd',):
    print('replay helper', replay.build(r))
PY
echo "setup ok"
