#!/bin/bash
# Build the framework from files on disk only (offline).  Idempotent.  Warms the caches the checks re-use:
# MIR dumps (nightly rustc, deps compiled once), native replay helpers, Kani harness crates (codegen of deps).
set -e
cd "$(dirname "$0")"
export CARGO_NET_OFFLINE=true
mkdir -p .cache evidence replays
python3-vt - <<'PY'
import sys, subprocess, os
sys.path.insert(0, '/verif')
from vlib import mirdump, replay
for c in ('zdd', 'core', 'runtime', 'parser', 'cluster', 'cli', 'lsp'):
    try:
        p, info = mirdump.dump(c); print('MIR', c, info, flush=True)
    except Exception as e:
        print('MIR dump failed for', c, e, flush=True)
HOOKED = {'api': '--cfg varpulis_verif', 'lsp': '--cfg varpulis_verif'}      # built only with the cfg(varpulis_verif) hooks; rt is built both ways
for r in sorted(os.listdir('/verif/replay')):
    try:
        print('replay helper', replay.build(r, rustflags=HOOKED.get(r)), flush=True)
    except Exception as e:
        print('replay build failed', r, e, flush=True)
try:
    print('replay helper', replay.build('rt', rustflags='--cfg varpulis_verif'), flush=True)
except Exception as e:
    print('replay build failed rt (hooks)', e, flush=True)
PY
for k in kani/*/; do
  k=$(basename "$k")
  echo "kani codegen $k"
  (cd kani/$k && cp -n /repo/Cargo.lock . 2>/dev/null; cargo kani --target-dir /verif/.cache/kani-target/$k -Z stubbing -Z unstable-options --only-codegen >/dev/null 2>&1 || echo "kani codegen of $k failed (reported again by the checks)")
done
echo "setup ok"
