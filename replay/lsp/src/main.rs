//! Native replay for C43: run one language-server request on a document and position; report panics and out-of-document ranges.
//!   replay-lsp <request> <line> <character> <text as \u{..}-escaped / plain string>
//! request in diagnostics | hover | completion | definition | references | tokens | symbols | all
use std::panic::{catch_unwind, AssertUnwindSafe};
use tower_lsp::lsp_types::{Position, Range, Url};

fn unescape(s: &str) -> String {
    // \n, \r, \t, \\ and \u{hex}
    let mut out = String::new();
    let cs: Vec<char> = s.chars().collect();
    let mut i = 0;
    while i < cs.len() {
        if cs[i] == '\\' && i + 1 < cs.len() {
            match cs[i + 1] {
                'n' => { out.push('\n'); i += 2 }
                'r' => { out.push('\r'); i += 2 }
                't' => { out.push('\t'); i += 2 }
                '\\' => { out.push('\\'); i += 2 }
                'u' if i + 2 < cs.len() && cs[i + 2] == '{' => {
                    let end = (i + 3..cs.len()).find(|&k| cs[k] == '}').expect("closing brace");
                    let hex: String = cs[i + 3..end].iter().collect();
                    out.push(char::from_u32(u32::from_str_radix(&hex, 16).unwrap()).expect("scalar value"));
                    i = end + 1;
                }
                _ => { out.push(cs[i]); i += 1 }
            }
        } else { out.push(cs[i]); i += 1 }
    }
    out
}

/// a range lies within the document: lines exist (the line after a trailing newline counts), start <= end, columns not beyond the line
/// (columns are accepted in any of the three encodings in use: chars, UTF-16 units, bytes — the loosest bound, bytes, is applied)
fn range_in_doc(text: &str, r: &Range) -> Result<(), String> {
    let lines: Vec<&str> = text.split('\n').collect();
    let chk = |p: &Position| -> Result<(), String> {
        let l = p.line as usize;
        if l >= lines.len() { return Err(format!("line {} beyond the document's {} lines", l, lines.len())) }
        let max = lines[l].len();
        if p.character as usize > max { return Err(format!("character {} beyond line {} of {} bytes", p.character, l, max)) }
        Ok(())
    };
    chk(&r.start)?; chk(&r.end)?;
    if (r.start.line, r.start.character) > (r.end.line, r.end.character) { return Err("start after end".into()) }
    Ok(())
}

fn main() {
    let a: Vec<String> = std::env::args().collect();
    if a.len() >= 2 && a[1] == "chartable" {
        // the real std character predicates for ASCII and the given extra code points (the symbolic model reads them from here)
        let mut cps: Vec<u32> = (0..128).collect();
        for x in &a[2..] { cps.push(u32::from_str_radix(x, 16).unwrap()) }
        let rows: Vec<String> = cps.iter().filter_map(|&cp| char::from_u32(cp).map(|c| format!(
            "\"{}\":{{\"alnum\":{},\"alpha\":{},\"ws\":{},\"upper\":{},\"lower\":{},\"numeric\":{},\"ascii_digit\":{},\"ascii_alnum\":{},\"ascii_alpha\":{},\"len_utf8\":{},\"len_utf16\":{}}}",
            cp, c.is_alphanumeric(), c.is_alphabetic(), c.is_whitespace(), c.is_uppercase(), c.is_lowercase(), c.is_numeric(), c.is_ascii_digit(), c.is_ascii_alphanumeric(), c.is_ascii_alphabetic(), c.len_utf8(), c.len_utf16()))).collect();
        println!("{{{}}}", rows.join(","));
        return;
    }
    if a.len() < 5 { eprintln!("usage: replay-lsp <request> <line> <character> <text>"); std::process::exit(2) }
    let req = a[1].as_str();
    let pos = Position { line: a[2].parse().unwrap(), character: a[3].parse().unwrap() };
    let text = unescape(&a[4]);
    let uri = Url::parse("file:///doc.vpl").unwrap();
    std::panic::set_hook(Box::new(|_| {}));
    let mut bad: Vec<String> = Vec::new();
    { let mut run = |name: &str, f: &dyn Fn() -> Vec<Range>| {
        if req != "all" && req != name { return }
        match catch_unwind(AssertUnwindSafe(f)) {
            Err(e) => {
                let msg = e.downcast_ref::<String>().cloned().or_else(|| e.downcast_ref::<&str>().map(|s| s.to_string())).unwrap_or_default();
                bad.push(format!("{name} panicked: {msg}"))
            }
            Ok(rs) => for r in rs { if let Err(why) = range_in_doc(&text, &r) { bad.push(format!("{name} reported range {:?}: {why}", r)) } },
        }
    };
    run("diagnostics", &|| varpulis_lsp::diagnostics::get_diagnostics(&text).into_iter().map(|d| d.range).collect());
    run("hover", &|| varpulis_lsp::hover::get_hover(&text, pos).and_then(|h| h.range).into_iter().collect());
    run("completion", &|| { let _ = varpulis_lsp::completion::get_completions(&text, pos); vec![] });
    run("definition", &|| varpulis_lsp::navigation::get_definition(&text, pos, &uri).map(|l| l.range).into_iter().collect());
    run("references", &|| varpulis_lsp::navigation::get_references(&text, pos, &uri).unwrap_or_default().into_iter().map(|l| l.range).collect());
    run("tokens", &|| { let _ = varpulis_lsp::semantic::get_semantic_tokens(&text); vec![] });
    run("symbols", &|| varpulis_lsp::semantic::get_document_symbols(&text).into_iter().map(|s| s.location.range).collect());
    }
    // private helpers, reachable through the cfg(varpulis_verif) hooks: `<fn name> <line> <col|pos> <text>`
    #[cfg(varpulis_verif)]
    {
        let n1 = a[2].parse::<usize>().unwrap(); let n2 = a[3].parse::<usize>().unwrap();
        let doc_has = |line: usize, col: usize| -> Result<(), String> {
            let ls: Vec<&str> = text.split('\n').collect();
            if line >= ls.len() { return Err(format!("line {line} beyond the document")) }
            if col > ls[line].chars().count() { return Err(format!("column {col} beyond line {line} of {} characters", ls[line].chars().count())) }
            Ok(())
        };
        let mut runf = |name: &str, f: &dyn Fn() -> Result<(), String>| {
            if req != name { return }
            match catch_unwind(AssertUnwindSafe(f)) {
                Err(e) => {
                    let msg = e.downcast_ref::<String>().cloned().or_else(|| e.downcast_ref::<&str>().map(|s| s.to_string())).unwrap_or_default();
                    bad.push(format!("{name} panicked: {msg}"))
                }
                Ok(Err(why)) => bad.push(format!("{name}: {why}")),
                Ok(Ok(())) => {}
            }
        };
        runf("position_to_line_col", &|| { let (l, c) = varpulis_lsp::diagnostics::verif_hooks::position_to_line_col(&text, n2); doc_has(l, c) });
        runf("byte_offset_to_position", &|| { let (l, c) = varpulis_lsp::navigation::verif_hooks::byte_offset_to_position(&text, n2); doc_has(l, c) });
        runf("get_error_end_column", &|| { let _ = varpulis_lsp::diagnostics::verif_hooks::get_error_end_column(&text, n1, n2); Ok(()) });
        runf("get_completion_context", &|| { varpulis_lsp::completion::verif_hooks::run_completion_context(&text, pos); Ok(()) });
        runf("get_word_at_position", &|| { let _ = varpulis_lsp::hover::verif_hooks::get_word_at_position(&text, pos); Ok(()) });
        runf("word_at_position", &|| { let _ = varpulis_lsp::navigation::verif_hooks::word_at_position(&text, pos); Ok(()) });
    }
    if bad.is_empty() { println!("OK {req} at {}:{} on {:?}", pos.line, pos.character, text) }
    else { println!("REPRODUCED on {:?} at {}:{}: {}", text, pos.line, pos.character, bad.join("; ")) }
}
