//! Native replay of engine-M / engine-K counterexamples against the real varpulis-runtime API.
//! Prints `REPRODUCED ...` and exits 1 when the real code shows the reported behaviour, `OK ...`/exit 0 otherwise.
use std::cmp::Ordering;
use std::panic;
use varpulis_core::ast::{BinOp, Expr, UnaryOp};
use varpulis_core::Value;
use varpulis_runtime::engine::evaluator::{eval_binary_op, eval_filter_expr};
use varpulis_runtime::sequence::SequenceContext;
use varpulis_runtime::Event;

fn binop(s: &str) -> BinOp {
    match s { "Add" => BinOp::Add, "Sub" => BinOp::Sub, "Mul" => BinOp::Mul, "Div" => BinOp::Div, "Mod" => BinOp::Mod, "Pow" => BinOp::Pow,
        "Eq" => BinOp::Eq, "NotEq" => BinOp::NotEq, "Lt" => BinOp::Lt, "Le" => BinOp::Le, "Gt" => BinOp::Gt, "Ge" => BinOp::Ge,
        "And" => BinOp::And, "Or" => BinOp::Or, "Xor" => BinOp::Xor, _ => panic!("binop {s}") }
}

/// class + payload text -> literal expression and value ("Float" payload = IEEE bits as u64 decimal)
fn lit(class: &str, payload: &str) -> (Expr, Value) {
    match class {
        "Int" => { let i: i64 = payload.parse().unwrap(); (Expr::Int(i), Value::Int(i)) }
        "Float" => { let f = f64::from_bits(payload.parse::<u64>().unwrap()); (Expr::Float(f), Value::Float(f)) }
        "Bool" => { let b = payload == "true"; (Expr::Bool(b), Value::Bool(b)) }
        "Str" => (Expr::Str(payload.to_string()), Value::Str(payload.into())),
        "Null" => (Expr::Null, Value::Null),
        _ => panic!("class {class}"),
    }
}

/// exact comparison of i64 with f64 through integer arithmetic on the float's mantissa/exponent (independent oracle)
fn exact_cmp_if(i: i64, f: f64) -> Option<Ordering> {
    if f.is_nan() { return None; }
    if f == f64::INFINITY { return Some(Ordering::Less); }
    if f == f64::NEG_INFINITY { return Some(Ordering::Greater); }
    if f == 0.0 { return Some(i.cmp(&0)); }
    let bits = f.to_bits();
    let neg = (bits >> 63) == 1;
    let e = ((bits >> 52) & 0x7ff) as i32;
    let frac = bits & ((1u64 << 52) - 1);
    let (m, ex) = if e == 0 { (frac, -1074) } else { (frac | (1u64 << 52), e - 1075) }; // |f| = m * 2^ex
    // compare i with sign * m * 2^ex
    if (i < 0) != neg { return Some(if i < 0 { Ordering::Less } else { Ordering::Greater }); }
    let ai = (i as i128).unsigned_abs(); // |i| < 2^64
    let ord_abs = if ex >= 0 {
        if ex > 70 { Ordering::Less } else { ai.cmp(&((m as u128) << ex)) }
    } else {
        let sh = (-ex) as u32;
        if sh > 120 { if ai == 0 { Ordering::Less } else { Ordering::Greater } }
        else if sh >= 64 { // m*2^ex < 2^53 * 2^-64 < 1
            if ai == 0 { Ordering::Less } else { Ordering::Greater } }
        else { (ai << sh).cmp(&(m as u128)) }
    };
    Some(if neg { ord_abs.reverse() } else { ord_abs })
}

fn exact_cmp(l: &Value, r: &Value) -> Option<Ordering> {
    match (l, r) {
        (Value::Int(a), Value::Int(b)) => Some(a.cmp(b)),
        (Value::Float(a), Value::Float(b)) => a.partial_cmp(b),
        (Value::Int(a), Value::Float(b)) => exact_cmp_if(*a, *b),
        (Value::Float(a), Value::Int(b)) => exact_cmp_if(*b, *a).map(|o| o.reverse()),
        _ => None,
    }
}

fn eval_arm(e: &Expr) -> Option<Value> {
    let ev = Event::new("T");
    let ctx = SequenceContext::new();
    eval_filter_expr(e, &ev, &ctx)
}

// ---------------------------------------------------------------------------------------------
// Virtual clock: this binary defines `clock_gettime`, which takes precedence over libc's symbol, so that
// std::time::Instant::now() inside the real varpulis code reads a clock the replay controls exactly
// (seconds + nanoseconds, as in the Kani harnesses' stub).  Inactive unless VIRTUAL is set.
use std::sync::atomic::{AtomicBool, AtomicI64, Ordering as AO};
static VIRTUAL: AtomicBool = AtomicBool::new(false);
static VS: AtomicI64 = AtomicI64::new(0);
static VN: AtomicI64 = AtomicI64::new(0);
#[repr(C)]
pub struct Timespec { tv_sec: i64, tv_nsec: i64 }
#[no_mangle]
pub unsafe extern "C" fn clock_gettime(clk: i32, ts: *mut Timespec) -> i32 {
    if VIRTUAL.load(AO::SeqCst) {
        (*ts).tv_sec = VS.load(AO::SeqCst) + 1000;
        (*ts).tv_nsec = VN.load(AO::SeqCst);
        return 0;
    }
    let ret: i64;
    std::arch::asm!("syscall", inlateout("rax") 228i64 => ret, in("rdi") clk as i64, in("rsi") ts, lateout("rcx") _, lateout("r11") _, options(nostack));
    ret as i32
}
fn set_clock(s: i64, n: i64) { VS.store(s, AO::SeqCst); VN.store(n, AO::SeqCst); VIRTUAL.store(true, AO::SeqCst); }

/// breaker <threshold> <timeout_s> <step>...   step = ds:nanos:choice  (choice 0 allow_request, 1 record_success, 2 record_failure)
/// Re-runs the history on the real CircuitBreaker under the virtual clock against the contract monitor.
fn breaker(a: &[String]) {
    use std::time::Duration;
    use varpulis_runtime::circuit_breaker::{CircuitBreaker, CircuitBreakerConfig, State};
    let thr: u32 = a[0].parse().unwrap(); let timeout_s: u64 = a[1].parse().unwrap();
    set_clock(0, 0);
    let cb = CircuitBreaker::new(CircuitBreakerConfig { failure_threshold: thr, reset_timeout: Duration::from_secs(timeout_s) });
    let (mut m_state, mut m_fail, mut m_last_s, mut m_last_n, mut m_probe) = (State::Closed, 0u32, 0u64, 0u32, false);
    let (mut now_s, mut now_n) = (0u64, 0u32);
    let mut bad: Option<String> = None;
    for (i, st) in a[2..].iter().enumerate() {
        let p: Vec<u64> = st.split(':').map(|x| x.parse().unwrap()).collect();
        now_s += p[0]; now_n = p[1] as u32; set_clock(now_s as i64, now_n as i64);
        let mut fail = |m: &str| { if bad.is_none() { bad = Some(format!("step {i} ({st}): {m}")); } };
        match p[2] {
            0 => { let adm = cb.allow_request();
                match m_state {
                    State::Closed => if !adm { fail("closed breaker rejected a request") },
                    State::Open => { let ds = now_s - m_last_s; let expired = if now_n >= m_last_n { ds >= timeout_s } else { ds >= timeout_s + 1 };
                        if expired { if !adm { fail("first request after the reset timeout was not admitted as the probe") } m_state = State::HalfOpen; m_probe = true; }
                        else if adm { fail("open breaker admitted a request before the reset timeout") } }
                    State::HalfOpen => { if m_probe { if adm { fail("half-open breaker admitted a second request while the probe is outstanding") } } else { m_probe = true; } }
                } }
            1 => { cb.record_success(); m_fail = 0; if m_state == State::HalfOpen { m_state = State::Closed; m_probe = false; } }
            _ => { cb.record_failure(); m_last_s = now_s; m_last_n = now_n;
                match m_state { State::Closed => { m_fail += 1; if m_fail >= thr { m_state = State::Open; } } State::HalfOpen => { m_state = State::Open; m_probe = false; } State::Open => {} } }
        }
        if cb.state() != m_state { fail(&format!("state is {:?}, the contract says {:?}", cb.state(), m_state)); }
    }
    VIRTUAL.store(false, AO::SeqCst);
    match bad { Some(m) => { println!("REPRODUCED CircuitBreaker(threshold={thr}, reset_timeout={timeout_s}s) history {:?}: {m}", &a[2..]); std::process::exit(1); }
                None => println!("OK breaker history {:?} follows the contract", &a[2..]) }
}

// ---------------------------------------------------------------------------------------------
// window <kind> <K>: bounded exhaustive differential run of the real window types against the reference semantics of the
// property statements (in-order timestamps with ties from a small alphabet, sizes/slides/gaps 0..K).  Used to confirm a solver
// counterexample natively: REPRODUCED with the first disagreeing configuration and stream.
fn window(kind: &str, k: usize) {
    use chrono::{DateTime, Duration, Utc};
    use std::sync::Arc;
    use varpulis_runtime::window::{CountWindow, SessionWindow, SlidingCountWindow, SlidingWindow, TumblingWindow};
    let t0 = DateTime::<Utc>::from_timestamp(1_000_000, 0).unwrap();
    let mk = |id: usize, t: i64| { let mut e = Event::new("T"); e.timestamp = t0 + Duration::seconds(t); e = e.with_field("id", Value::Int(id as i64)); Arc::new(e) };
    let ids = |v: &Vec<Arc<Event>>| -> Vec<i64> { v.iter().map(|e| match e.get("id") { Some(Value::Int(i)) => *i, _ => -1 }).collect() };
    // all non-decreasing timestamp streams of length n over 0..=tmax
    fn streams(n: usize, tmax: i64, cur: &mut Vec<i64>, out: &mut Vec<Vec<i64>>) {
        if cur.len() == n { out.push(cur.clone()); return; }
        let lo = cur.last().cloned().unwrap_or(0);
        for t in lo..=tmax { cur.push(t); streams(n, tmax, cur, out); cur.pop(); }
    }
    let n = k + 3; let tmax = (k + 2) as i64;
    let mut ss = vec![]; streams(n.min(6), tmax, &mut vec![], &mut ss);
    let fail = |m: String| { println!("REPRODUCED {m}"); std::process::exit(1); };
    match kind {
        "count" => for size in 1..=k { let mut w = CountWindow::new(size); let mut buf: Vec<i64> = vec![];
            for i in 0..(3 * k + 2) { let got = w.add_shared(mk(i, i as i64)); buf.push(i as i64);
                let want = if buf.len() >= size { Some(std::mem::take(&mut buf)) } else { None };
                if got.as_ref().map(ids) != want { fail(format!("CountWindow({size}) event {i}: emitted {:?}, expected {:?}", got.as_ref().map(ids), want)); } } },
        "sliding-count" => for size in 1..=k { for slide in 1..=k + 1 { let mut w = SlidingCountWindow::new(size, slide); let mut buf: Vec<i64> = vec![]; let mut since = 0;
            for i in 0..(3 * k + 3) { let got = w.add_shared(mk(i, i as i64)); buf.push(i as i64); since += 1; if buf.len() > size { buf.remove(0); }
                let want = if buf.len() >= size && since >= slide { since = 0; Some(buf.clone()) } else { None };
                if got.as_ref().map(ids) != want { fail(format!("SlidingCountWindow({size},{slide}) event {i}: emitted {:?}, expected {:?}", got.as_ref().map(ids), want)); } } } },
        "tumbling" => for d in 0..=k as i64 { for s in &ss { let mut w = TumblingWindow::new(Duration::seconds(d)); let mut buf: Vec<i64> = vec![]; let mut start: Option<i64> = None;
            for (i, t) in s.iter().enumerate() { let got = w.add_shared(mk(i, *t)); if start.is_none() { start = Some(*t); }
                let want = if *t >= start.unwrap() + d { let o = std::mem::take(&mut buf); start = Some(*t); buf.push(i as i64); Some(o) } else { buf.push(i as i64); None };
                if got.as_ref().map(ids) != want { fail(format!("TumblingWindow({d}s) stream {:?} event {i}: emitted {:?}, expected {:?}", s, got.as_ref().map(ids), want)); } }
            let rest = w.flush_shared(); if ids(&rest) != buf { fail(format!("TumblingWindow({d}s) stream {:?}: flush returned {:?}, expected {:?}", s, ids(&rest), buf)); } } },
        "session" => for g in 0..=k as i64 { for s in &ss { let mut w = SessionWindow::new(Duration::seconds(g)); let mut buf: Vec<i64> = vec![]; let mut last: Option<i64> = None;
            for (i, t) in s.iter().enumerate() { let got = w.add_shared(mk(i, *t));
                let want = if last.map(|l| *t - l > g).unwrap_or(false) { let o = std::mem::take(&mut buf); buf.push(i as i64); Some(o) } else { buf.push(i as i64); None }; last = Some(*t);
                if got.as_ref().map(ids) != want { fail(format!("SessionWindow({g}s) stream {:?} event {i}: emitted {:?}, expected {:?}", s, got.as_ref().map(ids), want)); } }
            let rest = w.flush_shared(); if ids(&rest) != buf { fail(format!("SessionWindow({g}s) stream {:?}: flush returned {:?}, expected {:?}", s, ids(&rest), buf)); } } },
        "sliding-time" => for size in 0..=k as i64 { for slide in 0..=k as i64 { for s in &ss { let mut w = SlidingWindow::new(Duration::seconds(size), Duration::seconds(slide)); let mut all: Vec<(i64, i64)> = vec![]; let mut last: Option<i64> = None;
            for (i, t) in s.iter().enumerate() { let got = w.add_shared(mk(i, *t)); all.push((i as i64, *t));
                let inr: Vec<i64> = all.iter().filter(|(_, u)| *u >= *t - size).map(|(j, _)| *j).collect();
                let want = if last.map(|l| *t >= l + slide).unwrap_or(true) { last = Some(*t); Some(inr) } else { None };
                if got.as_ref().map(ids) != want { fail(format!("SlidingWindow({size}s,{slide}s) stream {:?} event {i}: emitted {:?}, expected {:?}", s, got.as_ref().map(ids), want)); } } } } },
        _ => panic!("window kind {kind}"),
    }
    println!("OK window {kind}: real code agrees with the reference semantics on all enumerated configurations (K={k})");
}

/// `Null`, `Bool:true`, `Int:5`, `Float:<bits>`, `Str:s0`, `Timestamp:5`, `Duration:5`, `Array[a,b]`, `Map{k0=a,k1=b}`
fn parse_value_desc(s: &str) -> Value {
    fn split_top(s: &str) -> Vec<String> {
        let (mut out, mut cur, mut depth) = (Vec::new(), String::new(), 0i32);
        for c in s.chars() {
            match c {
                '[' | '{' => { depth += 1; cur.push(c) }
                ']' | '}' => { depth -= 1; cur.push(c) }
                ',' if depth == 0 => { out.push(std::mem::take(&mut cur)) }
                _ => cur.push(c),
            }
        }
        if !cur.is_empty() { out.push(cur) }
        out
    }
    if s == "Null" { return Value::Null }
    if let Some(r) = s.strip_prefix("Bool:") { return Value::Bool(r == "true") }
    if let Some(r) = s.strip_prefix("Int:") { return Value::Int(r.parse().unwrap()) }
    if let Some(r) = s.strip_prefix("Timestamp:") { return Value::Timestamp(r.parse().unwrap()) }
    if let Some(r) = s.strip_prefix("Duration:") { return Value::Duration(r.parse().unwrap()) }
    if let Some(r) = s.strip_prefix("Float:") { return Value::Float(f64::from_bits(r.parse().unwrap())) }
    if let Some(r) = s.strip_prefix("Str:") { return Value::Str(r.into()) }
    if let Some(r) = s.strip_prefix("Array[") { return Value::array(split_top(&r[..r.len() - 1]).iter().map(|x| parse_value_desc(x)).collect()) }
    if let Some(r) = s.strip_prefix("Map{") {
        let mut m: indexmap::IndexMap<std::sync::Arc<str>, Value, rustc_hash::FxBuildHasher> = indexmap::IndexMap::with_hasher(rustc_hash::FxBuildHasher);
        for e in split_top(&r[..r.len() - 1]) { let (k, v) = e.split_once('=').unwrap(); m.insert(k.into(), parse_value_desc(v)); }
        return Value::map(m);
    }
    panic!("bad value description {s}")
}

fn main() {
    let a: Vec<String> = std::env::args().collect();
    match a[1].as_str() {
        "window" => window(&a[2], a[3].parse().unwrap()),
        // filter <neg 0|1> <Op> <xclass> <x> <litclass> <lit>: does `.where(expr)` accept the event iff a one-step sequence with the same
        // filter (translated by the real expr_to_sase_predicate, matched by the real SaseEngine) matches it?
        // join <window_ms> {<source> <ts_ms>}*: feed events (all with key k=1) to a two-source JoinBuffer (A, B); after every event compare
        // "a joined event came out" with the specification: every source has an event whose timestamp is within window of the arriving one
        // (ts >= arriving - window), among the events seen so far (bounded by max_events_per_key, not reached here)
        "join" => {
            use chrono::{Duration, TimeZone, Utc};
            use varpulis_runtime::join::JoinBuffer;
            if a[2] == "probe" {
                // every arrival history of 1..4 events over sources {A, B} and timestamps {0, 5, 10, 12, 16} s, window 7 s, against the specification
                let times = [0i64, 5000, 10000, 12000, 16000]; let window = 7000i64;
                let mut bad = Vec::new(); let mut count = 0usize;
                for len in 1..=4usize {
                    let total = (times.len() * 2).pow(len as u32);
                    for id in 0..total {
                        let mut keys = rustc_hash::FxHashMap::default(); keys.insert("A".to_string(), "k".to_string()); keys.insert("B".to_string(), "k".to_string());
                        let mut jb = JoinBuffer::new(vec!["A".into(), "B".into()], keys, Duration::milliseconds(window));
                        let mut seen: Vec<(&str, i64)> = Vec::new(); let mut x = id;
                        for _ in 0..len {
                            let c = x % (times.len() * 2); x /= times.len() * 2;
                            let (src, ts) = (if c % 2 == 0 { "A" } else { "B" }, times[c / 2]);
                            let mut ev = Event::new(src).with_field("k", Value::Int(1)).with_field("seq", Value::Int(seen.len() as i64));
                            ev.timestamp = Utc.timestamp_millis_opt(ts).unwrap();
                            let out = jb.add_event(src, ev);
                            seen.push((src, ts));
                            // the joined fields come from the most recently ARRIVED in-window event of each source (arrival order, not timestamp order)
                            if let Some(j) = &out {
                                for s in ["A", "B"] {
                                    // an event may have been dropped lazily once some arrival was more than `window` ahead of it: the pick must be an in-window
                                    // event of the source that arrived no earlier than the most recent in-window event that was never expirable
                                    let hz = seen.iter().map(|(_, t)| *t).max().unwrap();
                                    let floor = seen.iter().enumerate().filter(|(_, (y, t))| *y == s && *t >= ts - window && *t >= hz - window).map(|(i, _)| i as i64).max();
                                    let got = j.get(&format!("{s}.seq")).and_then(|v| v.as_int());
                                    let ok = got.map_or(false, |g| seen[g as usize].0 == s && seen[g as usize].1 >= ts - window && floor.map_or(true, |f| g >= f));
                                    if !ok && bad.len() < 3 { bad.push(format!("history {seen:?} (window {window} ms): the joined event takes {s} from arrival #{got:?}, but the most recently arrived in-window {s} event that cannot have expired is #{floor:?}")) }
                                }
                            }
                            // the buffer may (lazily) drop an event once some arrival is more than `window` ahead of it: a join is REQUIRED when every source
                            // has an event within the window of the arriving one that was never expirable, and FORBIDDEN when some source has none within the window
                            let horizon = seen.iter().map(|(_, t)| *t).max().unwrap();
                            let must = ["A", "B"].iter().all(|s| seen.iter().any(|(y, t)| y == s && *t >= ts - window && *t >= horizon - window));
                            let may = ["A", "B"].iter().all(|s| seen.iter().any(|(y, t)| y == s && *t >= ts - window));
                            if ((must && out.is_none()) || (!may && out.is_some())) && bad.len() < 3 { bad.push(format!("history {seen:?} (window {window} ms): joined = {}, required = {must}, allowed = {may}", out.is_some())) }
                        }
                        count += 1;
                    }
                }
                if bad.is_empty() { println!("OK join probe: {count} histories agree with the specification") } else { println!("REPRODUCED join: {}", bad.join("; ")) }
                return;
            }
            let window: i64 = a[2].parse().unwrap();
            let mut keys = rustc_hash::FxHashMap::default(); keys.insert("A".to_string(), "k".to_string()); keys.insert("B".to_string(), "k".to_string());
            let mut jb = JoinBuffer::new(vec!["A".into(), "B".into()], keys, Duration::milliseconds(window));
            let mut seen: Vec<(String, i64)> = Vec::new(); let mut bad = Vec::new();
            let mut i = 3;
            while i + 1 < a.len() {
                let (src, ts): (String, i64) = (a[i].clone(), a[i + 1].parse().unwrap()); i += 2;
                let mut ev = Event::new(src.as_str()).with_field("k", Value::Int(1)).with_field("n", Value::Int(seen.len() as i64));
                ev.timestamp = Utc.timestamp_millis_opt(ts).unwrap();
                let out = jb.add_event(&src, ev);
                seen.push((src.clone(), ts));
                let horizon = seen.iter().map(|(_, t)| *t).max().unwrap();
                let must = ["A", "B"].iter().all(|s| seen.iter().any(|(x, t)| x == s && *t >= ts - window && *t >= horizon - window));
                let may = ["A", "B"].iter().all(|s| seen.iter().any(|(x, t)| x == s && *t >= ts - window));
                if (must && out.is_none()) || (!may && out.is_some()) { bad.push(format!("after {} @ {ts} ms (events so far {seen:?}, window {window} ms): joined = {}, required = {must}, allowed = {may}", src, out.is_some())) }
            }
            if bad.is_empty() { println!("OK join: {} events agree with the specification", seen.len()) } else { println!("REPRODUCED join: {}", bad.join("; ")) }
        }
        // partwin <PartitionedTumblingWindow|PartitionedSlidingWindow|PartitionedSessionWindow>: the partitioned wrapper against one plain window per key,
        // over every stream of 5 events with keys {1, 2, "default", missing} and increasing-or-equal timestamps
        "partwin" => {
            use chrono::{Duration, TimeZone, Utc};
            use std::sync::Arc;
            use varpulis_runtime::window::*;
            let kind = a[2].as_str();
            #[cfg(varpulis_verif)]
            if kind == "PartitionedWindowState" || kind == "PartitionedSlidingCountWindowState" {
                // the crate-private count-based states, through the cfg(varpulis_verif) wrappers, against one plain count window per key
                use varpulis_runtime::engine::types_verif_hooks::{PartitionedCount, PartitionedSlidingCount};
                let keyvals: Vec<Option<Value>> = vec![Some(Value::Int(1)), Some(Value::Int(2)), Some(Value::Str("default".into())), None];
                let ids = |o: &Option<Vec<varpulis_runtime::event::SharedEvent>>| -> Option<Vec<i64>> { o.as_ref().map(|v| v.iter().map(|e| e.get("i").and_then(|x| x.as_int()).unwrap_or(-1)).collect()) };
                let mut bad = Vec::new(); let mut count = 0usize;
                for (size, slide) in [(1usize, 1usize), (2, 1), (2, 2), (3, 2)] {
                    for sid in 0..keyvals.len().pow(7) {
                        enum P { C(PartitionedCount), S(PartitionedSlidingCount) }
                        enum W1 { C(CountWindow), S(SlidingCountWindow) }
                        let sliding = kind == "PartitionedSlidingCountWindowState";
                        let mut part = if sliding { P::S(PartitionedSlidingCount::new("k".into(), size, slide)) } else { P::C(PartitionedCount::new("k".into(), size)) };
                        let mut plain: std::collections::HashMap<String, W1> = std::collections::HashMap::new();
                        let mut x = sid; let mut hist = Vec::new();
                        for i in 0..7 {
                            let kv = &keyvals[x % keyvals.len()]; x /= keyvals.len();
                            let mut ev = Event::new("E").with_field("i", Value::Int(i));
                            if let Some(v) = kv { ev = ev.with_field("k", v.clone()) }
                            let key = match kv { None => "default".to_string(), Some(Value::Int(n)) => n.to_string(), Some(Value::Str(s)) => s.to_string(), _ => unreachable!() };
                            hist.push(key.clone());
                            let sh = Arc::new(ev);
                            let got = match &mut part { P::C(p) => p.add(sh.clone()), P::S(p) => p.add(sh.clone()) };
                            let w = plain.entry(key).or_insert_with(|| if sliding { W1::S(SlidingCountWindow::new(size, slide)) } else { W1::C(CountWindow::new(size)) });
                            let want = match w { W1::C(p) => p.add_shared(sh.clone()), W1::S(p) => p.add_shared(sh.clone()) };
                            if ids(&got) != ids(&want) && bad.len() < 3 { bad.push(format!("{kind} size {size} slide {slide}: after keys {hist:?} the partitioned state emitted {:?}, one window per key emits {:?}", ids(&got), ids(&want))) }
                        }
                        count += 1;
                    }
                }
                if bad.is_empty() { println!("OK partwin {kind}: {count} streams agree with one window per key") } else { println!("REPRODUCED partwin: {}", bad.join("; ")) }
                return;
            }
            let keyvals: Vec<Option<Value>> = vec![Some(Value::Int(1)), Some(Value::Int(2)), Some(Value::Str("default".into())), None];
            let steps = [0i64, 400, 1000, 2500];
            let mut bad = Vec::new(); let mut count = 0usize;
            let ids = |o: &Option<Vec<varpulis_runtime::event::SharedEvent>>| -> Option<Vec<i64>> { o.as_ref().map(|v| v.iter().map(|e| e.get("i").and_then(|x| x.as_int()).unwrap_or(-1)).collect()) };
            for sid in 0..(keyvals.len() * steps.len()).pow(5) {
                if sid % 7 != 0 && sid % 11 != 0 { continue }      // a fixed 1/5 sample of the 1M streams keeps the probe under a few seconds
                let mut x = sid; let mut t = 0i64;
                enum P { T(PartitionedTumblingWindow), S(PartitionedSlidingWindow), G(PartitionedSessionWindow) }
                enum W1 { T(TumblingWindow), S(SlidingWindow), G(SessionWindow) }
                let mut part = match kind { "PartitionedTumblingWindow" => P::T(PartitionedTumblingWindow::new("k".into(), Duration::milliseconds(1000))),
                                            "PartitionedSlidingWindow" => P::S(PartitionedSlidingWindow::new("k".into(), Duration::milliseconds(2000), Duration::milliseconds(1000))),
                                            _ => P::G(PartitionedSessionWindow::new("k".into(), Duration::milliseconds(1000))) };
                let mut plain: std::collections::HashMap<String, W1> = std::collections::HashMap::new();
                let mut hist = Vec::new();
                for i in 0..5 {
                    let c = x % (keyvals.len() * steps.len()); x /= keyvals.len() * steps.len();
                    let kv = &keyvals[c % keyvals.len()]; t += steps[c / keyvals.len()];
                    let mut ev = Event::new("E").with_field("i", Value::Int(i));
                    if let Some(v) = kv { ev = ev.with_field("k", v.clone()) }
                    ev.timestamp = Utc.timestamp_millis_opt(t).unwrap();
                    let key = match kv { None => "default".to_string(), Some(Value::Int(n)) => n.to_string(), Some(Value::Str(s)) => s.to_string(), _ => unreachable!() };
                    hist.push((key.clone(), t));
                    let sh = Arc::new(ev);
                    let got = match &mut part { P::T(p) => p.add_shared(sh.clone()), P::S(p) => p.add_shared(sh.clone()), P::G(p) => p.add_shared(sh.clone()) };
                    let w = plain.entry(key).or_insert_with(|| match kind { "PartitionedTumblingWindow" => W1::T(TumblingWindow::new(Duration::milliseconds(1000))),
                                                                          "PartitionedSlidingWindow" => W1::S(SlidingWindow::new(Duration::milliseconds(2000), Duration::milliseconds(1000))),
                                                                          _ => W1::G(SessionWindow::new(Duration::milliseconds(1000))) });
                    let want = match w { W1::T(p) => p.add_shared(sh.clone()), W1::S(p) => p.add_shared(sh.clone()), W1::G(p) => p.add_shared(sh.clone()) };
                    if ids(&got) != ids(&want) && bad.len() < 3 { bad.push(format!("{kind}: after {hist:?} the partitioned window emitted {:?}, one window per key emits {:?}", ids(&got), ids(&want))) }
                }
                count += 1;
            }
            if bad.is_empty() { println!("OK partwin {kind}: {count} streams agree with one window per key") } else { println!("REPRODUCED partwin: {}", bad.join("; ")) }
        }
        // agg: Sum / Avg / Min / Max on every batch of <= 3 events whose field `value` is missing, an Int, a Float, NaN, or a string, through apply and
        // apply_refs, against the definitions over the valid numeric values (missing, non-numeric and NaN ignored; Null when none is valid for avg/min/max)
        "agg" => {
            use varpulis_runtime::aggregation::{AggregateFunc, Avg, Max, Min, Sum};
            let vals: Vec<Option<Value>> = vec![None, Some(Value::Int(3)), Some(Value::Int(-2)), Some(Value::Float(1.5)), Some(Value::Float(f64::NAN)), Some(Value::Str("x".into())), Some(Value::Float(-0.0))];
            let mut bad = Vec::new(); let mut count = 0usize;
            for len in 0..=3usize { for id in 0..vals.len().pow(len as u32) {
                let mut x = id; let mut evs = Vec::new(); let mut nums: Vec<f64> = Vec::new();
                for _ in 0..len { let v = &vals[x % vals.len()]; x /= vals.len();
                    let mut e = Event::new("E"); if let Some(v) = v { e = e.with_field("value", v.clone()); match v { Value::Int(i) => nums.push(*i as f64), Value::Float(f) if !f.is_nan() => nums.push(*f), _ => {} } }
                    evs.push(e) }
                let refs: Vec<&Event> = evs.iter().collect();
                let sum: f64 = nums.iter().sum();
                let want: Vec<(&str, Option<f64>)> = vec![("sum", Some(sum)), ("avg", if nums.is_empty() { None } else { Some(sum / nums.len() as f64) }),
                    ("min", nums.iter().cloned().fold(None, |a: Option<f64>, b| Some(a.map_or(b, |a| a.min(b))))), ("max", nums.iter().cloned().fold(None, |a: Option<f64>, b| Some(a.map_or(b, |a| a.max(b)))))];
                let aggs: Vec<Box<dyn AggregateFunc>> = vec![Box::new(Sum), Box::new(Avg), Box::new(Min), Box::new(Max)];
                for (agg, (name, w)) in aggs.iter().zip(want.iter()) {
                    for (path, got) in [("apply", agg.apply(&evs, Some("value"))), ("apply_refs", agg.apply_refs(&refs, Some("value")))] {
                        count += 1;
                        let ok = match (w, &got) { (None, Value::Null) => true, (Some(f), Value::Float(g)) => (f - g).abs() <= 1e-9 * f.abs().max(1.0), (Some(f), Value::Int(g)) => *f == *g as f64, _ => false };
                        if !ok && bad.len() < 3 { bad.push(format!("{name}.{path} on {:?} = {got:?}, expected {w:?}", evs.iter().map(|e| e.get("value").cloned()).collect::<Vec<_>>())) }
                    }
                }
                // count / first / last: exact values (first / last are the field of the first / last EVENT, Null when that event lacks it)
                use varpulis_runtime::aggregation::{Count, First, Last};
                let field_of = |e: Option<&Event>| e.and_then(|e| e.get("value").cloned()).unwrap_or(Value::Null);
                let same = |a: &Value, b: &Value| match (a, b) { (Value::Float(x), Value::Float(y)) => x.to_bits() == y.to_bits(), _ => a == b };
                let exact: Vec<(&str, Box<dyn AggregateFunc>, Value)> = vec![("count", Box::new(Count), Value::Int(len as i64)), ("first", Box::new(First), field_of(evs.first())), ("last", Box::new(Last), field_of(evs.last()))];
                for (name, agg, w) in exact.iter() {
                    for (path, got) in [("apply", agg.apply(&evs, Some("value"))), ("apply_refs", agg.apply_refs(&refs, Some("value")))] {
                        count += 1;
                        if !same(&got, w) && bad.len() < 3 { bad.push(format!("{name}.{path} on {:?} = {got:?}, expected {w:?}", evs.iter().map(|e| e.get("value").cloned()).collect::<Vec<_>>())) }
                    }
                }
            } }
            if bad.is_empty() { println!("OK agg: {count} cases agree with the definitions") } else { println!("REPRODUCED agg: {}", bad.join("; ")) }
        }
        "kleene" => {
            // bounded probe of the Kleene step / completion / enumeration through SaseEngine::process: SEQ(A, B+ [filter], C) (`inner`) and
            // SEQ(A, B+ [filter]) (`trailing`) with max_kleene_events 1..4 and max_enumeration_results 1..6 over streams A B^n (C), n <= 7.
            // what = events: no match keeps more than max_kleene_events Kleene events; results: no completion emits more than
            // max_enumeration_results matches; exact (inner only): the matches of the completion are exactly those of the reference reading
            // (one match with the first `cap` B events, or one per non-empty admissible subset of them, up to the result cap).
            use varpulis_runtime::sase::{CompareOp, Predicate, SaseEngine, SasePattern, PatternBuilder};
            let what = a.get(2).map(|s| s.as_str()).unwrap_or("events");
            let wher = a.get(3).map(|s| s.as_str()).unwrap_or("inner");
            let trailing = wher == "trailing";
            let mut bad: Vec<String> = Vec::new(); let mut count = 0usize;
            for selfref in [false, true] {
                for cap in 1u32..=4 {
                    for maxres in 1usize..=6 {
                        for n in 1usize..=7 {
                            for vals in 0..(1usize << n.min(5)) {
                                let pred = if selfref { Some(Predicate::CompareRef { field: "v".into(), op: CompareOp::Ge, ref_alias: "b".into(), ref_field: "v".into() }) } else { None };
                                let mut steps = vec![PatternBuilder::event("A"), PatternBuilder::one_or_more(SasePattern::Event { event_type: "B".into(), predicate: pred, alias: Some("b".into()) })];
                                if !trailing { steps.push(PatternBuilder::event("C")) }
                                let mut eng = SaseEngine::new(PatternBuilder::seq(steps)).with_max_kleene_events(cap).with_max_enumeration_results(maxres);
                                eng.process(&Event::new("A"));
                                let mut outs: Vec<Vec<usize>> = Vec::new();     // stack lengths of the matches of each completion
                                let mut vs: Vec<i64> = Vec::new();
                                for i in 0..n {
                                    let v = if i < 5 { (vals >> i) & 1 } else { 0 } as i64; vs.push(v);
                                    let r = eng.process(&Event::new("B").with_field("v", Value::Int(v)).with_field("i", Value::Int(i as i64)));
                                    if !r.is_empty() { outs.push(r.iter().map(|m| m.stack.len()).collect()) }
                                }
                                if !trailing { let r = eng.process(&Event::new("C")); if !r.is_empty() { outs.push(r.iter().map(|m| m.stack.len()).collect()) } }
                                count += 1;
                                let extra = if trailing { 1 } else { 2 };
                                let tag = format!("selfref={selfref} max_kleene_events={cap} max_enumeration_results={maxres} B values {vs:?}");
                                if bad.len() >= 3 { continue }
                                for o in &outs {
                                    if what == "results" && o.len() > maxres { bad.push(format!("{tag}: one completion emitted {} matches", o.len())) }
                                    if what == "events" && o.iter().any(|l| *l > cap as usize + extra) { bad.push(format!("{tag}: a match keeps {} Kleene events", o.iter().max().unwrap() - extra)) }
                                }
                                if what == "exact" && !trailing {
                                    let kept: Vec<i64> = vs.iter().cloned().take(cap as usize).collect();
                                    let want: Vec<usize> = if !selfref { vec![kept.len() + 2] } else {
                                        let mut c = 0usize;
                                        for mask in 1u32..(1 << kept.len()) {
                                            let sel: Vec<i64> = (0..kept.len()).filter(|i| mask >> i & 1 == 1).map(|i| kept[i]).collect();
                                            if sel.windows(2).all(|w| w[1] >= w[0]) { c += 1 }
                                        }
                                        vec![kept.len() + 2; c.min(maxres)]
                                    };
                                    let got: Vec<usize> = outs.last().cloned().unwrap_or_default();
                                    if outs.len() > 1 || got != want { bad.push(format!("{tag}: completions {:?} (stack length per match), the reference reading gives one completion {:?}", outs, want)) }
                                }
                            }
                        }
                    }
                }
            }
            if bad.is_empty() { println!("OK kleene {what} {wher}: {count} runs agree") } else { println!("REPRODUCED kleene {what} {wher}: {}", bad.join("; ")); std::process::exit(1) }
        }
        "negpart" => {
            // C04 / C01: a `.not(...)` clause (global negation) on a sequence partitioned by `k`: every stream of <= 5 events over
            // {A, B, Cancel} x k in {1, 2, missing} is run through ONE partitioned engine; the reference is written by hand: per key, every A
            // takes the earliest later B of its key and is reported iff no Cancel of that key lies between them.
            use varpulis_runtime::sase::{SaseEngine, SasePattern};
            let mk = |ty: &str, k: Option<i64>| { let e = Event::new(ty); match k { Some(k) => e.with_field("k", Value::Int(k)), None => e } };
            let mut alphabet: Vec<Event> = Vec::new();
            for ty in ["A", "B", "Cancel"] { for k in [Some(1), Some(2), None] { alphabet.push(mk(ty, k)) } }
            let pattern = || SasePattern::Seq(vec![SasePattern::Event { event_type: "A".into(), predicate: None, alias: Some("a".into()) }, SasePattern::Event { event_type: "B".into(), predicate: None, alias: Some("b".into()) }]);
            let n = alphabet.len(); let mut bad: Vec<String> = Vec::new(); let mut count = 0usize;
            for len in 1..=5u32 { for sid in 0..n.pow(len) {
                let mut x = sid; let mut stream: Vec<Event> = Vec::new();
                for i in 0..len { let e = alphabet[x % n].clone().with_field("i", Value::Int(i as i64)); x /= n; stream.push(e) }
                let pos = |m: &varpulis_runtime::sase::MatchResult| -> Vec<i64> { m.stack.iter().map(|s| s.event.get("i").and_then(|v| v.as_int()).unwrap_or(-1)).collect() };
                let mut eng = SaseEngine::new(pattern()).with_partition_by("k".to_string()).with_negation("Cancel".to_string(), None);
                let mut got: Vec<Vec<i64>> = Vec::new();
                for e in &stream { for m in eng.process(e) { got.push(pos(&m)) } }
                let mut want: Vec<Vec<i64>> = Vec::new();
                // independent reference: per key, every A takes the earliest later B of its key; the match is reported iff no Cancel of that key lies between them
                let kof = |e: &Event| e.get("k").and_then(|v| v.as_int());
                for (i, a0) in stream.iter().enumerate() {
                    if &*a0.event_type != "A" { continue }
                    if let Some(j) = (i + 1..stream.len()).find(|&j| &*stream[j].event_type == "B" && kof(&stream[j]) == kof(a0)) {
                        if !(i + 1..j).any(|c| &*stream[c].event_type == "Cancel" && kof(&stream[c]) == kof(a0)) { want.push(vec![i as i64, j as i64]) }
                    }
                }
                // the same clause on an unpartitioned engine: keys are ignored
                let mut plain = SaseEngine::new(pattern()).with_negation("Cancel".to_string(), None);
                let mut got_u: Vec<Vec<i64>> = Vec::new();
                for e in &stream { for m in plain.process(e) { got_u.push(pos(&m)) } }
                let mut want_u: Vec<Vec<i64>> = Vec::new();
                for (i, a0) in stream.iter().enumerate() {
                    if &*a0.event_type != "A" { continue }
                    if let Some(j) = (i + 1..stream.len()).find(|&j| &*stream[j].event_type == "B") {
                        if !(i + 1..j).any(|c| &*stream[c].event_type == "Cancel") { want_u.push(vec![i as i64, j as i64]) }
                    }
                }
                got_u.sort(); want_u.sort();
                if got_u != want_u && bad.len() < 3 { bad.push(format!("on {:?}: the unpartitioned engine reports {:?}, the reference gives {:?}", stream.iter().map(|e| e.event_type.to_string()).collect::<Vec<_>>(), got_u, want_u)) }
                got.sort(); want.sort(); count += 1;
                if got != want && bad.len() < 3 { bad.push(format!("on {:?}: the partitioned engine reports {:?}, the per-key reference gives {:?}", stream.iter().map(|e| format!("{}(k={:?})", e.event_type, e.get("k").and_then(|v| v.as_int()))).collect::<Vec<_>>(), got, want)) }
            } }
            if bad.is_empty() { println!("OK negpart: {count} streams, the partitioned engine equals the per-key reference") } else { println!("REPRODUCED negpart: {}", bad.join("; ")); std::process::exit(1) }
        }
        "seqfull" => {
            // C02: SaseEngine::process against an independent earliest-continuation reference.  Patterns SEQ of 2..3 steps over types {S, X, Y}
            // with an optional constant filter on one step and an optional cross-alias filter, optionally partitioned by `k`; every stream of
            // <= 5 events over a 7-event alphabet.  Reference: every event that satisfies step 1 begins one candidate; it takes, at every further
            // step, the earliest later event (of its partition) that satisfies that step; it is reported iff it completes.
            use varpulis_runtime::sase::{CompareOp, Predicate, SaseEngine, SasePattern};
            let alphabet: Vec<Event> = vec![
                Event::new("S").with_field("x", Value::Int(1)).with_field("k", Value::Int(1)), Event::new("S").with_field("x", Value::Int(2)).with_field("k", Value::Int(2)),
                Event::new("X").with_field("x", Value::Int(1)).with_field("k", Value::Int(1)), Event::new("X").with_field("x", Value::Int(2)).with_field("k", Value::Int(2)),
                Event::new("X").with_field("x", Value::Int(2)).with_field("k", Value::Int(1)), Event::new("Y").with_field("x", Value::Int(1)).with_field("k", Value::Int(1)),
                Event::new("Y").with_field("x", Value::Int(2)).with_field("k", Value::Int(2))];
            #[derive(Clone)] struct Step { ty: &'static str, lit: Option<i64>, refs: bool }
            let xi = |e: &Event| e.get("x").and_then(|v| v.as_int());
            let shapes: Vec<(&str, Vec<Step>)> = vec![
                ("S X", vec![Step { ty: "S", lit: None, refs: false }, Step { ty: "X", lit: None, refs: false }]),
                ("S X[x==2]", vec![Step { ty: "S", lit: None, refs: false }, Step { ty: "X", lit: Some(2), refs: false }]),
                ("S[x==1] X", vec![Step { ty: "S", lit: Some(1), refs: false }, Step { ty: "X", lit: None, refs: false }]),
                ("S X[x==s.x]", vec![Step { ty: "S", lit: None, refs: false }, Step { ty: "X", lit: None, refs: true }]),
                ("S X Y", vec![Step { ty: "S", lit: None, refs: false }, Step { ty: "X", lit: None, refs: false }, Step { ty: "Y", lit: None, refs: false }]),
                ("S X[x==s.x] Y", vec![Step { ty: "S", lit: None, refs: false }, Step { ty: "X", lit: None, refs: true }, Step { ty: "Y", lit: None, refs: false }]),
                ("S S", vec![Step { ty: "S", lit: None, refs: false }, Step { ty: "S", lit: None, refs: false }]),
                ("X X X", vec![Step { ty: "X", lit: None, refs: false }, Step { ty: "X", lit: None, refs: false }, Step { ty: "X", lit: None, refs: false }])];
            let mut bad: Vec<String> = Vec::new(); let mut count = 0usize; let mut matches = 0usize;
            let n = alphabet.len();
            for (name, steps) in &shapes {
                for partitioned in [false, true] {
                    for len in 1..=5u32 {
                        for sid in 0..n.pow(len) {
                            let mut x = sid; let mut stream: Vec<Event> = Vec::new();
                            for i in 0..len { let mut e = alphabet[x % n].clone(); x /= n; e = e.with_field("i", Value::Int(i as i64)); stream.push(e) }
                            let pat: Vec<SasePattern> = steps.iter().enumerate().map(|(j, st)| {
                                let pred = if let Some(l) = st.lit { Some(Predicate::Compare { field: "x".into(), op: CompareOp::Eq, value: Value::Int(l) }) }
                                           else if st.refs { Some(Predicate::CompareRef { field: "x".into(), op: CompareOp::Eq, ref_alias: "a0".into(), ref_field: "x".into() }) } else { None };
                                SasePattern::Event { event_type: st.ty.into(), predicate: pred, alias: Some(format!("a{j}")) } }).collect();
                            let mut eng = SaseEngine::new(if pat.len() == 1 { pat[0].clone() } else { SasePattern::Seq(pat) });
                            if partitioned { eng = eng.with_partition_by("k".to_string()) }
                            let mut got: Vec<Vec<i64>> = Vec::new();
                            for e in &stream { for m in eng.process(e) { got.push(m.stack.iter().map(|s| s.event.get("i").and_then(|v| v.as_int()).unwrap_or(-1)).collect()) } }
                            // reference
                            let mut want: Vec<Vec<i64>> = Vec::new();
                            let ok = |st: &Step, e: &Event, first: Option<&Event>| -> bool {
                                *e.event_type == *st.ty && st.lit.map_or(true, |l| xi(e) == Some(l)) && (!st.refs || first.map_or(false, |f| xi(e).is_some() && xi(e) == xi(f))) };
                            for (i, e0) in stream.iter().enumerate() {
                                if !ok(&steps[0], e0, None) { continue }
                                let mut idx = vec![i as i64]; let mut pos = i + 1; let mut done = true;
                                for st in &steps[1..] {
                                    let mut found = None;
                                    for (j, e) in stream.iter().enumerate().skip(pos) {
                                        if partitioned && e.get("k") != e0.get("k") { continue }
                                        if ok(st, e, Some(e0)) { found = Some(j); break }
                                    }
                                    match found { Some(j) => { idx.push(j as i64); pos = j + 1 } None => { done = false; break } }
                                }
                                if done { want.push(idx) }
                            }
                            count += 1; matches += want.len();
                            got.sort(); want.sort();
                            if got != want && bad.len() < 3 {
                                bad.push(format!("pattern {name}{} on {:?}: engine reports matches {:?} (event positions), earliest-continuation reference {:?}", if partitioned { " partitioned by k" } else { "" },
                                    stream.iter().map(|e| format!("{}(x={:?},k={:?})", e.event_type, xi(e), e.get("k").and_then(|v| v.as_int()))).collect::<Vec<_>>(), got, want)) }
                        }
                    }
                }
            }
            if bad.is_empty() { println!("OK seqfull: {count} pattern/stream pairs, {matches} reference matches, all reported exactly") } else { println!("REPRODUCED seqfull: {}", bad.join("; ")); std::process::exit(1) }
        }
        "seqstep" => {
            // bounded probe of "every reported match is a genuine occurrence" through SaseEngine::process: SEQ(S as s, X [filter] as t) and
            // SEQ(S as s, X [filter] as t, Y as u) over every stream of 4 events from a 6-event alphabet; every reported match is checked against
            // an independent reading of the pattern: step types, arrival order, the filter on the captured events.
            use varpulis_runtime::sase::{CompareOp, Predicate, SaseEngine, SasePattern};
            let ops = [("Eq", CompareOp::Eq), ("NotEq", CompareOp::NotEq), ("Lt", CompareOp::Lt), ("Le", CompareOp::Le), ("Gt", CompareOp::Gt), ("Ge", CompareOp::Ge)];
            fn holds(a: Option<&Value>, b: Option<&Value>, op: &str) -> bool {
                let (a, b) = match (a, b) { (Some(a), Some(b)) => (a, b), _ => return false };
                let eq = match (a, b) { (Value::Int(x), Value::Int(y)) => x == y, (Value::Str(x), Value::Str(y)) => x == y, _ => false };
                let ord = match (a, b) { (Value::Int(x), Value::Int(y)) => Some(x.cmp(y)), (Value::Str(x), Value::Str(y)) => Some(x.cmp(y)), _ => None };
                use std::cmp::Ordering::*;
                match op { "Eq" => eq, "NotEq" => !eq, "Lt" => ord == Some(Less), "Le" => matches!(ord, Some(Less | Equal)), "Gt" => ord == Some(Greater), _ => matches!(ord, Some(Greater | Equal)) }
            }
            let alphabet: Vec<Event> = vec![Event::new("S").with_field("y", Value::Int(1)), Event::new("S").with_field("y", Value::Str("a".into())), Event::new("X").with_field("x", Value::Int(1)),
                                            Event::new("X").with_field("x", Value::Int(2)), Event::new("X"), Event::new("Y").with_field("x", Value::Int(1)), Event::new("X").with_field("x", Value::Str("a".into()))];
            let mut filters: Vec<(String, Option<Predicate>)> = vec![("none".into(), None)];
            for (n, o) in &ops {
                for lit in [Value::Int(1), Value::Str("a".into())] { filters.push((format!("lit:{n}:{lit:?}"), Some(Predicate::Compare { field: "x".into(), op: *o, value: lit }))) }
                filters.push((format!("ref:{n}"), Some(Predicate::CompareRef { field: "x".into(), op: *o, ref_alias: "s".into(), ref_field: "y".into() })));
                filters.push((format!("refmissing:{n}"), Some(Predicate::CompareRef { field: "x".into(), op: *o, ref_alias: "nobody".into(), ref_field: "y".into() })));
            }
            let mut bad: Vec<String> = Vec::new(); let mut count = 0usize; let mut matches = 0usize;
            let n = alphabet.len();
            'all: for (fname, pred) in &filters {
                for three in [false, true] {
                    for sid in 0..n.pow(4) {
                        let mut steps = vec![SasePattern::Event { event_type: "S".into(), predicate: None, alias: Some("s".into()) },
                                             SasePattern::Event { event_type: "X".into(), predicate: pred.clone(), alias: Some("t".into()) }];
                        if three { steps.push(SasePattern::Event { event_type: "Y".into(), predicate: None, alias: Some("u".into()) }) }
                        let mut eng = SaseEngine::new(SasePattern::Seq(steps));
                        let mut x = sid;
                        for pos in 0..4 {
                            let ev = alphabet[x % n].clone().with_field("i", Value::Int(pos)); x /= n;
                            for m in eng.process(&ev) {
                                matches += 1;
                                let want: Vec<&str> = if three { vec!["S", "X", "Y"] } else { vec!["S", "X"] };
                                let tys: Vec<String> = m.stack.iter().map(|e| e.event.event_type.to_string()).collect();
                                let idx: Vec<i64> = m.stack.iter().map(|e| e.event.get("i").and_then(|v| v.as_int()).unwrap_or(-1)).collect();
                                let mut why = Vec::new();
                                if tys != want { why.push(format!("step types {tys:?}")) }
                                if !idx.windows(2).all(|w| w[0] < w[1]) || idx.last() != Some(&pos) { why.push(format!("arrival order {idx:?} (current event {pos})")) }
                                if tys == want {
                                    let s_ev = &m.stack[0].event; let x_ev = &m.stack[1].event;
                                    let ok = match fname.split(':').next().unwrap() {
                                        "none" => true,
                                        "lit" => { let p = pred.as_ref().unwrap(); if let Predicate::Compare { value, .. } = p { holds(x_ev.get("x"), Some(value), fname.split(':').nth(1).unwrap()) } else { true } }
                                        "ref" => holds(x_ev.get("x"), s_ev.get("y"), fname.split(':').nth(1).unwrap()),
                                        _ => false,
                                    };
                                    if !ok { why.push(format!("the filter {fname} does not hold on x = {:?} (s.y = {:?})", x_ev.get("x"), s_ev.get("y"))) }
                                    if m.captured.get("t").map(|e| e.get("i").cloned()) != Some(x_ev.get("i").cloned()) { why.push("alias t is not bound to the step-2 event".into()) }
                                }
                                if !why.is_empty() { bad.push(format!("filter {fname}, {} steps, stream {sid}: {}", if three { 3 } else { 2 }, why.join(", "))); if bad.len() > 3 { break 'all } }
                            }
                        }
                        count += 1;
                    }
                }
            }
            if bad.is_empty() { println!("OK seqstep: {count} streams, {matches} reported matches, all genuine") } else { println!("REPRODUCED seqstep: {}", bad.join("; ")) }
        }
        "backpressure" => {
            // backpressure <strategy> <max_runs> <rate_bits> <partitioned 0|1> <nruns>: bounded probe of the run-count bound through the
            // public API: SEQ(A, B, C) with many A's (each starts a run) mixed with B's (progress), with and without partition_by;
            // after every event the number of partial matches (per partition) must not exceed max_runs; panics are caught.
            use varpulis_runtime::sase::{BackpressureStrategy, SaseEngine, SasePattern};
            let strat = |name: &str, rate: f64| match name { "Drop" => BackpressureStrategy::Drop, "Error" => BackpressureStrategy::Error, "EvictOldest" => BackpressureStrategy::EvictOldest,
                                                             "EvictLeastProgress" => BackpressureStrategy::EvictLeastProgress, _ => BackpressureStrategy::Sample { rate } };
            let max_runs: usize = a[3].parse::<u64>().unwrap().clamp(1, 8) as usize;
            let rate = f64::from_bits(a[4].parse().unwrap()); let rate = if rate.is_finite() { rate.clamp(0.0, 1.0) } else { 0.5 };
            let mut bad: Vec<String> = Vec::new(); let mut count = 0usize;
            for partitioned in [false, true] {
                for maxr in [1usize, 2, max_runs, max_runs + 1] {
                    for stream_id in 0..81u32 {       // streams of 4 symbols over {A, A', B}: ids in base 3, repeated 3 times
                        let pat = SasePattern::Seq(vec![SasePattern::Event { event_type: "A".into(), predicate: None, alias: Some("a".into()) },
                                                        SasePattern::Event { event_type: "B".into(), predicate: None, alias: Some("b".into()) },
                                                        SasePattern::Event { event_type: "C".into(), predicate: None, alias: Some("c".into()) }]);
                        let mut eng = SaseEngine::new(pat).with_max_runs(maxr).with_backpressure(strat(&a[2], rate));
                        if partitioned { eng = eng.with_partition_by("k".into()) }
                        let r = std::panic::catch_unwind(std::panic::AssertUnwindSafe(|| {
                            let mut x = stream_id; let mut worst = 0usize;
                            for rep in 0..12 {
                                let sym = x % 3; x = x / 3 + if rep % 4 == 3 { stream_id } else { 0 };
                                let ev = match sym { 0 => Event::new("A").with_field("k", Value::Int(1)), 1 => Event::new("A").with_field("k", Value::Int((rep % 2) as i64)), _ => Event::new("B").with_field("k", Value::Int(1)) };
                                let _ = eng.process(&ev);
                                let st = eng.extended_stats();
                                let per = if partitioned { (st.active_runs + st.partitions.max(1) - 1) / st.partitions.max(1) } else { st.active_runs };
                                let limit = if partitioned { maxr * st.partitions.max(1) } else { maxr };
                                if st.active_runs > limit { worst = worst.max(st.active_runs) }
                                let _ = per;
                            }
                            worst
                        }));
                        count += 1;
                        match r {
                            Err(_) => bad.push(format!("panic with strategy {} max_runs {maxr} partitioned {partitioned} stream {stream_id}", a[2])),
                            Ok(w) if w > 0 => bad.push(format!("{w} partial matches with max_runs {maxr} (strategy {}, partitioned {partitioned}, stream {stream_id})", a[2])),
                            _ => {}
                        }
                        if bad.len() > 3 { break }
                    }
                }
            }
            if bad.is_empty() { println!("OK backpressure {}: {count} streams stay within max_runs", a[2]) } else { println!("REPRODUCED backpressure: {}", bad.join("; ")) }
        }
        "ckpt" => {
            // ckpt <Value description> <timestamp_ns>: Event -> SerializableEvent -> codec JSON bytes -> SerializableEvent -> Event
            use varpulis_runtime::persistence::SerializableEvent;
            use varpulis_runtime::codec::{serialize, deserialize, CheckpointFormat};
            use chrono::{TimeZone, Utc};
            let v = parse_value_desc(&a[2]);
            let ts: i64 = a[3].parse().unwrap();
            let mut ev = Event::new("T"); ev.timestamp = Utc.timestamp_nanos(ts);
            ev.data.insert("x".into(), v.clone());
            let se = SerializableEvent::from(&ev);
            let direct: Event = se.clone().into();
            let mut bad: Vec<String> = Vec::new();
            if direct.data.get("x") != Some(&v) && !(matches!(v, Value::Float(f) if f.is_nan())) { bad.push(format!("value {v:?} restored as {:?} (conversion only)", direct.data.get("x"))) }
            if direct.timestamp != ev.timestamp { bad.push(format!("timestamp {} restored as {} (conversion only)", ev.timestamp, direct.timestamp)) }
            match serialize(&se, CheckpointFormat::Json) {
                Err(e) => bad.push(format!("serialize failed: {e}")),
                Ok(bytes) => match deserialize::<SerializableEvent>(&bytes) {
                    Err(e) => bad.push(format!("deserialize of {} failed: {e}", String::from_utf8_lossy(&bytes))),
                    Ok(back) => { let e2: Event = back.into(); if e2.data.get("x") != direct.data.get("x") { bad.push(format!("value {v:?} came back from JSON as {:?}", e2.data.get("x"))) } }
                },
            }
            if bad.is_empty() { println!("OK ckpt {v:?} @ {ts}") } else { println!("REPRODUCED ckpt: {}", bad.join("; ")) }
        }
        "watermark" => {
            // watermark <op> <name> <ts> <ooo_new> <n> {<key> <wm|-> <max|-> <ooo>}*   (times in ns)
            // Bounded differential probe of PerSourceWatermarkTracker against the reference semantics, observed through
            // effective_watermark(): the witness state is approximated by an API history, then a battery of histories over the
            // witness's values is run; any disagreement after any operation is reported.
            use chrono::{Duration, TimeZone, Utc};
            use varpulis_runtime::watermark::PerSourceWatermarkTracker;
            #[derive(Clone, Debug)]
            struct Src { wm: Option<i64>, max: Option<i64>, ooo: i64 }
            #[derive(Clone, Debug)]
            enum Op { Reg(String, i64), Obs(String, i64), Adv(String, i64) }
            fn reference(model: &mut Vec<(String, Src)>, eff: &mut Option<i64>, op: &Op) {
                let recompute = |model: &Vec<(String, Src)>, eff: &mut Option<i64>| {
                    if let Some(m) = model.iter().filter_map(|(_, s)| s.wm).min() { *eff = Some(m) }
                };
                match op {
                    Op::Reg(k, o) => { model.retain(|(n, _)| n != k); model.push((k.clone(), Src { wm: None, max: None, ooo: *o })); }
                    Op::Obs(k, t) => {
                        if !model.iter().any(|(n, _)| n == k) { model.push((k.clone(), Src { wm: None, max: None, ooo: 0 })); }
                        let s = &mut model.iter_mut().find(|(n, _)| n == k).unwrap().1;
                        if s.max.map_or(true, |m| *t > m) {
                            s.max = Some(*t);
                            let cand = *t - s.ooo;
                            if s.wm.map_or(true, |w| cand > w) { s.wm = Some(cand) }
                        }
                        recompute(model, eff);
                    }
                    Op::Adv(k, w) => {
                        if let Some((_, s)) = model.iter_mut().find(|(n, _)| n == k) {
                            if s.wm.map_or(true, |c| *w > c) { s.wm = Some(*w) }
                            recompute(model, eff);
                        }
                    }
                }
            }
            fn run(hist: &[Op]) -> Option<String> {
                let mut t = PerSourceWatermarkTracker::new();
                let mut model: Vec<(String, Src)> = Vec::new(); let mut eff: Option<i64> = None;
                for (i, op) in hist.iter().enumerate() {
                    match op {
                        Op::Reg(k, o) => t.register_source(k, Duration::nanoseconds(*o)),
                        Op::Obs(k, ts) => t.observe_event(k, Utc.timestamp_nanos(*ts)),
                        Op::Adv(k, w) => t.advance_source_watermark(k, Utc.timestamp_nanos(*w)),
                    }
                    reference(&mut model, &mut eff, op);
                    let got = t.effective_watermark().map(|d| d.timestamp_nanos_opt().unwrap());
                    if got != eff { return Some(format!("after step {i} of {hist:?}: effective watermark {got:?}, reference {eff:?} (sources {model:?})")) }
                }
                None
            }
            let p = |s: &String| -> Option<i64> { if s == "-" { None } else { Some(s.parse().unwrap()) } };
            let op = a[2].as_str(); let name = format!("k{}", a[3]); let ts: i64 = a[4].parse().unwrap(); let ooo_new: i64 = a[5].parse().unwrap();
            let n: usize = a[6].parse().unwrap();
            let mut setup: Vec<Op> = Vec::new(); let mut keys: Vec<String> = Vec::new(); let mut times: Vec<i64> = vec![ts, 0, 1]; let mut ooos: Vec<i64> = vec![0, ooo_new];
            for i in 0..n {
                let k = format!("k{}", a[7 + 4 * i]); let wm = p(&a[8 + 4 * i]); let mx = p(&a[9 + 4 * i]); let ooo: i64 = a[10 + 4 * i].parse().unwrap();
                setup.push(Op::Reg(k.clone(), ooo));
                if let Some(m) = mx { setup.push(Op::Obs(k.clone(), m)); times.push(m); times.push(m + 1); }
                if let Some(w) = wm { setup.push(Op::Adv(k.clone(), w)); times.push(w); times.push(w + 1); times.push(w - 1); }
                keys.push(k); ooos.push(ooo);
            }
            if !keys.contains(&name) { keys.push(name.clone()) }
            let last = match op { "observe" => Op::Obs(name.clone(), ts), "advance" => Op::Adv(name.clone(), ts), _ => Op::Reg(name.clone(), ooo_new) };
            let mut h = setup.clone(); h.push(last.clone());
            let mut bad = run(&h);
            // battery: every history of <= 3 operations after the setup (and from scratch), over the witness's keys and times
            times.sort(); times.dedup(); ooos.sort(); ooos.dedup();
            let mut ops: Vec<Op> = Vec::new();
            for k in &keys { for t in &times { ops.push(Op::Obs(k.clone(), *t)); ops.push(Op::Adv(k.clone(), *t)); } for o in &ooos { ops.push(Op::Reg(k.clone(), *o)); } }   // re-registration resets a source's watermark
            let mut count = 1usize;
            'outer: for base in [setup.clone(), Vec::new(), keys.iter().zip(ooos.iter().cycle()).map(|(k, o)| Op::Reg(k.clone(), *o)).collect()] {
                if bad.is_some() { break }
                let m = ops.len();
                let depth = if m <= 12 { 3 } else { 2 };
                let total = m.pow(depth as u32);
                for idx in 0..total {
                    let mut h = base.clone(); let mut x = idx;
                    for _ in 0..depth { h.push(ops[x % m].clone()); x /= m; }
                    h.push(last.clone());
                    count += 1;
                    if let Some(b) = run(&h) { bad = Some(b); break 'outer }
                    if count > 400000 { break 'outer }
                }
            }
            match bad {
                Some(b) => println!("REPRODUCED watermark tracker disagrees with its specification {b}"),
                None => println!("OK watermark: {count} histories agree with the reference (effective watermark after every step)"),
            }
        }
        // filter2 <neg 0|1> <And|Or> <xcls> <x> <ycls> <y> <l1> <l2>: `(x > l1) AND/OR (y == l2)` (optionally negated) in both contexts
        "filter2" => {
            use varpulis_runtime::engine::compiler::expr_to_sase_predicate;
            use varpulis_runtime::sase::{SaseEngine, SasePattern};
            let leaf = |name: &str, op: BinOp, l: &str| Expr::Binary { op, left: Box::new(Expr::Ident(name.into())), right: Box::new(Expr::Int(l.parse().unwrap())) };
            let bop = if a[3] == "And" { BinOp::And } else { BinOp::Or };
            let body = Expr::Binary { op: bop, left: Box::new(leaf("x", BinOp::Gt, &a[8])), right: Box::new(leaf("y", BinOp::Eq, &a[9])) };
            let e = if a[2] == "1" { Expr::Unary { op: UnaryOp::Not, expr: Box::new(body) } } else { body };
            let mut ev = Event::new("T");
            for (name, cls, val) in [("x", &a[4], &a[5]), ("y", &a[6], &a[7])] {
                match cls.as_str() { "missing" => {}, "Null" => { ev = ev.with_field(name, Value::Null) }, _ => { ev = ev.with_field(name, Value::Int(val.parse().unwrap())) } }
            }
            let ctx = SequenceContext::new();
            let stream = eval_filter_expr(&e, &ev, &ctx) == Some(Value::Bool(true));
            let pred = expr_to_sase_predicate(&e);
            let mut eng = SaseEngine::new(SasePattern::Seq(vec![SasePattern::Event { event_type: "T".into(), predicate: pred.clone(), alias: Some("a".into()) },
                                                            SasePattern::Event { event_type: "End".into(), predicate: None, alias: None }]));
            let _ = eng.process(&ev);
            let step = !eng.process(&Event::new("End")).is_empty();
            if stream == step { println!("OK filter2 {:?} on {:?}: stream accepts={stream}, step accepts={step}", e, ev.data); }
            else { println!("REPRODUCED filter {:?} on event {:?}: `.where` accepts={stream} but the sequence step (predicate {:?}) accepts={step}", e, ev.data, pred); std::process::exit(1); }
        }
        "filter" => {
            use varpulis_runtime::engine::compiler::expr_to_sase_predicate;
            use varpulis_runtime::sase::{SaseEngine, SasePattern};
            let strv = |p: &str| -> String { p.to_string() };
            let mk_lit = |c: &str, p: &str| -> Expr { if c == "Str" { Expr::Str(strv(p)) } else { lit(c, p).0 } };
            let flip = a.get(8).map(|s| s == "flip").unwrap_or(false);        // `lit OP x` instead of `x OP lit`
            let cmp = if flip { Expr::Binary { op: binop(&a[3]), left: Box::new(mk_lit(&a[6], &a[7])), right: Box::new(Expr::Ident("x".into())) } }
                      else { Expr::Binary { op: binop(&a[3]), left: Box::new(Expr::Ident("x".into())), right: Box::new(mk_lit(&a[6], &a[7])) } };
            let e = if a[2] == "1" { Expr::Unary { op: UnaryOp::Not, expr: Box::new(cmp) } } else { cmp };
            let mut ev = Event::new("T");
            if a[4] != "missing" { ev = ev.with_field("x", if a[4] == "Str" { Value::Str(a[5].as_str().into()) } else { lit(&a[4], &a[5]).1 }); }
            let ctx = SequenceContext::new();
            let stream = eval_filter_expr(&e, &ev, &ctx) == Some(Value::Bool(true));
            let pred = expr_to_sase_predicate(&e);
            // SEQ(T where <filter>, End): the End event completes a match iff the first step accepted the event
            let mut eng = SaseEngine::new(SasePattern::Seq(vec![SasePattern::Event { event_type: "T".into(), predicate: pred.clone(), alias: Some("a".into()) },
                                                            SasePattern::Event { event_type: "End".into(), predicate: None, alias: None }]));
            let _ = eng.process(&ev);
            let step = !eng.process(&Event::new("End")).is_empty();
            if stream == step { println!("OK filter {:?} on {:?}: stream accepts={stream}, step accepts={step}", e, ev.data); }
            else { println!("REPRODUCED filter {:?} on event {:?}: `.where` accepts={stream} but the sequence step (predicate {:?}) accepts={step}", e, ev.data, pred); std::process::exit(1); }
        }
        // simd <nmax>: sum/min/max kernels against naive definitions for every length 0..=nmax on distinct-power-of-two inputs (a dropped,
        // duplicated or mis-indexed element changes the sum) and on sign/inf patterns; run it twice: as is (AVX2 target when the CPU has it)
        // and with RUST_STD_DETECT_UNSTABLE=avx2 (scalar target)
        "simd" => {
            use varpulis_runtime::simd::{max_f64, min_f64, sum_f64};
            let nmax: usize = a[2].parse().unwrap();
            println!("avx2 detected: {}", std::arch::is_x86_feature_detected!("avx2"));
            for n in 0..=nmax {
                let pats: Vec<Vec<f64>> = vec![(0..n).map(|i| (1u64 << i) as f64).collect(), (0..n).map(|i| -((1u64 << (i + 3)) as f64) + 1.0).collect(),
                    (0..n).map(|i| if i % 2 == 0 { (i as f64) - 7.5 } else { 100.0 - i as f64 }).collect(), (0..n).map(|i| if i == n - 1 { f64::NEG_INFINITY } else { i as f64 }).collect(),
                    (0..n).map(|i| if i == 0 { f64::INFINITY } else { -(i as f64) }).collect()];
                for v in pats {
                    let s: f64 = v.iter().fold(0.0, |a, b| a + b);
                    let got = sum_f64(&v);
                    if v.iter().all(|x| x.is_finite() && x.fract() == 0.0) && got != s { println!("REPRODUCED sum_f64({:?}) = {got}, expected {s}", v); std::process::exit(1); }
                    let mn = v.iter().cloned().fold(None, |m: Option<f64>, x| Some(m.map_or(x, |y| if x < y { x } else { y })));
                    let mx = v.iter().cloned().fold(None, |m: Option<f64>, x| Some(m.map_or(x, |y| if x > y { x } else { y })));
                    if min_f64(&v) != mn { println!("REPRODUCED min_f64({:?}) = {:?}, expected {:?}", v, min_f64(&v), mn); std::process::exit(1); }
                    if max_f64(&v) != mx { println!("REPRODUCED max_f64({:?}) = {:?}, expected {:?}", v, max_f64(&v), mx); std::process::exit(1); }
                }
            }
            #[cfg(varpulis_verif)]
            for n in 0..=nmax {
                use varpulis_runtime::simd::verif_hooks::{max_f64_scalar, min_f64_scalar, sum_f64_scalar};
                let pats: Vec<Vec<f64>> = vec![(0..n).map(|i| (1u64 << i) as f64).collect(), (0..n).map(|i| -((1u64 << (i + 3)) as f64) + 1.0).collect(),
                    (0..n).map(|i| if i % 2 == 0 { (i as f64) - 7.5 } else { 100.0 - i as f64 }).collect()];
                for v in pats {
                    let s: f64 = v.iter().fold(0.0, |a, b| a + b);
                    if v.iter().all(|x| x.fract() == 0.0) && sum_f64_scalar(&v) != s { println!("REPRODUCED sum_f64_scalar({:?}) = {}, expected {s}", v, sum_f64_scalar(&v)); std::process::exit(1); }
                    if n > 0 {
                        let mn = v.iter().cloned().fold(f64::INFINITY, |y, x| if x < y { x } else { y }); let mx = v.iter().cloned().fold(f64::NEG_INFINITY, |y, x| if x > y { x } else { y });
                        if min_f64_scalar(&v) != mn { println!("REPRODUCED min_f64_scalar({:?}) = {}, expected {mn}", v, min_f64_scalar(&v)); std::process::exit(1); }
                        if max_f64_scalar(&v) != mx { println!("REPRODUCED max_f64_scalar({:?}) = {}, expected {mx}", v, max_f64_scalar(&v)); std::process::exit(1); }
                    }
                }
            }
            println!("OK simd kernels agree with the definitions for lengths 0..={nmax} (scalar kernels through hooks: {})", cfg!(varpulis_verif));
        }
        // valueq: native probe of Value equality / hashing over a pool of boundary values (special floats, permuted maps, nested arrays)
        "valueq" => {
            use std::hash::{Hash, Hasher};
            let hv = |v: &Value| { let mut h = std::collections::hash_map::DefaultHasher::new(); v.hash(&mut h); h.finish() };
            let mk_map = |ents: &[(&str, Value)]| { let mut m: indexmap::IndexMap<std::sync::Arc<str>, Value, rustc_hash::FxBuildHasher> = indexmap::IndexMap::with_hasher(rustc_hash::FxBuildHasher); for (k, v) in ents { m.insert((*k).into(), v.clone()); } Value::map(m) };
            let mut pool: Vec<Value> = vec![Value::Null, Value::Bool(true), Value::Bool(false), Value::Int(0), Value::Int(1), Value::Int(-1), Value::Int(i64::MIN),
                Value::Float(0.0), Value::Float(-0.0), Value::Float(1.0), Value::Float(f64::NAN), Value::Float(-f64::NAN), Value::Float(f64::INFINITY),
                Value::Str("".into()), Value::Str("a".into()), Value::Str("0".into()), Value::Timestamp(0), Value::Timestamp(1), Value::Duration(0), Value::Duration(1),
                Value::array(vec![]), Value::array(vec![Value::Int(1)]), Value::array(vec![Value::Int(1), Value::Float(f64::NAN)]), Value::array(vec![Value::Float(f64::NAN), Value::Int(1)])];
            pool.push(mk_map(&[])); pool.push(mk_map(&[("a", Value::Int(1))]));
            pool.push(mk_map(&[("a", Value::Int(1)), ("b", Value::Int(2))])); pool.push(mk_map(&[("b", Value::Int(2)), ("a", Value::Int(1))]));
            pool.push(mk_map(&[("a", Value::Int(2)), ("b", Value::Int(1))])); pool.push(mk_map(&[("a", Value::Float(0.0)), ("b", Value::Float(f64::NAN))]));
            pool.push(mk_map(&[("b", Value::Float(f64::NAN)), ("a", Value::Float(-0.0))]));
            for x in &pool { if x != x { println!("REPRODUCED Value equality is not reflexive for {:?}", x); std::process::exit(1); } }
            for x in &pool { for y in &pool {
                if (x == y) != (y == x) { println!("REPRODUCED Value equality is not symmetric for {:?} / {:?}", x, y); std::process::exit(1); }
                if x == y && hv(x) != hv(y) { println!("REPRODUCED equal values hash differently: {:?} and {:?}", x, y); std::process::exit(1); }
                for z in &pool { if x == y && y == z && x != z { println!("REPRODUCED Value equality is not transitive for {:?}, {:?}, {:?}", x, y, z); std::process::exit(1); } }
            } }
            println!("OK Value equality is an equivalence consistent with hashing on the {} probe values", pool.len());
        }
        // fold <binary|unary> <Op> <Lclass> <L> [<Rclass> <R>] <x_present 0|1> <xclass> <x>: fold the expression with the real optimizer
        // (fold_program on a one-statement program) and evaluate folded and unfolded against the same event
        "fold" => {
            use varpulis_core::ast::{Program, Stmt};
            use varpulis_core::span::{Span, Spanned};
            let mk = |c: &str, p: &str| -> Expr { if c == "Ident" { Expr::Ident("x".into()) } else { lit(c, p).0 } };
            let (e, rest) = if a[2] == "binary" {
                (Expr::Binary { op: binop(&a[3]), left: Box::new(mk(&a[4], &a[5])), right: Box::new(mk(&a[6], &a[7])) }, &a[8..])
            } else {
                (Expr::Unary { op: match a[3].as_str() { "Neg" => UnaryOp::Neg, "Not" => UnaryOp::Not, _ => UnaryOp::BitNot }, expr: Box::new(mk(&a[4], &a[5])) }, &a[6..])
            };
            let mut ev = Event::new("T");
            if rest[0] == "1" {
                let v = match rest[1].as_str() { "Int" | "Float" | "Bool" | "Null" => lit(&rest[1], &rest[2]).1, "Str" => Value::Str("s".into()),
                    "Timestamp" => Value::Timestamp(5), "Duration" => Value::Duration(7), "Array" => Value::array(vec![Value::Int(1)]),
                    "Map" => Value::map(Default::default()), c => panic!("class {c}") };
                ev = ev.with_field("x", v);
            }
            let folded = panic::catch_unwind(|| {
                let p = varpulis_parser::optimize::fold_program(Program { statements: vec![Spanned::new(Stmt::Expr(e.clone()), Span::new(0, 0))] });
                match &p.statements[0].node { Stmt::Expr(f) => f.clone(), _ => panic!("statement kind changed") }
            });
            let folded = match folded { Ok(f) => f, Err(_) => { println!("REPRODUCED constant folding of {:?} panics", e); std::process::exit(1); } };
            let ctx = SequenceContext::new();
            let (r1, r2) = (eval_filter_expr(&e, &ev, &ctx), eval_filter_expr(&folded, &ev, &ctx));
            if r1 == r2 { println!("OK {:?} folds to {:?}; both evaluate to {:?}", e, folded, r1); }
            else { println!("REPRODUCED {:?} evaluates to {:?} but its folded form {:?} evaluates to {:?} (event {:?})", e, r1, folded, r2, ev.data); std::process::exit(1); }
        }
        "breaker" => breaker(&a[2..]),
        // recurse <ExprVariant>: evaluate an expression of that variant in a child process (a stack overflow aborts the process)
        "recurse" => {
            let st = std::process::Command::new(std::env::current_exe().unwrap()).args(["recurse-child", &a[2]]).output().unwrap();
            if st.status.success() { println!("OK evaluating Expr::{} returns: {}", a[2], String::from_utf8_lossy(&st.stdout).trim()); }
            else { println!("REPRODUCED evaluating Expr::{} kills the process ({:?}): {}", a[2], st.status, String::from_utf8_lossy(&st.stderr).lines().last().unwrap_or("")); std::process::exit(1); }
        }
        "recurse-child" => {
            let id = || Box::new(Expr::Ident("x".into()));
            let e = match a[2].as_str() {
                "Timestamp" => Expr::Timestamp(0), "Duration" => Expr::Duration(1), "Null" => Expr::Null, "Bool" => Expr::Bool(true), "Int" => Expr::Int(1),
                "Float" => Expr::Float(1.0), "Str" => Expr::Str("s".into()),
                "OptionalMember" => Expr::OptionalMember { expr: id(), member: "m".into() },
                "Lambda" => Expr::Lambda { params: vec!["p".into()], body: id() },
                "Block" => Expr::Block { stmts: vec![], result: id() },
                v => panic!("variant {v} not constructible here"),
            };
            println!("{:?}", eval_arm(&e));
        }
        // cmp <binop|arm> <Op> <lclass> <l> <rclass> <r>
        "cmp" => {
            let op = binop(&a[3]);
            let (le, lv) = lit(&a[4], &a[5]); let (re, rv) = lit(&a[6], &a[7]);
            let got = if a[2] == "binop" { eval_binary_op(&op, &lv, &rv) } else { eval_arm(&Expr::Binary { op: op.clone(), left: Box::new(le), right: Box::new(re) }) };
            let o = exact_cmp(&lv, &rv);
            let want = match (&op, o) { (_, None) => false, (BinOp::Lt, Some(o)) => o == Ordering::Less, (BinOp::Le, Some(o)) => o != Ordering::Greater,
                (BinOp::Gt, Some(o)) => o == Ordering::Greater, (BinOp::Ge, Some(o)) => o != Ordering::Less, _ => panic!("op") };
            if got == Some(Value::Bool(want)) { println!("OK {:?} {:?} {:?} = {:?}", lv, op, rv, got); }
            else { println!("REPRODUCED {} evaluates {:?} {:?} {:?} to {:?}; the mathematical order gives {}", a[2], lv, op, rv, got, want); std::process::exit(1); }
        }
        // panic <binary|unary> <Op> <lclass> <l> [<rclass> <r>]  : does evaluation panic / abort?
        "panic" => {
            let e = if a[2] == "builtinstr" {
                // panic builtinstr <name> <string with \u{..} escapes> <int>*: name("...", n, m)
                let mut text = String::new(); let cs: Vec<char> = a[4].chars().collect(); let mut i = 0;
                while i < cs.len() {
                    if cs[i] == '\\' && i + 2 < cs.len() && cs[i + 1] == 'u' && cs[i + 2] == '{' {
                        let end = (i + 3..cs.len()).find(|&k| cs[k] == '}').unwrap();
                        let hex: String = cs[i + 3..end].iter().collect();
                        text.push(char::from_u32(u32::from_str_radix(&hex, 16).unwrap()).unwrap_or('?')); i = end + 1;
                    } else { text.push(cs[i]); i += 1 }
                }
                let mut args = vec![varpulis_core::ast::Arg::Positional(Expr::Str(text))];
                for x in &a[5..] { args.push(varpulis_core::ast::Arg::Positional(Expr::Int(x.parse().unwrap()))) }
                Expr::Call { func: Box::new(Expr::Ident(a[3].clone())), args }
            } else if a[2] == "builtin" {
                // panic builtin <name> <class> <payload> [<class> <payload>]: the call expression name(arg, ...) on literal arguments
                let mut args = vec![varpulis_core::ast::Arg::Positional(lit(&a[4], &a[5]).0)];
                if a.len() >= 8 && a[6] != "Null" || (a.len() >= 8 && ["pow", "min", "max"].contains(&a[3].as_str())) { args.push(varpulis_core::ast::Arg::Positional(lit(&a[6], &a[7]).0)) }
                Expr::Call { func: Box::new(Expr::Ident(a[3].clone())), args }
            } else if a[2] == "binary" {
                let (le, _) = lit(&a[4], &a[5]); let (re, _) = lit(&a[6], &a[7]);
                Expr::Binary { op: binop(&a[3]), left: Box::new(le), right: Box::new(re) }
            } else {
                let (le, _) = lit(&a[4], &a[5]);
                Expr::Unary { op: if a[3] == "Neg" { UnaryOp::Neg } else { UnaryOp::Not }, expr: Box::new(le) }
            };
            panic::set_hook(Box::new(|_| {}));
            let r = panic::catch_unwind(|| eval_arm(&e));
            match r { Ok(v) => println!("OK no panic: {:?} -> {:?}", e, v), Err(_) => { println!("REPRODUCED evaluating {:?} panics", e); std::process::exit(1); } }
        }
        // partkey: Value::to_partition_key against its specification on a fixed list of legitimate keys: a Str is its own key, an Int is its
        // decimal rendering, and distinct keys of one type get distinct partition keys
        "partkey" => {
            let strs = ["A", "a", " a", "a ", "1", "01", "", "Ünï", "default", "x\ty", "KEY", "key"];
            let ints = [0i64, 1, -1, 10, 100, 255, 256, 65536, 2147483647, 2147483648, 4294967296, 4294967297, -2147483649, i64::MAX, i64::MIN];
            let mut bad: Vec<String> = Vec::new();
            for s in strs { let k = Value::Str((*s).into()).to_partition_key().into_owned(); if k != *s { bad.push(format!("Str {s:?} -> key {k:?}")) } }
            for n in ints { let k = Value::Int(n).to_partition_key().into_owned(); if k != n.to_string() { bad.push(format!("Int {n} -> key {k:?}")) } }
            for (i, x) in ints.iter().enumerate() { for y in &ints[i + 1..] { if Value::Int(*x).to_partition_key() == Value::Int(*y).to_partition_key() { bad.push(format!("Int {x} and Int {y} share a key")) } } }
            if bad.is_empty() { println!("OK partkey: {} strings and {} integers keep their own key", strs.len(), ints.len()) } else { println!("REPRODUCED partkey: {}", bad.join("; ")); std::process::exit(1) }
        }
        _ => panic!("unknown subcommand"),
    }
}
