//! Native replay of C30/C33/C34 counterexamples against the real varpulis-cluster public API, under a virtual clock
//! (this binary defines `clock_gettime`, which takes precedence over libc's, so std::time::Instant::now() is controlled).
use std::net::{IpAddr, Ipv4Addr};
use std::sync::atomic::{AtomicBool, AtomicI64, Ordering as AO};
use varpulis_cluster::rate_limit::{RateLimitConfig, RateLimitResult, RateLimiter};

static VIRTUAL: AtomicBool = AtomicBool::new(false);
static VS: AtomicI64 = AtomicI64::new(0);
static VN: AtomicI64 = AtomicI64::new(0);
#[repr(C)]
pub struct Timespec { tv_sec: i64, tv_nsec: i64 }
#[no_mangle]
pub unsafe extern "C" fn clock_gettime(clk: i32, ts: *mut Timespec) -> i32 {
    if VIRTUAL.load(AO::SeqCst) { (*ts).tv_sec = VS.load(AO::SeqCst) + 1000; (*ts).tv_nsec = VN.load(AO::SeqCst); return 0; }
    let ret: i64;
    std::arch::asm!("syscall", inlateout("rax") 228i64 => ret, in("rdi") clk as i64, in("rsi") ts, lateout("rcx") _, lateout("r11") _, options(nostack));
    ret as i32
}
fn set_clock(s: i64, n: i64) { VS.store(s, AO::SeqCst); VN.store(n, AO::SeqCst); VIRTUAL.store(true, AO::SeqCst); }

/// bucket <burst> <rate> <time>... [-- <time>...]   time = secs:nanos (absolute, non-decreasing); `--` starts a new history on a fresh limiter.
/// For each history, through RateLimiter::check from one client: no panic; over every window of requests
/// admitted(i..j) <= burst + rate * (t_j - t_i) + 1e-6.
fn bucket(a: &[String]) {
    let burst: u32 = a[0].parse().unwrap(); let rate: u32 = a[1].parse().unwrap();
    for hist in a[2..].split(|x| x == "--") {
        if hist.is_empty() { continue; }
        set_clock(0, 0);
        let rt = tokio::runtime::Builder::new_current_thread().build().unwrap();
        let lim = RateLimiter::new(RateLimitConfig::with_burst(rate, burst));
        let ip = IpAddr::V4(Ipv4Addr::new(10, 0, 0, 1));
        let mut times: Vec<f64> = vec![]; let mut adm: Vec<bool> = vec![];
        let r = std::panic::catch_unwind(std::panic::AssertUnwindSafe(|| {
            for st in hist {
                let p: Vec<i64> = st.split(':').map(|x| x.parse().unwrap()).collect();
                set_clock(p[0], p[1]);
                let res = rt.block_on(lim.check(ip));
                times.push(p[0] as f64 + p[1] as f64 / 1e9);
                adm.push(matches!(res, RateLimitResult::Allowed { .. }));
            }
        }));
        VIRTUAL.store(false, AO::SeqCst);
        if r.is_err() { println!("REPRODUCED RateLimiter(burst={burst}, rate={rate}) panicked on request times {:?} (after {} answered requests)", hist, adm.len()); std::process::exit(1); }
        for i in 0..adm.len() { for j in i..adm.len() {
            let k = adm[i..=j].iter().filter(|x| **x).count() as f64;
            let bound = burst as f64 + rate as f64 * (times[j] - times[i]) + 1e-6;
            if k > bound { println!("REPRODUCED RateLimiter(burst={burst}, rate={rate}) admitted {k} requests in [{}, {}] s, bound {bound}: times {:?} admitted {:?}", times[i], times[j], hist, adm); std::process::exit(1); }
        } }
        println!("OK times {:?} admitted {:?}", hist, adm);
    }
}

fn main() {
    let a: Vec<String> = std::env::args().collect();
    match a[1].as_str() {
        "bucket" => bucket(&a[2..]),
        // routing: bounded probes of the routing functions against their specification (strings over a small alphabet, small route
        // tables in every order, round-robin loads)
        // workers <op> ...: the worker-table operations of C33 against their specification, under the virtual clock
        //   is_available <status> <running> <max>
        //   sweep <timeout_ns> <now_ns> <n> {<id> <status> <hb_ns> <running>}*
        //   heartbeat <worker_id> <hb_running> <hb_events> <now_ns> <n> {<id> <status> <hb_ns> <running>}*
        //   round_robin <counter> <n> {<id> <running> <cores>}*      least_loaded <n> {<id> <running> <cores>}*
        // inject: Coordinator::resolve_inject_target on a hand-built group: pipelines p (two replicas p#0 / p#1, round robin) and q, routes Temp* -> p and Hum -> q,
        // placements on three workers; every sequence of <= 6 injections over {Temp1, Hum, Other} and an unknown group / an undeployed replica
        "inject" => {
            use varpulis_cluster::coordinator::{Coordinator, InjectEventRequest};
            use varpulis_cluster::pipeline_group::{DeployedPipelineGroup, InterPipelineRoute, PartitionStrategy, PipelineDeployment, PipelineDeploymentStatus, PipelineGroupSpec, PipelinePlacement, ReplicaGroup};
            use varpulis_cluster::worker::WorkerId;
            let mut bad: Vec<String> = Vec::new(); let mut count = 0usize;
            let types = ["Temp1", "Hum", "Other"];
            for deployed_all in [true, false] {
                for len in 1..=6u32 { for sid in 0..3usize.pow(len) {
                    let spec = PipelineGroupSpec { name: "g".into(), pipelines: vec![
                        PipelinePlacement { name: "p".into(), source: String::new(), worker_affinity: None, replicas: 2, partition_key: None },
                        PipelinePlacement { name: "q".into(), source: String::new(), worker_affinity: None, replicas: 1, partition_key: None }],
                        routes: vec![InterPipelineRoute { from_pipeline: "_external".into(), to_pipeline: "p".into(), event_types: vec!["Temp*".into()], nats_subject: None },
                                     InterPipelineRoute { from_pipeline: "_external".into(), to_pipeline: "q".into(), event_types: vec!["Hum".into()], nats_subject: None }] };
                    let mut g = DeployedPipelineGroup::new("gid".into(), "g".into(), spec);
                    let dep = |w: &str, pid: &str| PipelineDeployment { worker_id: WorkerId(w.into()), worker_address: format!("http://{w}"), worker_api_key: format!("key-{w}"), pipeline_id: pid.into(), status: PipelineDeploymentStatus::Running, epoch: 0 };
                    g.placements.insert("p#0".into(), dep("w0", "id-p0"));
                    if deployed_all { g.placements.insert("p#1".into(), dep("w1", "id-p1")); } else { g.placements.insert("p".into(), dep("w9", "id-p")); }   // an entry under the logical name must not stand in for a missing replica
                    g.placements.insert("q".into(), dep("w2", "id-q"));
                    g.replica_groups.insert("p".into(), ReplicaGroup::new("p".into(), vec!["p#0".into(), "p#1".into()], PartitionStrategy::RoundRobin));
                    let mut c = Coordinator::new();
                    c.pipeline_groups.insert("gid".into(), g);
                    let mut x = sid; let mut loads = [0usize; 2]; let mut rr = 0usize;
                    for _ in 0..len {
                        let ty = types[x % 3]; x /= 3;
                        let ev = InjectEventRequest { event_type: ty.into(), fields: Default::default() };
                        count += 1;
                        if c.resolve_inject_target("nobody", &ev).is_ok() && bad.len() < 3 { bad.push("an unknown group resolves to a target".into()) }
                        let r = c.resolve_inject_target("gid", &ev);
                        let (want_name, want_worker) = if ty == "Hum" { ("q".to_string(), "w2") } else { let i = rr % 2; rr += 1; (format!("p#{i}"), if i == 0 { "w0" } else { "w1" }) };
                        match r {
                            Ok(t) => {
                                if (t.target_name != want_name || t.worker_id != want_worker || t.api_key != format!("key-{want_worker}") || !t.url.starts_with(&format!("http://{want_worker}/"))) && bad.len() < 3 {
                                    bad.push(format!("event {ty} (injection sequence code {sid}, length {len}): resolved to {} on {} ({}), expected {want_name} on {want_worker}", t.target_name, t.worker_id, t.url)) }
                                if ty != "Hum" { loads[if t.target_name == "p#0" { 0 } else { 1 }] += 1 }
                            }
                            Err(e) => if (deployed_all || want_name != "p#1") && bad.len() < 3 { bad.push(format!("event {ty}: resolution failed ({e}) although {want_name} is deployed")) },
                        }
                        if deployed_all && loads[0].abs_diff(loads[1]) > 1 && bad.len() < 3 { bad.push(format!("round-robin loads {loads:?} differ by more than one")) }
                    }
                } }
            }
            if bad.is_empty() { println!("OK inject: {count} injections resolve as routing and replica selection say") } else { println!("REPRODUCED inject: {}", bad.join("; ")) }
        }
        "workers" => {
            use std::collections::HashMap;
            use std::time::{Duration, Instant};
            use varpulis_cluster::pipeline_group::PipelinePlacement;
            use varpulis_cluster::worker::{HeartbeatRequest, WorkerId, WorkerNode, WorkerStatus};
            use varpulis_cluster::{LeastLoadedPlacement, PlacementStrategy, RoundRobinPlacement};
            let st = |s: &str| match s { "Registering" => WorkerStatus::Registering, "Ready" => WorkerStatus::Ready, "Unhealthy" => WorkerStatus::Unhealthy, _ => WorkerStatus::Draining };
            let at = |ns: i64| { set_clock(ns / 1_000_000_000 + 1000, ns % 1_000_000_000); Instant::now() };
            let mk = |id: &str, status: &str, hb: i64, running: usize| { let mut w = WorkerNode::new(WorkerId(format!("w{id}")), "http://x".into(), "k".into()); w.status = st(status); w.last_heartbeat = at(hb); w.capacity.pipelines_running = running; w };
            let op = a[2].as_str();
            let mut bad: Vec<String> = Vec::new();
            match op {
                "is_available" => {
                    let mut w = mk("0", &a[3], 0, a[4].parse().unwrap()); w.capacity.max_pipelines = a[5].parse().unwrap();
                    let exp = a[3] == "Ready" && w.capacity.pipelines_running < w.capacity.max_pipelines;
                    if w.is_available() != exp { bad.push(format!("is_available() = {} for status {} running {} max {}", w.is_available(), a[3], a[4], a[5])) }
                }
                "sweep" | "heartbeat" => {
                    let base = if op == "sweep" { 5 } else { 7 };
                    let nows: Vec<i64> = a[base - 1].split(',').map(|x| x.parse().unwrap()).collect(); let n: usize = a[base].parse().unwrap();
                    for now in nows {
                    let mut table: Vec<(String, String, i64, usize)> = Vec::new();
                    for i in 0..n { table.push((a[base + 1 + 4 * i].clone(), a[base + 2 + 4 * i].clone(), a[base + 3 + 4 * i].parse().unwrap(), a[base + 4 + 4 * i].parse().unwrap())) }
                    if op == "sweep" {
                        let timeout: u64 = a[3].parse().unwrap();
                        let mut workers: HashMap<WorkerId, WorkerNode> = HashMap::new();
                        for (id, s, hb, r) in &table { let w = mk(id, s, *hb, *r); workers.insert(w.id.clone(), w); }
                        let _ = at(now);
                        let res = varpulis_cluster::health::health_sweep(&mut workers, Duration::from_nanos(timeout));
                        if res.workers_checked != n { bad.push(format!("workers_checked = {} of {n}", res.workers_checked)) }
                        for (id, s, hb, _) in &table {
                            let exp = if s == "Ready" && (now - hb) as u64 > timeout { WorkerStatus::Unhealthy } else { st(s) };
                            let got = workers[&WorkerId(format!("w{id}"))].status.clone();
                            if got != exp { bad.push(format!("worker w{id} ({s}, heartbeat {} ns old, timeout {timeout}) is {got:?}, expected {exp:?}", now - hb)) }
                            let listed = res.workers_marked_unhealthy.contains(&WorkerId(format!("w{id}")));
                            if listed != (s == "Ready" && exp == WorkerStatus::Unhealthy) { bad.push(format!("worker w{id} listed as newly unhealthy = {listed}")) }
                        }
                    } else {
                        let mut c = varpulis_cluster::coordinator::Coordinator::new();
                        for (id, s, hb, r) in &table { let w = mk(id, s, *hb, *r); c.workers.insert(w.id.clone(), w); }
                        let t = at(now);
                        let wid = WorkerId(format!("w{}", a[3]));
                        let req = HeartbeatRequest { events_processed: a[5].parse().unwrap(), pipelines_running: a[4].parse().unwrap(), pipeline_metrics: vec![] };
                        let r = c.heartbeat(&wid, &req);
                        let known = table.iter().any(|(id, ..)| format!("w{id}") == wid.0);
                        if r.is_ok() != known { bad.push(format!("heartbeat returned {:?} for a {} worker", r.is_ok(), if known { "registered" } else { "unknown" })) }
                        for (id, s, hb, run) in &table {
                            let w = &c.workers[&WorkerId(format!("w{id}"))];
                            if format!("w{id}") == wid.0 {
                                let exp = if s == "Unhealthy" { WorkerStatus::Ready } else { st(s) };
                                if w.status != exp { bad.push(format!("worker w{id} ({s}) is {:?} after its heartbeat, expected {exp:?}", w.status)) }
                                if w.last_heartbeat != t { bad.push(format!("worker w{id}: last_heartbeat not refreshed")) }
                                if w.capacity.pipelines_running != req.pipelines_running || w.events_processed != req.events_processed { bad.push(format!("worker w{id}: load figures not copied")) }
                            } else if w.status != st(s) || w.capacity.pipelines_running != *run || w.last_heartbeat != at(*hb) { bad.push(format!("worker w{id} changed by another worker's heartbeat")) }
                        }
                    }
                    }
                }
                "round_robin" | "least_loaded" => {
                    let base = if op == "round_robin" { 4 } else { 3 };
                    let n: usize = a[base].parse().unwrap();
                    let mut ws: Vec<WorkerNode> = Vec::new();
                    for i in 0..n { let mut w = mk(&a[base + 1 + 3 * i], "Ready", 0, a[base + 2 + 3 * i].parse().unwrap()); w.capacity.cpu_cores = a[base + 3 + 3 * i].parse().unwrap(); ws.push(w) }
                    let refs: Vec<&WorkerNode> = ws.iter().collect();
                    let p = PipelinePlacement { name: "p".into(), source: String::new(), worker_affinity: None, replicas: 1, partition_key: None };
                    if op == "round_robin" {
                        let counter: usize = a[3].parse().unwrap();
                        let rr = RoundRobinPlacement::new();
                        // the counter is private: advance it by placing on a one-worker list (bounded to small counters)
                        let one = [refs.first().copied()].into_iter().flatten().collect::<Vec<_>>();
                        for _ in 0..(counter % (n.max(1) * 4)) { let _ = rr.place(&p, &one); }
                        let got = rr.place(&p, &refs);
                        let exp = if n == 0 { None } else { Some(ws[(counter % (n * 4)) % n].id.clone()) };
                        if got != exp { bad.push(format!("round robin with counter {} over {n} workers placed on {got:?}, expected {exp:?}", counter % (n.max(1) * 4))) }
                    } else {
                        let got = LeastLoadedPlacement.place(&p, &refs);
                        match got {
                            None => if n != 0 { bad.push("least loaded placed nowhere although workers are available".into()) },
                            Some(id) => match ws.iter().find(|w| w.id == id) {
                                None => bad.push(format!("least loaded placed on {id:?}, which is not in the list")),
                                Some(w) => {
                                    let key = |x: &WorkerNode| (x.capacity.pipelines_running as u128, x.capacity.cpu_cores.max(1) as u128);
                                    for o in &ws {
                                        let (ro, co) = key(o); let (rw, cw) = key(w);
                                        if ro * cw < rw * co || (ro * cw == rw * co && ro < rw) { bad.push(format!("least loaded placed on {:?} ({rw}/{cw}) although {:?} ({ro}/{co}) is less loaded", w.id, o.id)) }
                                    }
                                }
                            },
                        }
                    }
                }
                "plan" => {
                    // plan_deploy_group on every worker table of 1..3 workers over the four statuses x {spare capacity, full}, pipelines pinned to each
                    // worker / to an unknown id / unpinned, four pipelines per request (so that round-robin visits every candidate)
                    use varpulis_cluster::pipeline_group::PipelineGroupSpec;
                    let stats = ["Registering", "Ready", "Unhealthy", "Draining"];
                    let mut count = 0usize;
                    for n in 1..=3usize { for code in 0..8usize.pow(n as u32) {
                        let mut c = varpulis_cluster::coordinator::Coordinator::new();
                        let mut x = code; let mut avail: Vec<bool> = Vec::new();
                        for i in 0..n { let s = stats[x % 4]; let full = (x / 4) % 2 == 1; x /= 8;
                            let mut w = mk(&i.to_string(), s, 0, 0); if full { w.capacity.pipelines_running = w.capacity.max_pipelines }
                            avail.push(w.is_available()); c.workers.insert(w.id.clone(), w); }
                        for pin in 0..=(n + 1) {
                            let affinity = if pin < n { Some(format!("w{pin}")) } else if pin == n { Some("nobody".to_string()) } else { None };
                            let spec = PipelineGroupSpec { name: "g".into(), routes: vec![], pipelines: (0..4).map(|j| PipelinePlacement { name: format!("p{j}"), source: "stream S = E".into(), worker_affinity: affinity.clone(), replicas: 1, partition_key: None }).collect() };
                            count += 1;
                            match c.plan_deploy_group(&spec) {
                                Err(_) => if avail.iter().any(|a| *a) && bad.len() < 3 { bad.push(format!("planning failed although a worker is available (table code {code}, {n} workers, affinity {affinity:?})")) },
                                Ok(plan) => for t in &plan.tasks {
                                    let idx: Option<usize> = t.worker_id.0.strip_prefix('w').and_then(|x| x.parse().ok());
                                    let ok = idx.map_or(false, |i| i < n && avail[i]);
                                    if !ok && bad.len() < 3 { bad.push(format!("pipeline {} planned on {:?}, which is not an available worker (statuses/full code {code}, {n} workers, affinity {affinity:?})", t.pipeline_name, t.worker_id)) }
                                    if pin < n && avail[pin] && t.worker_id.0 != format!("w{pin}") && bad.len() < 3 { bad.push(format!("pipeline pinned to available worker w{pin} planned on {:?}", t.worker_id)) }
                                },
                            }
                        }
                    } }
                    if bad.is_empty() { println!("OK workers plan: {count} plans") }
                }
                _ => { eprintln!("unknown workers op"); std::process::exit(2) }
            }
            if bad.is_empty() { println!("OK workers {op}") } else { println!("REPRODUCED workers {op}: {}", bad.join("; ")) }
        }
        // rbac: bounded probe of the access decision: constant_time_compare on all strings of <= 3 chars over {a, b, NUL}; authenticate on every key table of
        // <= 2 keys from {"", "k1", "k2"} x roles, allow_anonymous and anonymous role, against every provided key (absent, "", "k1", "k2", "zz"); has_permission on all pairs
        "rbac" => {
            use std::collections::HashMap;
            use varpulis_cluster::rbac::{ApiKeyEntry, RbacConfig, Role};
            let mut bad: Vec<String> = Vec::new(); let mut count = 0usize;
            let alpha = ['a', 'b', '\0'];
            let mut strs: Vec<String> = vec![String::new()];
            for len in 1..=3 { for id in 0..alpha.len().pow(len as u32) { let mut x = id; let mut s = String::new(); for _ in 0..len { s.push(alpha[x % 3]); x /= 3 } strs.push(s) } }
            for x in &strs { for y in &strs { count += 1; if varpulis_core::security::constant_time_compare(x, y) != (x == y) && bad.len() < 3 { bad.push(format!("constant_time_compare({x:?}, {y:?}) = {}", x != y)) } } }
            let roles = [Role::Viewer, Role::Operator, Role::Admin];
            for (i, r) in roles.iter().enumerate() { for (j, q) in roles.iter().enumerate() { count += 1; if r.has_permission(*q) != (i >= j) && bad.len() < 3 { bad.push(format!("{r:?}.has_permission({q:?}) = {}", r.has_permission(*q))) } } }
            let names = ["", "k1", "k2"];
            for mask in 0..27usize {          // per key: absent or one of the three roles -> 4^3, encoded base 4 below
                let _ = mask;
            }
            for code in 0..64usize {
                let mut keys: HashMap<String, ApiKeyEntry> = HashMap::new(); let mut x = code;
                for n in names { let c = x % 4; x /= 4; if c > 0 { keys.insert(n.to_string(), ApiKeyEntry { role: roles[c - 1], name: None }); } }
                for anon in [false, true] { for ar in roles {
                    let mut cfg = RbacConfig::multi_key(keys.clone()); cfg.allow_anonymous = anon; cfg.anonymous_role = ar;
                    for prov in [None, Some(""), Some("k1"), Some("k2"), Some("zz")] {
                        let want = if anon && keys.is_empty() { Some(ar) } else { match prov { None => if anon { Some(ar) } else { None }, Some(k) => keys.get(k).map(|e| e.role) } };
                        let got = cfg.authenticate(prov); count += 1;
                        if got != want && bad.len() < 3 { bad.push(format!("authenticate({prov:?}) with keys {:?}, anonymous {anon}/{ar:?} = {got:?}, expected {want:?}", keys.iter().map(|(k, e)| (k.clone(), e.role)).collect::<Vec<_>>())) }
                    }
                } }
            }
            if bad.is_empty() { println!("OK rbac: {count} cases agree with the specification") } else { println!("REPRODUCED rbac: {}", bad.join("; ")) }
        }
        "routing" => {
            use varpulis_cluster::pipeline_group::{DeployedPipelineGroup, InterPipelineRoute, PartitionStrategy, PipelineGroupSpec, PipelinePlacement, ReplicaGroup};
            use varpulis_cluster::routing::{event_type_matches, find_target_pipeline};
            let alpha = ['a', 'b', '*', '.'];
            let mut strs: Vec<String> = vec![String::new()];
            for len in 1..=3 { let prev: Vec<String> = strs.iter().filter(|s| s.len() == len - 1).cloned().collect(); for p in prev { for c in alpha { let mut t = p.clone(); t.push(c); strs.push(t); } } }
            let spec = |t: &str, p: &str| p == "*" || (p.ends_with('*') && t.starts_with(&p[..p.len() - 1])) || (!p.ends_with('*') && t == p);
            for t in &strs { for p in &strs { if event_type_matches(t, p) != spec(t, p) { println!("REPRODUCED event_type_matches({:?}, {:?}) = {}, specification says {}", t, p, event_type_matches(t, p), spec(t, p)); std::process::exit(1); } } }
            let pats = ["a", "a*", "*", "b", "ab", ""];
            let mk_place = |n: &str| PipelinePlacement { name: n.into(), source: String::new(), worker_affinity: None, replicas: 1, partition_key: None };
            for p1 in pats { for p2 in pats { for p3 in pats { for npipe in 0..=2usize { for t in ["a", "ab", "b", "c", ""] {
                let routes = vec![InterPipelineRoute { from_pipeline: "x".into(), to_pipeline: "T1".into(), event_types: vec![p1.into(), p2.into()], nats_subject: None },
                                  InterPipelineRoute { from_pipeline: "x".into(), to_pipeline: "T2".into(), event_types: vec![p3.into()], nats_subject: None }];
                let pipelines: Vec<PipelinePlacement> = (0..npipe).map(|i| mk_place(&format!("P{i}"))).collect();
                let g = DeployedPipelineGroup::new("g".into(), "g".into(), PipelineGroupSpec { name: "g".into(), pipelines, routes });
                let want: Option<String> = if spec(t, p1) || spec(t, p2) { Some("T1".into()) } else if spec(t, p3) { Some("T2".into()) } else if npipe > 0 { Some("P0".into()) } else { None };
                let got = find_target_pipeline(&g, t).map(|s| s.to_string());
                if got != want { println!("REPRODUCED find_target_pipeline(routes [{:?},{:?}]->T1, [{:?}]->T2, {npipe} pipelines, {:?}) = {:?}, expected {:?}", p1, p2, p3, t, got, want); std::process::exit(1); }
            } } } } }
            for n in 0..=5usize { for start in [0usize, 1, 7, usize::MAX - 3] {
                let g = ReplicaGroup::new("pipe".into(), (0..n).map(|i| format!("r{i}")).collect(), PartitionStrategy::RoundRobin);
                g.counter.store(start, std::sync::atomic::Ordering::Relaxed);
                let fields = Default::default();
                let mut loads = vec![0usize; n.max(1)];
                for k in 0..(3 * n + 2) { let r = g.select_replica(&fields).to_string();
                    if n == 0 { if r != "pipe" { println!("REPRODUCED select_replica with no replicas returned {:?}", r); std::process::exit(1); } continue; }
                    let want = format!("r{}", start.wrapping_add(k) % n);
                    if r != want && start < usize::MAX - 100 { println!("REPRODUCED round-robin select_replica call {k} from counter {start} with {n} replicas returned {:?}, expected {:?}", r, want); std::process::exit(1); }
                    if let Some(i) = r.strip_prefix('r').and_then(|x| x.parse::<usize>().ok()) { loads[i] += 1; }
                    let (mn, mx) = (loads.iter().min().unwrap(), loads.iter().max().unwrap());
                    if start < usize::MAX - 100 && mx - mn > 1 { println!("REPRODUCED round-robin loads {:?} differ by more than one ({n} replicas, start {start})", loads); std::process::exit(1); }
                } } }
            println!("OK routing probes agree with the specification");
        }
        _ => panic!("unknown subcommand"),
    }
}
