//! Native replay of C30/C33/C34 counterexamples against the real varpulis-cluster public API, under a virtual clock
//! (this binary defines `clock_gettime`, which takes precedence over libc's, so std::time::Instant::now() is controlled).
use std::net::{IpAddr, Ipv4Addr};
use std::sync::atomic::{AtomicBool, AtomicI64, Ordering as AO};
use varpulis_cluster::rate_limit::{RateLimitConfig, RateLimitResult, RateLimiter};

static VIRTUAL: AtomicBool = AtomicBool::new(false);
static VS: AtomicI64 = AtomicI64::new(0);
static VN: AtomicI64 = AtomicI64::new(0);
#[repr(C)]
pub struct Timespec { tv_sec: i64, tv_nsec: i64 }
#[no_mangle]
pub unsafe extern "C" fn clock_gettime(clk: i32, ts: *mut Timespec) -> i32 {
    if VIRTUAL.load(AO::SeqCst) { (*ts).tv_sec = VS.load(AO::SeqCst) + 1000; (*ts).tv_nsec = VN.load(AO::SeqCst); return 0; }
    let ret: i64;
    std::arch::asm!("syscall", inlateout("rax") 228i64 => ret, in("rdi") clk as i64, in("rsi") ts, lateout("rcx") _, lateout("r11") _, options(nostack));
    ret as i32
}
fn set_clock(s: i64, n: i64) { VS.store(s, AO::SeqCst); VN.store(n, AO::SeqCst); VIRTUAL.store(true, AO::SeqCst); }

/// bucket <burst> <rate> <time>... [-- <time>...]   time = secs:nanos (absolute, non-decreasing); `--` starts a new history on a fresh limiter.
/// For each history, through RateLimiter::check from one client: no panic; over every window of requests
/// admitted(i..j) <= burst + rate * (t_j - t_i) + 1e-6.
fn bucket(a: &[String]) {
    let burst: u32 = a[0].parse().unwrap(); let rate: u32 = a[1].parse().unwrap();
    for hist in a[2..].split(|x| x == "--") {
        if hist.is_empty() { continue; }
        set_clock(0, 0);
        let rt = tokio::runtime::Builder::new_current_thread().build().unwrap();
        let lim = RateLimiter::new(RateLimitConfig::with_burst(rate, burst));
        let ip = IpAddr::V4(Ipv4Addr::new(10, 0, 0, 1));
        let mut times: Vec<f64> = vec![]; let mut adm: Vec<bool> = vec![];
        let r = std::panic::catch_unwind(std::panic::AssertUnwindSafe(|| {
            for st in hist {
                let p: Vec<i64> = st.split(':').map(|x| x.parse().unwrap()).collect();
                set_clock(p[0], p[1]);
                let res = rt.block_on(lim.check(ip));
                times.push(p[0] as f64 + p[1] as f64 / 1e9);
                adm.push(matches!(res, RateLimitResult::Allowed { .. }));
            }
        }));
        VIRTUAL.store(false, AO::SeqCst);
        if r.is_err() { println!("REPRODUCED RateLimiter(burst={burst}, rate={rate}) panicked on request times {:?} (after {} answered requests)", hist, adm.len()); std::process::exit(1); }
        for i in 0..adm.len() { for j in i..adm.len() {
            let k = adm[i..=j].iter().filter(|x| **x).count() as f64;
            let bound = burst as f64 + rate as f64 * (times[j] - times[i]) + 1e-6;
            if k > bound { println!("REPRODUCED RateLimiter(burst={burst}, rate={rate}) admitted {k} requests in [{}, {}] s, bound {bound}: times {:?} admitted {:?}", times[i], times[j], hist, adm); std::process::exit(1); }
        } }
        println!("OK times {:?} admitted {:?}", hist, adm);
    }
}

fn main() {
    let a: Vec<String> = std::env::args().collect();
    match a[1].as_str() {
        "bucket" => bucket(&a[2..]),
        _ => panic!("unknown subcommand"),
    }
}
