//! Native replay for C44: JSON <-> Value through the real REST routes (and, under cfg(varpulis_verif), the private converters directly).
//!   replay-api json <converter> <json text | value description>
//! prints `REPRODUCED ...` when the value that went in is not the value that came out, `OK ...` otherwise.
use std::sync::Arc;
use tokio::sync::RwLock;
use varpulis_cli::api::{api_routes, InjectBatchRequest, InjectEventRequest};
use varpulis_core::Value;
use varpulis_runtime::tenant::{TenantManager, TenantQuota};

async fn setup() -> (varpulis_runtime::tenant::SharedTenantManager, String) {
    let mut mgr = TenantManager::new();
    let id = mgr.create_tenant("T".into(), "key".into(), TenantQuota::default()).unwrap();
    let tenant = mgr.get_tenant_mut(&id).unwrap();
    tenant.deploy_pipeline("p".into(), std::env::var("PIPE").unwrap_or("stream Out = T .emit(x: x)".into())).await.unwrap();
    let pid = tenant.pipelines.keys().next().unwrap().clone();
    (Arc::new(RwLock::new(mgr)), pid)
}

/// inject {x: j} singly and in a batch; return the JSON of field x of the first output event of each
async fn rest_roundtrip(j: &serde_json::Value) -> (Option<serde_json::Value>, Option<serde_json::Value>) {
    let (mgr, pid) = setup().await;
    let routes = api_routes(mgr, None);
    let mut fields = serde_json::Map::new();
    fields.insert("x".into(), j.clone());
    let req = InjectEventRequest { event_type: "T".into(), fields: fields.clone() };
    let resp = warp::test::request().method("POST").path(&format!("/api/v1/pipelines/{}/events", pid)).header("x-api-key", "key").json(&req).reply(&routes).await;
    let body: serde_json::Value = serde_json::from_slice(resp.body()).unwrap_or(serde_json::Value::Null);
    if std::env::var("DEBUG").is_ok() { eprintln!("status {} body {}", resp.status(), body) }
    let single = body.get("output_events").and_then(|o| o.get(0)).and_then(|e| e.get("fields")).and_then(|f| f.get("x")).cloned();
    let breq = InjectBatchRequest { events: vec![InjectEventRequest { event_type: "T".into(), fields }] };
    let resp = warp::test::request().method("POST").path(&format!("/api/v1/pipelines/{}/events-batch", pid)).header("x-api-key", "key").json(&breq).reply(&routes).await;
    let body: serde_json::Value = serde_json::from_slice(resp.body()).unwrap_or(serde_json::Value::Null);
    let batch = body.get("output_events").and_then(|o| o.get(0)).and_then(|e| e.get("x")).cloned();
    (single, batch)
}

/// `Null`, `Bool:true`, `Int:5`, `Float:<bits>`, `Str:s0`, `Timestamp:5`, `Duration:5`, `Array[a,b]`, `Map{k0=a,k1=b}`
fn parse_value(s: &str) -> Value {
    fn split_top(s: &str) -> Vec<String> {
        let (mut out, mut cur, mut depth) = (Vec::new(), String::new(), 0i32);
        for c in s.chars() {
            match c {
                '[' | '{' => { depth += 1; cur.push(c) }
                ']' | '}' => { depth -= 1; cur.push(c) }
                ',' if depth == 0 => { out.push(std::mem::take(&mut cur)) }
                _ => cur.push(c),
            }
        }
        if !cur.is_empty() { out.push(cur) }
        out
    }
    if s == "Null" { return Value::Null }
    if let Some(r) = s.strip_prefix("Bool:") { return Value::Bool(r == "true") }
    if let Some(r) = s.strip_prefix("Int:") { return Value::Int(r.parse().unwrap()) }
    if let Some(r) = s.strip_prefix("Timestamp:") { return Value::Timestamp(r.parse().unwrap()) }
    if let Some(r) = s.strip_prefix("Duration:") { return Value::Duration(r.parse().unwrap()) }
    if let Some(r) = s.strip_prefix("Float:") { return Value::Float(f64::from_bits(r.parse().unwrap())) }
    if let Some(r) = s.strip_prefix("Str:") { return Value::Str(r.into()) }
    if let Some(r) = s.strip_prefix("Array[") { return Value::array(split_top(&r[..r.len() - 1]).iter().map(|x| parse_value(x)).collect()) }
    if let Some(r) = s.strip_prefix("Map{") {
        let mut m: indexmap::IndexMap<Arc<str>, Value, rustc_hash::FxBuildHasher> = indexmap::IndexMap::with_hasher(rustc_hash::FxBuildHasher);
        for e in split_top(&r[..r.len() - 1]) {
            let (k, v) = e.split_once('=').unwrap();
            m.insert(k.into(), parse_value(v));
        }
        return Value::map(m);
    }
    panic!("bad value description {s}")
}

/// the JSON a faithful converter must produce for a runtime value (None: not JSON-representable, anything goes)
fn expected_json(v: &Value) -> Option<serde_json::Value> {
    Some(match v {
        Value::Null => serde_json::Value::Null,
        Value::Bool(b) => serde_json::Value::Bool(*b),
        Value::Int(i) | Value::Timestamp(i) => serde_json::Value::Number((*i).into()),
        Value::Duration(u) => serde_json::Value::Number((*u).into()),
        Value::Float(f) => serde_json::Value::Number(serde_json::Number::from_f64(*f)?),
        Value::Str(s) => serde_json::Value::String(s.to_string()),
        Value::Array(a) => serde_json::Value::Array(a.iter().map(expected_json).collect::<Option<Vec<_>>>()?),
        Value::Map(m) => serde_json::Value::Object(m.iter().map(|(k, v)| expected_json(v).map(|j| (k.to_string(), j))).collect::<Option<serde_json::Map<_, _>>>()?),
    })
}

#[tokio::main(flavor = "current_thread")]
async fn main() {
    let a: Vec<String> = std::env::args().collect();
    if a.len() < 4 || a[1] != "json" { eprintln!("usage: replay-api json <converter> <json|value>"); std::process::exit(2) }
    let conv = a[2].as_str();
    match conv {
        "json_to_runtime_value" | "json_to_value_bounded" => {
            let j: serde_json::Value = serde_json::from_str(&a[3]).expect("json");
            let mut bad = Vec::new();
            if conv == "json_to_runtime_value" {
                let (single, batch) = rest_roundtrip(&j).await;
                if single.as_ref() != Some(&j) { bad.push(format!("POST /events returned x = {}", single.map(|v| v.to_string()).unwrap_or("<none>".into()))) }
                if batch.as_ref() != Some(&j) { bad.push(format!("POST /events-batch returned x = {}", batch.map(|v| v.to_string()).unwrap_or("<none>".into()))) }
                #[cfg(varpulis_verif)]
                {
                    let v = varpulis_cli::api::verif_hooks::json_to_runtime_value(&j);
                    if expected_json(&v).as_ref() != Some(&j) { bad.push(format!("json_to_runtime_value gave {v:?}")) }
                }
            } else {
                let v = varpulis_cli::websocket::json_to_value(&j);
                if expected_json(&v).as_ref() != Some(&j) { bad.push(format!("websocket::json_to_value gave {v:?}")) }
            }
            if bad.is_empty() { println!("OK {conv} {j}: value kept") } else { println!("REPRODUCED {conv}: injected x = {j} but {}", bad.join("; ")) }
        }
        "value_to_json" | "json_from_value" => {
            let v = parse_value(&a[3]);
            let got = if conv == "value_to_json" { Some(varpulis_cli::websocket::value_to_json(&v)) } else {
                #[cfg(varpulis_verif)]
                { Some(varpulis_cli::api::verif_hooks::json_from_value(&v)) }
                #[cfg(not(varpulis_verif))]
                { None }
            };
            let Some(got) = got else { println!("UNAVAILABLE json_from_value needs the cfg(varpulis_verif) hook"); std::process::exit(2) };
            match expected_json(&v) {
                Some(exp) if exp != got => println!("REPRODUCED {conv}: {v:?} became {got}, expected {exp}"),
                _ => println!("OK {conv}: {v:?} became {got}"),
            }
        }
        _ => { eprintln!("unknown converter"); std::process::exit(2) }
    }
}
