//! Native replay of engine-M counterexamples for C06/C07 against the real varpulis-zdd API.
//! usage: replay-zdd <api> <op> <A> <B> [var]     families as e.g. "{2}{2,4}" / "{}{3}" / "-" (empty family)
//! prints `REPRODUCED ...` (exit 1) when the real code disagrees with explicit sets of sets, `OK` (exit 0) otherwise.
use std::collections::BTreeSet;
use varpulis_zdd::{Zdd, ZddArena};

type Fam = BTreeSet<BTreeSet<u32>>;

fn parse(s: &str) -> Fam {
    let mut f = Fam::new();
    if s == "-" { return f; }
    for part in s.split('}') {
        let p = part.trim_start_matches('{');
        if part.is_empty() { continue; }
        let set: BTreeSet<u32> = p.split(',').filter(|x| !x.is_empty()).map(|x| x.trim().parse().unwrap()).collect();
        f.insert(set);
    }
    f
}

fn spec(op: &str, a: &Fam, b: &Fam, var: u32) -> Fam {
    match op {
        "union" => a.union(b).cloned().collect(),
        "intersection" => a.intersection(b).cloned().collect(),
        "difference" => a.difference(b).cloned().collect(),
        "product_with_optional" => { let mut r = a.clone(); for s in a { let mut t = s.clone(); t.insert(var); r.insert(t); } r }
        "product" => { let mut r = Fam::new(); for x in a { for y in b { r.insert(x.union(y).cloned().collect()); } } r }
        _ => panic!("unknown op {op}"),
    }
}

fn to_fam(v: Vec<Vec<u32>>) -> (Fam, bool) {
    let n = v.len();
    let mut sorted_ok = true;
    for s in &v { if !s.windows(2).all(|w| w[0] < w[1]) { sorted_ok = false; } }
    let f: Fam = v.into_iter().map(|s| s.into_iter().collect()).collect();
    let distinct = f.len() == n;
    (f, sorted_ok && distinct)
}

/// gcseq <nvars> <steps> <seeds>: pseudo-random arena operation sequences with a collection every few steps, every live
/// handle compared with explicit sets of sets after every step (a stale cache or a wrong remap shows up as a mismatch or a panic).
fn gcseq(nv: u32, steps: usize, seeds: u64) {
    for seed in 1..=seeds {
        let r = std::panic::catch_unwind(|| {
            let mut x: u64 = seed.wrapping_mul(0x9E3779B97F4A7C15) | 1;
            let mut rnd = move |m: u64| { x ^= x << 13; x ^= x >> 7; x ^= x << 17; x % m };
            let mut ar = ZddArena::new();
            let mut live: Vec<(varpulis_zdd::arena::ZddHandle, Fam)> = vec![];
            for _ in 0..3 { let mut s = BTreeSet::new(); for v in 0..nv { if rnd(2) == 1 { s.insert(v); } }
                let h = ar.from_set(&s.iter().cloned().collect::<Vec<_>>()); let mut f = Fam::new(); f.insert(s); live.push((h, f)); }
            for step in 0..steps {
                let i = rnd(live.len() as u64) as usize; let j = rnd(live.len() as u64) as usize;
                let (ha, fa) = live[i].clone(); let (hb, fb) = live[j].clone();
                let op = rnd(5);
                let (h, f) = match op {
                    0 => (ar.union(ha, hb), spec("union", &fa, &fb, 0)),
                    1 => (ar.intersection(ha, hb), spec("intersection", &fa, &fb, 0)),
                    2 | 3 => (ar.difference(ha, hb), spec("difference", &fa, &fb, 0)),
                    _ => { let v = rnd(nv as u64) as u32; (ar.product_with_optional(ha, v), spec("product_with_optional", &fa, &fb, v)) }
                };
                if live.len() < 6 { live.push((h, f)); } else { let k = rnd(live.len() as u64) as usize; live[k] = (h, f); }
                if step % 3 == 2 {
                    let keep: Vec<usize> = (0..live.len()).filter(|_| rnd(4) != 0).collect();
                    let hs: Vec<_> = keep.iter().map(|k| live[*k].0).collect();
                    let (_, nh) = ar.gc(&hs);
                    live = keep.iter().zip(nh).map(|(k, h)| (h, live[*k].1.clone())).collect();
                    if live.is_empty() { let h = ar.base(); let mut f = Fam::new(); f.insert(BTreeSet::new()); live.push((h, f)); }
                }
                for (h, f) in &live {
                    let (g, ok) = to_fam(ar.iter(*h).collect());
                    if &g != f || !ok || ar.count(*h) != f.len() { return Some(format!("seed {seed} step {step}: a live handle denotes {:?} (count {}), explicit sets give {:?}", g, ar.count(*h), f)); }
                }
            }
            None
        });
        match r {
            Err(_) => { println!("REPRODUCED arena operation sequence with garbage collections panicked (seed {seed})"); std::process::exit(1); }
            Ok(Some(m)) => { println!("REPRODUCED {m}"); std::process::exit(1); }
            Ok(None) => {}
        }
    }
    println!("OK {seeds} operation sequences of {steps} steps over {nv} variables with interleaved gc agree with explicit sets");
}

/// canon <nvars> <trials>: canonicity / gc / iteration probes — the same family built in different orders (and again after a
/// collection) must give the same handle; iteration must yield each member once, elements ascending; gc must keep the families.
fn canon(nv: u32, trials: u64) {
    for seed in 1..=trials {
        let r = std::panic::catch_unwind(|| {
            let mut x: u64 = seed.wrapping_mul(0x9E3779B97F4A7C15) | 1;
            let mut rnd = move |m: u64| { x ^= x << 13; x ^= x >> 7; x ^= x << 17; x % m };
            let mut sets: Vec<Vec<u32>> = vec![];
            for _ in 0..(1 + rnd(5)) { let mut s = vec![]; for v in 0..nv { if rnd(2) == 1 { s.push(v); } } sets.push(s); }
            let want: Fam = sets.iter().map(|s| s.iter().cloned().collect()).collect();
            let mut ar = ZddArena::new();
            let build = |ar: &mut ZddArena, order: &Vec<Vec<u32>>, shuffle: bool| { let mut h = ar.empty(); for s in order { let mut e = s.clone(); if shuffle { e.reverse(); } let x = ar.from_set(&e); h = ar.union(h, x); } h };
            let h1 = build(&mut ar, &sets, false);
            let mut rev = sets.clone(); rev.reverse();
            let h2 = build(&mut ar, &rev, true);
            if h1 != h2 { return Some(format!("seed {seed}: family {:?} built in two orders gives different roots", want)); }
            // a second family sharing structure, collection keeping a subset of the handles
            let extra = ar.product_with_optional(h1, rnd(nv as u64) as u32);
            let keep = if rnd(2) == 0 { vec![h1] } else { vec![h1, extra] };
            let (_, nh) = ar.gc(&keep);
            let g1 = nh[0];
            let (f1, ok1) = to_fam(ar.iter(g1).collect());
            if f1 != want || !ok1 { return Some(format!("seed {seed}: after gc the handle iterates {:?} (sorted-distinct={ok1}), expected {:?}", f1, want)); }
            let h3 = build(&mut ar, &sets, false);
            if h3 != g1 { return Some(format!("seed {seed}: rebuilding {:?} after gc gives a root different from the one gc kept (canonicity lost)", want)); }
            let z = { let mut z = Zdd::empty(); for s in &sets { z = z.union(&Zdd::from_set(s)); } z };
            let (fz, okz) = to_fam(z.iter().collect());
            if fz != want || !okz { return Some(format!("seed {seed}: standalone iteration gives {:?} (sorted-distinct={okz}), expected {:?}", fz, want)); }
            None
        });
        match r {
            Err(_) => { println!("REPRODUCED canonicity/gc/iteration probe panicked (seed {seed})"); std::process::exit(1); }
            Ok(Some(m)) => { println!("REPRODUCED {m}"); std::process::exit(1); }
            Ok(None) => {}
        }
    }
    println!("OK {trials} canonicity/gc/iteration probes over {nv} variables");
}

fn one(api: &str, op: &str, fa: &Fam, fb: &Fam, var: u32) -> Result<Fam, String> {
    let (fa, fb) = (fa.clone(), fb.clone());
    let want = spec(op, &fa, &fb, var);
    let (got, count, members_ok, iter_ok) = if api == "arena" {
        let mut ar = ZddArena::new();
        let mut build = |ar: &mut ZddArena, f: &Fam| { let mut h = ar.empty(); for s in f { let v: Vec<u32> = s.iter().cloned().collect(); let x = ar.from_set(&v); h = ar.union(h, x); } h };
        let ha = build(&mut ar, &fa); let hb = build(&mut ar, &fb);
        let (ba, _) = to_fam(ar.iter(ha).collect()); let (bb, _) = to_fam(ar.iter(hb).collect());
        if ba != fa || bb != fb { return Err(format!("building operands with from_set/union already differs: {:?} vs {:?} / {:?} vs {:?}", ba, fa, bb, fb)); }
        let r = match op { "union" => ar.union(ha, hb), "intersection" => ar.intersection(ha, hb), "difference" => ar.difference(ha, hb),
            "product_with_optional" => ar.product_with_optional(ha, var), _ => panic!("op {op} not in arena api") };
        let (g, iok) = to_fam(ar.iter(r).collect());
        let c = ar.count(r);
        let mok = want.iter().all(|s| ar.contains(r, &s.iter().cloned().collect::<Vec<_>>())) ;
        (g, c, mok, iok)
    } else {
        let build = |f: &Fam| { let mut z = Zdd::empty(); for s in f { let v: Vec<u32> = s.iter().cloned().collect(); z = z.union(&Zdd::from_set(&v)); } z };
        let za = build(&fa); let zb = build(&fb);
        let (ba, _) = to_fam(za.iter().collect()); let (bb, _) = to_fam(zb.iter().collect());
        if ba != fa || bb != fb { return Err("building operands with from_set/union already differs".to_string()); }
        let r = match op { "union" => za.union(&zb), "intersection" => za.intersection(&zb), "difference" => za.difference(&zb),
            "product_with_optional" => za.product_with_optional(var), "product" => za.product(&zb), _ => panic!("op {op}") };
        let (g, iok) = to_fam(r.iter().collect());
        let c = r.count();
        let mok = want.iter().all(|s| r.contains(&s.iter().cloned().collect::<Vec<_>>()));
        (g, c, mok, iok)
    };
    if got != want || count != want.len() || !members_ok || !iter_ok {
        return Err(format!("api={api} op={op} A={:?} B={:?} var={var}: real code returns {:?} (count {count}, contains-all-expected={members_ok}, iteration-sorted-distinct={iter_ok}), explicit sets give {:?}", fa, fb, got, want));
    }
    Ok(got)
}

fn main() {
    let a: Vec<String> = std::env::args().collect();
    if a[1] == "canon" { canon(a[2].parse().unwrap(), a[3].parse().unwrap()); return; }
    if a[1] == "gcseq" { gcseq(a[2].parse().unwrap(), a[3].parse().unwrap(), a[4].parse().unwrap()); return; }
    let (api, op) = (a[1].as_str(), a[2].as_str());
    let fa = parse(&a[3]); let fb = parse(&a[4]);
    let var: u32 = a.get(5).map(|x| x.parse().unwrap()).unwrap_or(0);
    match one(api, op, &fa, &fb, var) {
        Err(m) => { println!("REPRODUCED {m}"); std::process::exit(1); }
        Ok(got) => {
            // The solver's witness is ONE recursion step from an arbitrary cache state.  A fresh top-level call starts with an
            // empty cache, so a defect that needs a cache entry written earlier in the same call (e.g. a confused cache key)
            // shows only on operands whose recursion revisits sub-problems: sweep every pair of families over 3 variables.
            let sets: Vec<BTreeSet<u32>> = (0u32..8).map(|m| (0..3).filter(|v| m >> v & 1 == 1).collect()).collect();
            let fam = |m: u32| -> Fam { (0..8).filter(|i| m >> i & 1 == 1).map(|i| sets[i as usize].clone()).collect() };
            let unary = op == "product_with_optional";
            let mut n = 0usize;
            for ma in 0u32..256 { for mb in 0u32..(if unary { 1 } else { 256 }) { for v in 0..(if unary { 4 } else { 1 }) {
                n += 1;
                let r = std::panic::catch_unwind(|| one(api, op, &fam(ma), &fam(mb), v));
                match r {
                    Err(_) => { println!("REPRODUCED api={api} op={op} A={:?} B={:?} var={v}: the real code panicked", fam(ma), fam(mb)); std::process::exit(1); }
                    Ok(Err(m)) => { println!("REPRODUCED (sweep over all families of 3 variables) {m}"); std::process::exit(1); }
                    Ok(Ok(_)) => {}
                }
            } } }
            println!("OK api={api} op={op}: {:?}; sweep of {n} operand combinations over 3 variables agrees with explicit sets", got);
        }
    }
}
